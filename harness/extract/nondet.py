"""E10a: the NONDETERMINISM INVENTORY of the whole source tree, as a Lean table (Gen/Nondet.lean).  Pure ast.

Listed (every occurrence, in every .py file under src/primaite):

  uuid         uuid.uuid1/uuid4 calls                         secrets      secrets.* calls
  clock        datetime.now/utcnow/today, date.today          timeMod      time.* calls
  idBuiltin    id(...)                                        hashBuiltin  hash(...)
  urandom      os.urandom / os.getpid / random.SystemRandom   pyRandom     random.* calls (module `random` or names imported from it)
  npRandom     numpy.random.* calls                           rngMethod    method calls on an attribute/variable called `rng`
  fsOrder      os.listdir / os.walk / os.scandir / glob / iterdir / rglob (directory order)
  concurrency  imports of threading / multiprocessing / concurrent / asyncio
  setDecl      a name declared set-valued: annotation Set[..]/set[..]/set/FrozenSet, or assignment of a set-valued expression
               to an attribute / class field (locals are tracked but not listed)
  setIter      an ITERATION of a set-valued expression: for-loop, comprehension, list()/tuple()/sorted()/enumerate()/iter()/next()/
               min()/max()/sum()/any()/all()/zip()/map()/filter()/join()/chain()/dict.fromkeys()/Starred/.pop(); detail = consumer + expr
  setEscape    a set-valued expression (or a container of sets) passed to a call whose callee is not resolved inside the tree, or
               returned from a function without a Set return annotation
  spaceSample  `<…space>.sample()` / `.np_random`: gymnasium's per-space generator (lazily seeded from OS entropy)
  torchRandom  torch.manual_seed / torch.rand* / randint / randperm / multinomial / normal / bernoulli calls
  idOrder      an ORDERING use of an identifier-valued expression (uuid / MAC / connection id …): `<`/`>` comparison, or a
               sorted()/min()/max()/.sort() call whose argument or key mentions one
  idText       a use of the TEXT of an identifier: subscript/slice, string method, int()/len()/ord() on it

Every site carries a FACT (`Gen.Nondet.facts`, same order as `sites`) - what the extractor could establish mechanically
about it with a small syntactic data-flow check (see `Facts` below): generator family and evaluation time of a draw, the
constant argument of `secrets.token_urlsafe`, the sinks a clock reading flows to, the keyword a set display is passed as,
whether the module is outside the import closure of the runtime entry points, the iteration sites of a declared set
name, the element type of an int-valued set, `hash()` being the body of `__hash__`.

"Set-valued" is decided syntactically and by NAME: set()/frozenset() calls, set displays, set comprehensions, set algebra
(.union/.intersection/.difference/.symmetric_difference/.copy on a set, `|&-^` with a set or keys-view operand), calls of
functions annotated `-> Set[..]`, and any Name/Attribute whose (terminal) name was declared set-valued (attributes and
functions: tree-wide; locals and parameters: per function).  Containers of sets (`d[k] = set()`, Dict[.., Set[..]]) are
tracked one level: `d[k]`, `d.get(k, ..)`, and the elements of `d.values()` are set-valued.  Set-valued arguments are
propagated into callees that are defined exactly once in the tree (fixpoint), so the iteration inside
`science.topological_sort(graph)` of the reward-sharing graph built in game.py IS listed.

A site is identified by (file, enclosing qualified scope, kind, detail text, occurrence index) - no line numbers, so
that unrelated edits do not move it; a new, removed, renamed or moved site changes the table and with it the obligation
`C03_inventory_discharged`.

Membership tests, len(), truthiness, add/remove/discard/update on sets do not observe the order and are not listed
(counted in `stats()` for the evidence).
"""
from __future__ import annotations

import ast
from typing import Dict, List, Optional, Set, Tuple

from harness.lib.core import SRC

GEN_NAME = "Nondet"

KINDS = ["uuid", "secrets", "clock", "timeMod", "idBuiltin", "hashBuiltin", "urandom", "pyRandom", "npRandom", "rngMethod",
         "fsOrder", "concurrency", "setDecl", "setIter", "setEscape", "spaceSample", "torchRandom", "idOrder", "idText"]
FAMS = ["py", "np", "torch", "derivedNp", "entropy", "space"]
TORCH_RANDOM = {"manual_seed", "seed", "rand", "randn", "randint", "randperm", "rand_like", "randn_like", "randint_like", "multinomial",
                "normal", "bernoulli", "poisson", "dropout"}
# names that carry an unseeded identifier (uuid4 string, generated MAC, secrets-generated number)
import re as _re
ID_NAME = _re.compile(r"^(?:_?(?:\w+_)?uuid|mac_address|(?:src|dst|target|source|dest)_mac(?:_addr(?:ess)?)?|_?(?:connection|connection_request|query|session|"
                      r"ssh_session|remote_session|local_session|request|folder|file)_(?:id|uuid)|identifier|icmp_identifier)$")
STR_METHODS = {"split", "rsplit", "partition", "startswith", "endswith", "replace", "upper", "lower", "strip", "lstrip", "rstrip", "find",
               "index", "encode", "zfill", "ljust", "rjust", "hex", "removeprefix", "removesuffix", "casefold"}
RUNTIME_ROOTS = ["session/environment.py", "session/ray_envs.py", "game/game.py"]

ITER_CONSUMERS = {"list", "tuple", "sorted", "enumerate", "iter", "next", "min", "max", "sum", "any", "all", "zip", "map",
                  "filter", "reversed", "chain", "from_iterable", "fromkeys", "join", "array", "asarray", "deque", "OrderedDict", "dict",
                  "extend"}
SET_BUILDERS = {"set", "frozenset"}  # building a set from a set does not observe the order
ORDER_FREE = {"len", "bool", "isinstance", "type", "print", "repr", "str", "id"}
SET_ALGEBRA = {"union", "intersection", "difference", "symmetric_difference", "copy"}
SET_MUTATORS = {"add", "remove", "discard", "update", "clear", "difference_update", "intersection_update", "issubset", "issuperset",
                "isdisjoint"}
STATS: Dict[str, int] = {}


def _is_set_annotation(a: Optional[ast.AST]) -> Optional[str]:
    """'set' if the annotation denotes a set, 'cont' if a mapping/sequence whose values are sets."""
    if a is None:
        return None
    txt = ast.unparse(a)
    if isinstance(a, ast.Constant) and isinstance(a.value, str):
        txt = a.value
    t = txt.replace("typing.", "").replace(" ", "")
    for p in ("Optional[", "Final[", "ClassVar["):
        if t.startswith(p) and t.endswith("]"):
            t = t[len(p):-1]
    if t in ("set", "Set", "frozenset", "FrozenSet", "AbstractSet", "MutableSet") or t.startswith(("Set[", "set[", "FrozenSet[", "frozenset[", "AbstractSet[", "MutableSet[")):
        return "set"
    if t.startswith(("Dict[", "dict[", "Mapping[", "List[", "list[", "DefaultDict[", "defaultdict[")) and ("Set[" in t or "set[" in t):
        return "cont"
    return None


class FileInfo:
    def __init__(self, rel: str, tree: ast.Module):
        self.rel = rel
        self.tree = tree
        self.mod_alias: Dict[str, str] = {}    # local name -> module ("random", "numpy", "numpy.random", "secrets", ...)
        self.from_names: Dict[str, str] = {}   # local name -> "module.name"
        for n in ast.walk(tree):
            if isinstance(n, ast.Import):
                for a in n.names:
                    self.mod_alias[a.asname or a.name.split(".")[0]] = a.name if a.asname else a.name.split(".")[0]
            elif isinstance(n, ast.ImportFrom) and n.module:
                for a in n.names:
                    self.from_names[a.asname or a.name] = f"{n.module}.{a.name}"


def _dotted(e: ast.AST) -> Optional[str]:
    parts = []
    while isinstance(e, ast.Attribute):
        parts.append(e.attr)
        e = e.value
    if isinstance(e, ast.Name):
        parts.append(e.id)
        return ".".join(reversed(parts))
    return None


def _resolve(fi: FileInfo, func: ast.AST) -> Optional[str]:
    """Fully qualified dotted name of a call target as far as imports tell."""
    d = _dotted(func)
    if d is None:
        return None
    head, _, rest = d.partition(".")
    if head in fi.from_names:
        base = fi.from_names[head]
    elif head in fi.mod_alias:
        base = fi.mod_alias[head]
    else:
        return d
    return base + ("." + rest if rest else "")


def _txt(e: ast.AST, cap: int = 90) -> str:
    s = ast.unparse(e).replace("\n", " ").replace('"', "'").replace("\\", "/")
    s = " ".join(s.split())
    return s if len(s) <= cap else s[:cap - 3] + "..."



def _lb(b: bool) -> str:
    return "true" if b else "false"


def _lstr(x: str) -> str:
    return '"' + x.replace("\\", "/").replace('"', "'") + '"'


def _is_space_expr(e: ast.AST) -> bool:
    d = _dotted(e)
    last = d.split(".")[-1] if d else (e.func.attr if isinstance(e, ast.Call) and isinstance(e.func, ast.Attribute) else "")
    return last == "space" or last.endswith("_space")


def _is_identifier_expr(e: ast.AST) -> bool:
    """uuid / MAC / connection-id valued, by NAME (terminal attribute or variable name)."""
    if isinstance(e, ast.Attribute):
        return bool(ID_NAME.match(e.attr)) and "_by_" not in e.attr      # `sessions_by_uuid` is a dict KEYED by uuids
    if isinstance(e, ast.Name):
        return bool(ID_NAME.match(e.id)) and "_by_" not in e.id
    if isinstance(e, ast.Call) and isinstance(e.func, ast.Name) and e.func.id == "str" and e.args:
        return _is_identifier_expr(e.args[0])
    return False


# names (terminal attribute / variable) of dicts KEYED by identifiers, learnt tree-wide by `Tree.__init__`: `X[<identifier>] = …`,
# `X = {<identifier>: … for …}`, or a name saying so (`sessions_by_uuid`).  sorted(X) / min(X) / max(X) / sorted(X.items()) order identifiers.
ID_KEYED: Set[str] = set()
_BY_ID = _re.compile(r"_by_(?:uuid|id|mac)\b")


def _terminal_name(e: ast.AST) -> Optional[str]:
    return e.attr if isinstance(e, ast.Attribute) else (e.id if isinstance(e, ast.Name) else None)


def _learn_id_keyed(tree: ast.Module) -> None:
    for n in ast.walk(tree):
        if isinstance(n, ast.Subscript) and isinstance(n.ctx, ast.Store) and _is_identifier_expr(n.slice):
            nm = _terminal_name(n.value)
            if nm:
                ID_KEYED.add(nm)
        elif isinstance(n, (ast.Assign, ast.AnnAssign)) and isinstance(n.value, ast.DictComp) and _is_identifier_expr(n.value.key):
            for t in (n.targets if isinstance(n, ast.Assign) else [n.target]):
                nm = _terminal_name(t)
                if nm:
                    ID_KEYED.add(nm)
        elif isinstance(n, (ast.Attribute, ast.Name)):
            nm = _terminal_name(n)
            if nm and _BY_ID.search(nm):
                ID_KEYED.add(nm)


def _mentions_identifier(call: ast.Call) -> bool:
    """a sorted()/min()/max()/.sort() call one of whose arguments, or whose key function, mentions an identifier-valued name or a dict
    keyed by identifiers"""
    parts = list(call.args) + [k.value for k in call.keywords]
    if isinstance(call.func, ast.Attribute) and call.func.attr == "sort":
        parts.append(call.func.value)
    for part in parts:
        for n in ast.walk(part):
            if isinstance(n, (ast.Attribute, ast.Name)) and _is_identifier_expr(n):
                return True
    first = call.func.value if isinstance(call.func, ast.Attribute) and call.func.attr == "sort" else (call.args[0] if call.args else None)
    return first is not None and _orders_keys(first)


def _orders_keys(e: ast.AST) -> bool:
    """the ordered collection is the KEYS of an identifier-keyed dict: X, X.keys(), X.items(), list(X), or a comprehension over one of
    them whose element mentions the key variable (`max(f.size for f in X.values())` orders sizes, not identifiers)"""
    while isinstance(e, ast.Call) and isinstance(e.func, ast.Name) and e.func.id in ("list", "tuple", "iter", "set", "frozenset") and e.args:
        e = e.args[0]

    def keyed(x: ast.AST) -> bool:
        if isinstance(x, ast.Call) and isinstance(x.func, ast.Attribute) and x.func.attr in ("keys", "items") and not x.args:
            x = x.func.value
        return _terminal_name(x) in ID_KEYED

    if keyed(e):
        return True
    if isinstance(e, (ast.ListComp, ast.GeneratorExp, ast.SetComp)) and e.generators and keyed(e.generators[0].iter):
        tgt = e.generators[0].target
        kv = tgt.id if isinstance(tgt, ast.Name) else (
            tgt.elts[0].id if isinstance(tgt, ast.Tuple) and tgt.elts and isinstance(tgt.elts[0], ast.Name) else None)
        return kv is not None and any(isinstance(n, ast.Name) and n.id == kv for n in ast.walk(e.elt))
    return False


def _const_int(e: ast.AST) -> Optional[int]:
    """fold `int(32 / 1.3)`-like constant expressions; None if not constant"""
    def ev(x):
        if isinstance(x, ast.Constant) and isinstance(x.value, (int, float)) and not isinstance(x.value, bool):
            return x.value
        if isinstance(x, ast.BinOp) and isinstance(x.op, (ast.Add, ast.Sub, ast.Mult, ast.Div, ast.FloorDiv)):
            a, b = ev(x.left), ev(x.right)
            if a is None or b is None:
                return None
            try:
                return {ast.Add: a + b, ast.Sub: a - b, ast.Mult: a * b, ast.Div: a / b, ast.FloorDiv: a // b}[type(x.op)]
            except ZeroDivisionError:
                return None
        if isinstance(x, ast.Call) and isinstance(x.func, ast.Name) and x.func.id in ("int", "round") and len(x.args) == 1 and not x.keywords:
            a = ev(x.args[0])
            return None if a is None else (int(a) if x.func.id == "int" else round(a))
        return None
    v = ev(e)
    return v if isinstance(v, int) else None


LOG_METHODS = {"debug", "info", "warning", "error", "critical", "exception", "log"}


class Flow:
    """Where the VALUE of an expression can go: a small syntactic forward data-flow (taint) over the whole tree.
    Carriers: method calls / attributes of the value, str()/repr()/format, f-strings, list/tuple displays, assignment to a
    local (all later reads in the function), to an attribute or constructor keyword (every read of an attribute of that
    NAME in the tree), to a dict entry with a constant key (every subscript with that key), return (every call of a function
    of that name).  Sinks: `path` (operand of `/`, i.e. a directory/file name), `show` (print / PrettyTable.add_row), `log`
    (logger methods).  Anything else is reported as `other:<what>` - the discharge then does not hold mechanically."""

    def __init__(self, T: "Tree"):
        self.T = T
        self.sinks: Set[str] = set()
        self.fields: Set[str] = set()   # attribute / constructor-keyword names the value is stored under
        self.seen: Set[Tuple[str, int]] = set()

    def follow(self, fi: FileInfo, node: ast.AST, depth: int = 0) -> None:
        key = (fi.rel, id(node))
        if key in self.seen:
            return
        self.seen.add(key)
        if depth > 14:
            self.sinks.add("other:depth")
            return
        par = self.T.parents_of(fi)
        p = par.get(id(node))
        if p is None:
            return
        d = depth + 1
        if isinstance(p, ast.Attribute) and p.value is node:
            return self.follow(fi, p, d)
        if isinstance(p, ast.Call):
            if p.func is node:                      # a method of the value is called: the result carries it
                return self.follow(fi, p, d)
            fname = p.func.attr if isinstance(p.func, ast.Attribute) else (p.func.id if isinstance(p.func, ast.Name) else "?")
            if fname in ("str", "repr", "format", "int", "float"):
                return self.follow(fi, p, d)
            if fname == "print" or fname == "add_row":
                self.sinks.add("show")
                return
            if fname in LOG_METHODS:
                self.sinks.add("log")
                return
            # an argument of a function / method defined exactly once in the tree: the value is that parameter inside the callee
            # (over-approximation: every definition of that name, up to four)
            defs = self.T.func_defs.get(fname, [])
            if 1 <= len(defs) <= 4 and node in p.args:
                hit = False
                for dfi, dfn in defs:
                    params = [a.arg for a in [*dfn.args.posonlyargs, *dfn.args.args]]
                    if params and params[0] in ("self", "cls") and isinstance(p.func, ast.Attribute):
                        params = params[1:]
                    i = p.args.index(node)
                    if i < len(params):
                        hit = True
                        for m in ast.walk(dfn):
                            if isinstance(m, ast.Name) and m.id == params[i] and isinstance(m.ctx, ast.Load):
                                self.follow(dfi, m, d)
                if hit:
                    if len(defs) > 1:
                        self.sinks.add("other:argument of " + fname + " (several definitions)")
                    return
            self.sinks.add("other:argument of " + fname)
            return
        if isinstance(p, ast.keyword):
            call = par.get(id(p))
            fname = ""
            if isinstance(call, ast.Call):
                fname = call.func.attr if isinstance(call.func, ast.Attribute) else (call.func.id if isinstance(call.func, ast.Name) else "?")
            if fname in LOG_METHODS:
                self.sinks.add("log")
                return
            if p.arg:
                return self.field(p.arg, d)       # constructor keyword = attribute of the object built
            self.sinks.add("other:**kwargs")
            return
        if isinstance(p, ast.BinOp):
            if isinstance(p.op, ast.Div):
                self.sinks.add("path")
            else:
                self.sinks.add("other:arithmetic")
            return
        if isinstance(p, (ast.FormattedValue, ast.JoinedStr, ast.List, ast.Tuple, ast.Starred)):
            return self.follow(fi, p, d)
        if isinstance(p, ast.Dict):
            for k, v in zip(p.keys, p.values):
                if v is node:
                    if isinstance(k, ast.Constant) and isinstance(k.value, str):
                        self.key(k.value, d)
                    else:
                        self.sinks.add("other:dict value under a computed key")
            return
        if isinstance(p, (ast.Assign, ast.AnnAssign)):
            targets = p.targets if isinstance(p, ast.Assign) else [p.target]
            for t in targets:
                if isinstance(t, ast.Name):
                    fn = self.T.enclosing_func(fi, p)
                    scope = fn if fn is not None else fi.tree
                    for m in ast.walk(scope):
                        if isinstance(m, ast.Name) and m.id == t.id and isinstance(m.ctx, ast.Load):
                            self.follow(fi, m, d)
                elif isinstance(t, ast.Attribute):
                    self.field(t.attr, d)
                elif isinstance(t, ast.Subscript) and isinstance(t.slice, ast.Constant) and isinstance(t.slice.value, str):
                    self.key(t.slice.value, d)
                else:
                    self.sinks.add("other:assignment target")
            return
        if isinstance(p, ast.Return):
            fn = self.T.enclosing_func(fi, p)
            if fn is None or isinstance(fn, ast.Lambda):
                self.sinks.add("other:return")
                return
            for fi2 in self.T.files:
                for m in ast.walk(fi2.tree):
                    if isinstance(m, ast.Call):
                        nm = m.func.attr if isinstance(m.func, ast.Attribute) else (m.func.id if isinstance(m.func, ast.Name) else None)
                        if nm == fn.name:
                            self.follow(fi2, m, d)
            return
        if isinstance(p, ast.Expr):
            return                                  # value discarded
        self.sinks.add("other:" + type(p).__name__)

    def field(self, attr: str, depth: int) -> None:
        self.fields.add(attr)
        for fi2 in self.T.files:
            for m in ast.walk(fi2.tree):
                if isinstance(m, ast.Attribute) and m.attr == attr and isinstance(m.ctx, ast.Load):
                    self.follow(fi2, m, depth)

    def key(self, k: str, depth: int) -> None:
        for fi2 in self.T.files:
            for m in ast.walk(fi2.tree):
                if isinstance(m, ast.Subscript) and isinstance(m.ctx, ast.Load) and isinstance(m.slice, ast.Constant) and m.slice.value == k:
                    self.follow(fi2, m, depth)


class Facts:
    """The mechanical FACT attached to a site (a Lean term of type `Gen.Nondet.Fact`)."""

    def __init__(self, sa: "ScopeAnalysis", parents):
        self.sa, self.T, self.fi = sa, sa.T, sa.fi

    def _chain(self, n: ast.AST):
        par = self.T.parents_of(self.fi)
        p = par.get(id(n))
        while p is not None:
            yield p
            p = par.get(id(p))

    def at_call(self, n: ast.AST) -> bool:
        """evaluated when a function / lambda is CALLED (not when the module is imported or the class body executed)"""
        return any(isinstance(p, (ast.FunctionDef, ast.AsyncFunctionDef, ast.Lambda)) for p in self._chain(n))

    def guarded_generate(self, n: ast.AST) -> bool:
        """inside the body of `if generate_seed_value:`"""
        prev = n
        for p in self._chain(n):
            if isinstance(p, ast.If) and ast.unparse(p.test) == "generate_seed_value" and any(prev is b for b in p.body):
                return True
            prev = p
        return False

    def _rng_family(self, e: Optional[ast.AST]) -> str:
        """family of a generator-valued expression: `np.random.default_rng(<np draw>)` / `default_rng()`"""
        if e is None:
            raise ValueError("generator `rng` without a recognisable origin")
        for c in ast.walk(e):
            if isinstance(c, ast.Call) and (_resolve(self.fi, c.func) or "").endswith("random.default_rng"):
                if not c.args and not c.keywords:
                    return "entropy"
                inner = [x for a in c.args for x in ast.walk(a) if isinstance(x, ast.Call) and (_resolve(self.fi, x.func) or "").startswith("numpy.random.")]
                if inner:
                    return "derivedNp"
                raise ValueError(f"default_rng argument not recognised: {ast.unparse(c)}")
        raise ValueError(f"origin of generator not recognised: {ast.unparse(e)}")

    def _is_derived_rng_call(self, x: ast.Call) -> bool:
        """`self.rng.<method>(…)` where the class field `rng` of this file is a Generator derived from a numpy draw"""
        if not (isinstance(x.func, ast.Attribute) and _dotted(x.func.value) and _dotted(x.func.value).split(".")[-1] == "rng"):
            return False
        if isinstance(x.func.value, ast.Name):
            return False
        origin = None
        for m in ast.walk(self.fi.tree):
            if isinstance(m, ast.AnnAssign) and isinstance(m.target, ast.Name) and m.target.id == "rng" and m.value is not None:
                origin = m.value
        try:
            return self._rng_family(origin) == "derivedNp"
        except ValueError:
            return False

    def draw(self, n: ast.Call, q: str) -> str:
        at, gd = _lb(self.at_call(n)), _lb(self.guarded_generate(n))
        arg = _lstr(", ".join(ast.unparse(a) for a in n.args) + "".join(f", {k.arg}={ast.unparse(k.value)}" for k in n.keywords))
        if q == "random.seed":
            return f".seedCall .py {arg} {at}"
        if q == "numpy.random.seed":
            return f".seedCall .np {arg} {at}"
        if q in ("torch.manual_seed", "torch.seed"):
            return f".seedCall .torch {arg} {at}"
        if q.startswith("torch."):
            return f".draw .torch {at} {gd}"
        if q == "space.sample":
            # `x = <space>; x.seed(<numpy draw>); x.sample()` : the space's generator is derived from the seeded numpy generator
            base = n.func.value
            fn = self.T.enclosing_func(self.fi, n)
            if isinstance(base, ast.Name) and fn is not None:
                for m in ast.walk(fn):
                    if (isinstance(m, ast.Call) and isinstance(m.func, ast.Attribute) and m.func.attr == "seed" and isinstance(m.func.value, ast.Name)
                            and m.func.value.id == base.id and m.lineno < n.lineno and len(m.args) == 1
                            and any(isinstance(x, ast.Call) and ((_resolve(self.fi, x.func) or "").startswith("numpy.random.") or self._is_derived_rng_call(x))
                                    for x in ast.walk(m.args[0]))):
                        return f".draw .derivedNp {at} {gd}"
            return f".draw .space {at} {gd}"
        if q in ("random.getstate", "random.setstate", "numpy.random.get_state", "numpy.random.set_state"):
            # F-11 repair: not a draw - the STATE of a process-wide generator is read (to be kept by the environment) or put back.
            # `inWrapper`: the call is inside the decorator `own_generator_state` of session/environment.py, whose shape (restore before the
            # operation, save after it, same key) is regenerated as Gen/OwnGeneratorState.lean
            fam = "py" if q.startswith("random.") else "np"
            restore = q.split(".")[-1] in ("setstate", "set_state")
            inw = self.fi.rel == "session/environment.py" and any(
                isinstance(p, ast.FunctionDef) and p.name == "own_generator_state" for p in self._chain(n))
            return f".stateAccess .{fam} {_lb(restore)} {at} {_lb(inw)}"
        if q.startswith("random."):
            return f".draw .py {at} {gd}"
        if q.endswith("random.default_rng"):
            return f".draw .{self._rng_family(n)} {at} {gd}"
        if q.startswith("numpy.random"):
            return f".draw .np {at} {gd}"
        if q.startswith("rng."):
            base = n.func.value
            origin = None
            if isinstance(base, ast.Name):      # a local: its assignment in the enclosing function
                fn = self.T.enclosing_func(self.fi, n)
                for m in ast.walk(fn if fn is not None else self.fi.tree):
                    if isinstance(m, ast.Assign) and any(isinstance(t, ast.Name) and t.id == base.id for t in m.targets):
                        origin = m.value
            else:                                # self.rng: the class field of that name in this file
                for m in ast.walk(self.fi.tree):
                    if isinstance(m, ast.AnnAssign) and isinstance(m.target, ast.Name) and m.target.id == "rng" and m.value is not None:
                        origin = m.value
            return f".draw .{self._rng_family(origin)} {at} {gd}"
        raise ValueError("unclassified draw " + q)

    def eq_only(self, n: ast.AST) -> str:
        """the value is an operand of `==` / `!=` / `in` / `not in` and nothing else"""
        p = self.T.parents_of(self.fi).get(id(n))
        if isinstance(p, ast.Compare) and all(isinstance(o, (ast.Eq, ast.NotEq, ast.In, ast.NotIn)) for o in p.ops):
            return ".cmpEqOnly"
        return ".none"

    def secret(self, n: ast.Call, q: str) -> str:
        if q == "secrets.randbelow" and len(n.args) == 1:
            k = _const_int(n.args[0])
            par = self.T.parents_of(self.fi).get(id(n))
            if k is not None and k > 0 and isinstance(par, ast.BinOp) and isinstance(par.op, ast.Add):
                other = par.left if par.right is n else par.right
                lo = _const_int(other)
                if lo is not None and lo >= 0:
                    return f".boundedSecret {lo} {lo + k - 1}"   # `lo + secrets.randbelow(k)`
        if q == "secrets.token_urlsafe" and len(n.args) == 1:
            v = _const_int(n.args[0])
            if v is not None and v >= 0:
                return f".constSecret {v}"
        return ".none"

    def reading(self, n: ast.Call) -> str:
        fl = Flow(self.T)
        fl.follow(self.fi, n)
        if all(x in ("path", "show", "log") for x in fl.sinks):
            return ".sinks [" + ", ".join(_lstr(x) for x in sorted(fl.sinks)) + "]"
        # the value goes somewhere else: report the attribute / keyword names it is stored under (which of them are datetime fields
        # of a model with a fixed-width serialiser is the table `datetimeFields`)
        return ".storedIn [" + ", ".join(_lstr(x) for x in sorted(fl.fields)) + "]"

    def offline(self) -> str:
        return ".offlineModule" if self.fi.rel not in self.T.runtime_closure() else ".none"

    def hash_fact(self, n: ast.Call) -> str:
        fn = self.T.enclosing_func(self.fi, n)
        par = self.T.parents_of(self.fi).get(id(n))
        if fn is not None and getattr(fn, "name", "") == "__hash__" and isinstance(par, ast.Return):
            return f".hashDunder {_lstr(ast.unparse(n.args[0]))}"
        if isinstance(par, ast.Expr):
            return ".valueDiscarded"   # `hash(x)` as a statement: only whether it raises (hashability of the TYPE) can matter
        return ".none"

    def escape(self, n: ast.AST, p: Optional[ast.AST], parents) -> str:
        if isinstance(n, ast.Call) and isinstance(n.func, ast.Name) and n.func.id in SET_BUILDERS and not n.args and not n.keywords:
            return ".emptySetLiteral"      # `set()` handed to a call (e.g. the default of `dict.get`): nothing to iterate
        if isinstance(n, ast.Set) and len(n.elts) == 1 and isinstance(n.elts[0], ast.Constant):
            return ".singletonDisplay"
        if isinstance(p, ast.keyword) and p.arg:
            call = self.T.parents_of(self.fi).get(id(p))
            if isinstance(call, ast.Call):
                fname = call.func.attr if isinstance(call.func, ast.Attribute) else (call.func.id if isinstance(call.func, ast.Name) else "?")
                return f".kwarg {_lstr(fname)} {_lstr(p.arg)}"
        if isinstance(n, ast.Set) and len(n.elts) == 1 and isinstance(n.elts[0], ast.Constant):
            return ".singletonDisplay"
        return ".none"

    def int_set(self, n: ast.AST) -> str:
        """element type of an iterated set, when its annotation resolves to ints (`Port` = Annotated[int, …])"""
        anns: List[str] = []
        inner = n.args[0] if isinstance(n, ast.Call) and isinstance(n.func, ast.Name) and n.func.id in SET_BUILDERS and len(n.args) == 1 else n
        if isinstance(inner, ast.Name):
            fn = self.T.enclosing_func(self.fi, n)
            while fn is not None and not anns:
                if not isinstance(fn, ast.Lambda):
                    for a in [*fn.args.posonlyargs, *fn.args.args, *fn.args.kwonlyargs]:
                        if a.arg == inner.id and a.annotation is not None:
                            anns.append(ast.unparse(a.annotation))
                fn = self.T.enclosing_func(self.fi, fn)
        elif isinstance(inner, ast.Attribute):
            anns = list(self.T.field_annotations().get(inner.attr, []))
        if isinstance(n, ast.Attribute) and self.T.never_written(n.attr):
            return ".neverWritten"
        if not anns:
            return ".none"
        leaves: Set[str] = set()
        for a in anns:
            leaves |= set(x for x in _re.split(r"[\[\],\s]+", a.replace("typing.", "")) if x) - {"Optional", "Union", "List", "Set", "list", "set", "FrozenSet", "frozenset", "None"}
        if leaves and leaves <= {"Port", "int"} and ("Port" not in leaves or self.T.port_is_int()):
            return f".intSet {_lstr(' '.join(sorted(leaves)))}"
        return ".none"


class Tree:
    """All files; global name tables; fixpoint over set-valued parameters."""

    def __init__(self):
        self.files: List[FileInfo] = []
        for f in sorted(SRC.rglob("*.py")):
            rel = str(f.relative_to(SRC))
            self.files.append(FileInfo(rel, ast.parse(f.read_text())))
        ID_KEYED.clear()
        for fi in self.files:
            _learn_id_keyed(fi.tree)
        self.set_attrs: Dict[str, str] = {}      # attribute / class-field name -> 'set' | 'cont'
        self.set_funcs: Set[str] = set()          # function names annotated -> Set[..]
        self.func_defs: Dict[str, List[Tuple[FileInfo, ast.FunctionDef]]] = {}
        self.set_params: Dict[Tuple[str, str, str], str] = {}  # (file, funcname, param) -> 'set' | 'cont'
        self.decls: List[Tuple[str, str, str]] = []  # (file, scope, detail)
        for fi in self.files:
            for n in ast.walk(fi.tree):
                if isinstance(n, (ast.FunctionDef, ast.AsyncFunctionDef)):
                    self.func_defs.setdefault(n.name, []).append((fi, n))
                    if _is_set_annotation(n.returns) == "set":
                        self.set_funcs.add(n.name)
        self._parents: Dict[str, Dict[int, ast.AST]] = {}
        self._closure: Optional[Set[str]] = None
        self._field_ann: Optional[Dict[str, List[str]]] = None

    def parents_of(self, fi: FileInfo) -> Dict[int, ast.AST]:
        if fi.rel not in self._parents:
            m: Dict[int, ast.AST] = {}
            for n in ast.walk(fi.tree):
                for ch in ast.iter_child_nodes(n):
                    m[id(ch)] = n
            self._parents[fi.rel] = m
        return self._parents[fi.rel]

    def enclosing_func(self, fi: FileInfo, node: ast.AST):
        par = self.parents_of(fi)
        p = par.get(id(node))
        while p is not None and not isinstance(p, (ast.FunctionDef, ast.AsyncFunctionDef, ast.Lambda)):
            p = par.get(id(p))
        return p

    def field_annotations(self) -> Dict[str, List[str]]:
        """class-field name -> the texts of all its annotations in the tree"""
        if self._field_ann is None:
            out: Dict[str, List[str]] = {}
            for fi in self.files:
                for c in ast.walk(fi.tree):
                    if isinstance(c, ast.ClassDef):
                        for st in c.body:
                            if isinstance(st, ast.AnnAssign) and isinstance(st.target, ast.Name):
                                out.setdefault(st.target.id, []).append(ast.unparse(st.annotation))
            self._field_ann = out
        return self._field_ann

    def never_written(self, attr: str) -> bool:
        """no assignment to an attribute of this name anywhere in the tree (other than its annotated class-field declaration with a
        default), and no mutator method called on it"""
        for fi in self.files:
            for n in ast.walk(fi.tree):
                if isinstance(n, ast.Attribute) and n.attr == attr and isinstance(n.ctx, (ast.Store, ast.Del)):
                    return False
                if (isinstance(n, ast.Call) and isinstance(n.func, ast.Attribute) and n.func.attr in (SET_MUTATORS - {"issubset", "issuperset", "isdisjoint"}) | {"pop"}
                        and isinstance(n.func.value, ast.Attribute) and n.func.value.attr == attr):
                    return False
                if isinstance(n, ast.keyword) and n.arg == attr:
                    return False
        return True

    def port_is_int(self) -> bool:
        """`Port` is declared as `Annotated[int, …]` in utils/validation/port.py"""
        for fi in self.files:
            if fi.rel == "utils/validation/port.py":
                for st in fi.tree.body:
                    tgt = st.target if isinstance(st, ast.AnnAssign) else (st.targets[0] if isinstance(st, ast.Assign) else None)
                    if isinstance(tgt, ast.Name) and tgt.id == "Port" and st.value is not None:
                        return ast.unparse(st.value).replace(" ", "").startswith("Annotated[int,")
        return False

    def runtime_closure(self) -> Set[str]:
        """files (relative to src/primaite) imported, transitively, from the runtime entry points RUNTIME_ROOTS; importing a
        module imports the `__init__.py` of every package on its path"""
        if self._closure is not None:
            return self._closure
        by_rel = {fi.rel: fi for fi in self.files}

        def mod_files(dotted: str) -> List[str]:
            """primaite.a.b(.name) -> the files that importing it executes"""
            parts = dotted.split(".")
            if parts[0] != "primaite":
                return []
            parts = parts[1:]
            out = ["__init__.py"]
            for i in range(1, len(parts) + 1):
                pkg = "/".join(parts[:i]) + "/__init__.py"
                mod = "/".join(parts[:i]) + ".py"
                if pkg in by_rel:
                    out.append(pkg)
                elif mod in by_rel:
                    out.append(mod)
                    break
                else:
                    break
            return out

        seen: Set[str] = set()
        todo = [r for r in RUNTIME_ROOTS if r in by_rel] + ["__init__.py"]
        while todo:
            rel = todo.pop()
            if rel in seen:
                continue
            seen.add(rel)
            fi = by_rel[rel]
            pkg_parts = rel.split("/")[:-1]
            for n in ast.walk(fi.tree):
                names: List[str] = []
                if isinstance(n, ast.Import):
                    names = [a.name for a in n.names]
                elif isinstance(n, ast.ImportFrom):
                    base = n.module or ""
                    if n.level:
                        up = pkg_parts[:len(pkg_parts) - (n.level - 1)] if n.level > 1 else pkg_parts
                        base = ".".join(["primaite", *up] + ([n.module] if n.module else []))
                    names = [base] + [f"{base}.{a.name}" for a in n.names]
                for nm in names:
                    for f in mod_files(nm):
                        if f not in seen:
                            todo.append(f)
        self._closure = seen
        return seen


def _scopes(tree: ast.Module):
    """yield (qualname, node, body_owner) for the module and every function; class bodies belong to their own scope."""
    out = []

    def rec(node, prefix):
        for ch in ast.iter_child_nodes(node):
            if isinstance(ch, (ast.FunctionDef, ast.AsyncFunctionDef)):
                q = f"{prefix}.{ch.name}" if prefix else ch.name
                out.append((q, ch))
                rec(ch, q)
            elif isinstance(ch, ast.ClassDef):
                q = f"{prefix}.{ch.name}" if prefix else ch.name
                out.append((q, ch))
                rec(ch, q)
            else:
                rec(ch, prefix)
    out.append(("<module>", tree))
    rec(tree, "")
    return out


def _own_nodes(scope_node: ast.AST):
    """Nodes belonging to this scope, not descending into nested function / class definitions."""
    stack = list(ast.iter_child_nodes(scope_node))
    while stack:
        n = stack.pop()
        yield n
        if isinstance(n, (ast.FunctionDef, ast.AsyncFunctionDef, ast.ClassDef)):
            continue
        stack.extend(ast.iter_child_nodes(n))


class ScopeAnalysis:
    def __init__(self, T: Tree, fi: FileInfo, qual: str, node: ast.AST, inherited: Dict[str, str]):
        self.T, self.fi, self.qual, self.node = T, fi, qual, node
        self.locals: Dict[str, str] = dict(inherited)  # closures see the enclosing function's set-valued locals
        if isinstance(node, (ast.FunctionDef, ast.AsyncFunctionDef)):
            args = node.args
            for a in [*args.posonlyargs, *args.args, *args.kwonlyargs]:
                k = _is_set_annotation(a.annotation) or T.set_params.get((fi.rel, node.name, a.arg))
                if k:
                    self.locals[a.arg] = k

    # -- classification of expressions
    def kind_of(self, e: ast.AST) -> Optional[str]:
        T = self.T
        if isinstance(e, (ast.Set, ast.SetComp)):
            return "set"
        if isinstance(e, ast.Call):
            f = e.func
            if isinstance(f, ast.Name) and f.id in SET_BUILDERS:
                return "set"
            name = f.attr if isinstance(f, ast.Attribute) else (f.id if isinstance(f, ast.Name) else None)
            if name in T.set_funcs:
                return "set"
            if isinstance(f, ast.Attribute):
                if f.attr in SET_ALGEBRA and self.kind_of(f.value) == "set":
                    return "set"
                if f.attr in ("get", "pop", "setdefault") and self.kind_of(f.value) == "cont":
                    return "set"
            return None
        if isinstance(e, ast.BinOp) and isinstance(e.op, (ast.Sub, ast.BitAnd, ast.BitOr, ast.BitXor)):
            for side in (e.left, e.right):
                if self.kind_of(side) == "set" or self._is_keys_view(side):
                    return "set"
            return None
        if isinstance(e, ast.Subscript) and self.kind_of(e.value) == "cont":
            return "set"
        if isinstance(e, ast.Name):
            return self.locals.get(e.id)
        if isinstance(e, ast.Attribute):
            return T.set_attrs.get(e.attr)
        if isinstance(e, ast.IfExp):
            return self.kind_of(e.body) or self.kind_of(e.orelse)
        return None

    @staticmethod
    def _is_keys_view(e: ast.AST) -> bool:
        return isinstance(e, ast.Call) and isinstance(e.func, ast.Attribute) and e.func.attr in ("keys", "items") and not e.args

    # -- pass 1: declarations (may add to global tables); returns True if something new was learnt
    def learn(self) -> bool:
        changed = False
        T = self.T

        def mark_target(t: ast.AST, k: str, why: str):
            nonlocal changed
            if isinstance(t, ast.Name):
                if isinstance(self.node, ast.ClassDef):
                    if T.set_attrs.get(t.id) != k:
                        T.set_attrs[t.id] = k
                        changed = True
                    T.decls.append((self.fi.rel, self.qual, f"{t.id} : {why}"))
                elif self.locals.get(t.id) != k:
                    self.locals[t.id] = k
                    changed = True
            elif isinstance(t, ast.Attribute):
                if T.set_attrs.get(t.attr) != k:
                    T.set_attrs[t.attr] = k
                    changed = True
                T.decls.append((self.fi.rel, self.qual, f"{_txt(t)} : {why}"))
            elif isinstance(t, ast.Subscript):  # d[k] = set()  ->  d is a container of sets
                if k == "set":
                    mark_target(t.value, "cont", "container of " + why)

        for n in _own_nodes(self.node):
            if isinstance(n, ast.AnnAssign):
                k = _is_set_annotation(n.annotation) or (self.kind_of(n.value) if n.value is not None else None)
                if k:
                    mark_target(n.target, k, _txt(n.annotation, 40))
            elif isinstance(n, ast.Assign):
                k = self.kind_of(n.value)
                if k:
                    for t in n.targets:
                        mark_target(t, k, _txt(n.value, 40))
            elif isinstance(n, (ast.For, ast.comprehension)):
                # for x in cont.values(): x is a set ; for k, x in cont.items(): x is a set
                it = n.iter
                if isinstance(it, ast.Call) and isinstance(it.func, ast.Attribute) and self.kind_of(it.func.value) == "cont":
                    if it.func.attr == "values" and isinstance(n.target, ast.Name):
                        if self.locals.get(n.target.id) != "set":
                            self.locals[n.target.id] = "set"
                            changed = True
                    if it.func.attr == "items" and isinstance(n.target, ast.Tuple) and len(n.target.elts) == 2 and isinstance(n.target.elts[1], ast.Name):
                        if self.locals.get(n.target.elts[1].id) != "set":
                            self.locals[n.target.elts[1].id] = "set"
                            changed = True
            elif isinstance(n, ast.Call):
                # propagate set-valued arguments into a callee that is defined exactly once in the tree
                name = n.func.attr if isinstance(n.func, ast.Attribute) else (n.func.id if isinstance(n.func, ast.Name) else None)
                defs = T.func_defs.get(name or "", [])
                if len(defs) == 1:
                    dfi, d = defs[0]
                    params = [a.arg for a in [*d.args.posonlyargs, *d.args.args]]
                    if params and params[0] in ("self", "cls") and isinstance(n.func, ast.Attribute):
                        params = params[1:]
                    for i, a in enumerate(n.args):
                        k = self.kind_of(a)
                        if k and i < len(params) and T.set_params.get((dfi.rel, d.name, params[i])) != k:
                            T.set_params[(dfi.rel, d.name, params[i])] = k
                            changed = True
                    for kw in n.keywords:
                        k = self.kind_of(kw.value)
                        if k and kw.arg and T.set_params.get((dfi.rel, d.name, kw.arg)) != k:
                            T.set_params[(dfi.rel, d.name, kw.arg)] = k
                            changed = True
        return changed

    # -- pass 2: sites
    def sites(self) -> List[Tuple[str, str]]:
        out: List[Tuple[str, str]] = []
        fi, T = self.fi, self.T
        parents: Dict[int, ast.AST] = {}
        for n in _own_nodes(self.node):
            for ch in ast.iter_child_nodes(n):
                parents[id(ch)] = n
        for ch in ast.iter_child_nodes(self.node):
            parents[id(ch)] = self.node

        F = Facts(self, parents)
        for n in _own_nodes(self.node):
            if isinstance(n, (ast.Import, ast.ImportFrom)):
                mods = [a.name for a in n.names] if isinstance(n, ast.Import) else [n.module or ""]
                for m in mods:
                    if m.split(".")[0] in ("threading", "multiprocessing", "concurrent", "asyncio"):
                        out.append(("concurrency", "import " + m, ".none"))
            if isinstance(n, ast.Call):
                q = _resolve(fi, n.func) or ""
                short = _txt(n)
                if q in ("uuid.uuid4", "uuid.uuid1"):
                    out.append(("uuid", short, ".none"))
                elif q.startswith("secrets."):
                    out.append(("secrets", short, F.secret(n, q)))
                elif q in ("datetime.datetime.now", "datetime.datetime.utcnow", "datetime.datetime.today", "datetime.date.today"):
                    out.append(("clock", short, F.reading(n)))
                elif q.startswith("time.") and q.count(".") == 1:
                    out.append(("timeMod", short, F.reading(n)))
                elif q in ("os.urandom", "os.getpid", "random.SystemRandom"):
                    out.append(("urandom", short, ".none"))
                elif q.startswith("numpy.random.") or q == "numpy.random":
                    out.append(("npRandom", short, F.draw(n, q)))
                elif q.startswith("random.") and q.count(".") == 1:
                    out.append(("pyRandom", short, F.draw(n, q)))
                elif q.startswith("torch.") and q.split(".")[-1] in TORCH_RANDOM:
                    out.append(("torchRandom", short, F.draw(n, q)))
                elif q in ("os.listdir", "os.walk", "os.scandir", "glob.glob", "glob.iglob") or (
                        isinstance(n.func, ast.Attribute) and n.func.attr in ("iterdir", "rglob", "glob")):
                    out.append(("fsOrder", short, F.offline()))
                elif isinstance(n.func, ast.Name) and n.func.id == "id" and len(n.args) == 1:
                    out.append(("idBuiltin", short, ".none"))
                elif isinstance(n.func, ast.Name) and n.func.id == "hash" and len(n.args) == 1:
                    out.append(("hashBuiltin", short, F.hash_fact(n)))
                elif isinstance(n.func, ast.Attribute) and _dotted(n.func.value) and _dotted(n.func.value).split(".")[-1] == "rng":
                    out.append(("rngMethod", short, F.draw(n, "rng." + n.func.attr)))
                elif isinstance(n.func, ast.Attribute) and n.func.attr == "sample" and _is_space_expr(n.func.value):
                    out.append(("spaceSample", short, F.draw(n, "space.sample")))
                # ordering / text uses of identifiers
                fname = n.func.id if isinstance(n.func, ast.Name) else (n.func.attr if isinstance(n.func, ast.Attribute) else "")
                if fname in ("sorted", "min", "max", "sort", "nsmallest", "nlargest"):
                    STATS["ordering-calls"] = STATS.get("ordering-calls", 0) + 1
                    if _mentions_identifier(n):
                        out.append(("idOrder", short, ".none"))
                if fname in ("int", "len", "ord", "float") and isinstance(n.func, ast.Name) and n.args and _is_identifier_expr(n.args[0]):
                    out.append(("idText", short, ".none"))
                if isinstance(n.func, ast.Attribute) and n.func.attr in STR_METHODS and _is_identifier_expr(n.func.value):
                    out.append(("idText", short, F.eq_only(n)))
            if isinstance(n, ast.Attribute) and n.attr == "np_random":
                out.append(("spaceSample", _txt(n), f".draw .space {_lb(F.at_call(n))} false"))
            if isinstance(n, ast.Compare) and any(isinstance(o, (ast.Lt, ast.LtE, ast.Gt, ast.GtE)) for o in n.ops):
                if any(_is_identifier_expr(x) for x in [n.left, *n.comparators]):
                    out.append(("idOrder", _txt(n), ".none"))
            if isinstance(n, ast.Subscript) and _is_identifier_expr(n.value):
                out.append(("idText", _txt(n), F.eq_only(n)))
            # set-valued expression occurrences
            if isinstance(n, ast.expr) and self.kind_of(n) in ("set", "cont"):
                k = self.kind_of(n)
                p = parents.get(id(n))
                use = self._use(n, p, parents)
                STATS[use[0]] = STATS.get(use[0], 0) + 1
                if use[0] == "iter" and k == "set":
                    # `sorted(<set>)`: the consumer is the built-in sort, whatever the set (fact `sortedConsumer`)
                    out.append(("setIter", f"{use[1]} <- {_txt(n, 70)}", ".sortedConsumer" if use[1] == "sorted" else F.int_set(n)))
                elif use[0] == "escape":
                    out.append(("setEscape", f"{use[1]} <- {_txt(n, 70)}", F.escape(n, p, parents)))
        return out

    def _use(self, n: ast.AST, p: Optional[ast.AST], parents) -> Tuple[str, str]:
        T = self.T
        if p is None:
            return ("other", "")
        if isinstance(p, (ast.For, ast.AsyncFor)) and p.iter is n:
            return ("iter", "for")
        if isinstance(p, ast.comprehension) and p.iter is n:
            owner = parents.get(id(p))
            into = {ast.SetComp: "setcomp", ast.ListComp: "listcomp", ast.DictComp: "dictcomp", ast.GeneratorExp: "genexp"}.get(type(owner), "comp")
            return ("iter", into)
        if isinstance(p, ast.Starred):
            return ("iter", "star")
        if isinstance(p, ast.Compare):
            if n in p.comparators and all(isinstance(o, (ast.In, ast.NotIn)) for o in p.ops):
                return ("member", "")
            return ("compare", "")
        if isinstance(p, ast.Attribute) and p.value is n:
            gp = parents.get(id(p))
            if isinstance(gp, ast.Call) and gp.func is p:
                if p.attr == "pop" and self.kind_of(n) == "set":
                    return ("iter", "pop")
                if p.attr in SET_MUTATORS or p.attr in SET_ALGEBRA:
                    return ("mutate", p.attr)
                if p.attr in ("get", "setdefault", "items", "values", "keys", "pop"):
                    return ("container-access", p.attr)
            return ("attr", p.attr)
        if isinstance(p, ast.Call) and (n in p.args or any(k.value is n for k in p.keywords)):
            f = p.func
            name = f.attr if isinstance(f, ast.Attribute) else (f.id if isinstance(f, ast.Name) else "?")
            if name in SET_BUILDERS or name in ORDER_FREE:
                return ("order-free", name)
            if name in ITER_CONSUMERS:
                return ("iter", name)
            if isinstance(f, ast.Attribute) and f.attr in SET_MUTATORS | SET_ALGEBRA:
                return ("order-free", f.attr)
            defs = T.func_defs.get(name, [])
            if len(defs) == 1:
                return ("propagated", name)  # analysed inside the callee through set_params
            return ("escape", "call " + name)
        if isinstance(p, ast.Return):
            if isinstance(self.node, (ast.FunctionDef, ast.AsyncFunctionDef)) and self.node.name in T.set_funcs:
                return ("return-annotated", "")
            return ("escape", "return")
        if isinstance(p, (ast.Assign, ast.AnnAssign, ast.AugAssign)):
            return ("store", "")
        if isinstance(p, ast.Subscript) and p.value is n:
            return ("container-access", "[]")
        if isinstance(p, (ast.If, ast.While, ast.BoolOp, ast.UnaryOp, ast.IfExp)):
            return ("truth", "")
        if isinstance(p, ast.BinOp):
            return ("algebra", "")
        if isinstance(p, ast.keyword):
            gp = parents.get(id(p))
            if isinstance(gp, ast.Call):
                return self._use_kw(gp)
        if isinstance(p, (ast.Dict, ast.List, ast.Tuple)):
            return ("stored-in-literal", "")
        if isinstance(p, (ast.FormattedValue, ast.JoinedStr)):
            return ("escape", "format")
        return ("other", type(p).__name__)

    def _use_kw(self, call: ast.Call) -> Tuple[str, str]:
        f = call.func
        name = f.attr if isinstance(f, ast.Attribute) else (f.id if isinstance(f, ast.Name) else "?")
        if name == "Field":
            return ("store", "")
        if len(self.T.func_defs.get(name, [])) == 1:
            return ("propagated", name)
        return ("escape", "call " + name)


_MEMO: Dict[str, object] = {}


def collect_with_facts() -> List[Tuple[str, str, str, str, int, str]]:
    """[(file, scope, kind, detail, occ, fact)] sorted by the first five (memoised on the modification times of the tree: one run of
    a check calls it twice)."""
    key = repr(sorted((str(f), f.stat().st_mtime_ns) for f in SRC.rglob("*.py")))
    if _MEMO.get("key") == key:
        STATS.clear()
        STATS.update(_MEMO["stats"])
        return list(_MEMO["rows"])
    rows = _collect_with_facts()
    _MEMO.update(key=key, rows=list(rows), stats=dict(STATS))
    return rows


def _collect_with_facts() -> List[Tuple[str, str, str, str, int, str]]:
    STATS.clear()
    T = Tree()
    analyses: List[ScopeAnalysis] = []

    def build():
        analyses.clear()
        for fi in T.files:
            scopes = _scopes(fi.tree)
            by_qual: Dict[str, ScopeAnalysis] = {}
            for qual, node in scopes:
                parent_q = qual.rsplit(".", 1)[0] if "." in qual else None
                inherited = {}
                if parent_q and parent_q in by_qual and isinstance(by_qual[parent_q].node, (ast.FunctionDef, ast.AsyncFunctionDef)):
                    inherited = by_qual[parent_q].locals
                sa = ScopeAnalysis(T, fi, qual, node, inherited)
                by_qual[qual] = sa
                analyses.append(sa)

    for _round in range(8):
        T.decls.clear()
        build()
        before = (dict(T.set_attrs), dict(T.set_params))
        for sa in analyses:
            for _ in range(4):  # a scope's own fixpoint (locals assigned later in the body)
                if not sa.learn():
                    break
        if before == (T.set_attrs, T.set_params):
            break
    else:
        raise ValueError("set-valued name propagation did not reach a fixpoint")
    T.decls.clear()
    build()
    for sa in analyses:
        sa.learn()
    raw: List[Tuple[str, str, str, str, str]] = []
    decl_names: Dict[Tuple[str, str, str, str], Tuple[str, Optional[str], Optional[str]]] = {}  # site -> (name, file or None, function or None)
    for f, scope, detail in sorted(set(T.decls)):
        raw.append((f, scope, "setDecl", detail, "?decl"))
        nm = detail.split(" : ")[0].split(".")[-1].strip()
        decl_names[(f, scope, "setDecl", detail)] = (nm, None, None)          # an attribute / class field: tree-wide by name
    for (f, fn, param), k in sorted(T.set_params.items()):
        detail = f"parameter {param} receives a {'set' if k == 'set' else 'container of sets'}"
        raw.append((f, fn, "setDecl", detail, "?decl"))
        decl_names[(f, fn, "setDecl", detail)] = (param, f, fn)                # a parameter: inside that function of that file
    for sa in analyses:
        for kind, detail, fact in sa.sites():
            raw.append((sa.fi.rel, sa.qual, kind, detail, fact))
    raw.sort(key=lambda r: r[:4])
    out: List[Tuple[str, str, str, str, int, str]] = []
    seen: Dict[Tuple[str, str, str, str], int] = {}
    for r in raw:
        k = seen.get(r[:4], 0)
        seen[r[:4]] = k + 1
        out.append((*r[:4], k, r[4]))
    # the uses (iterations / escapes) of every declared set name, as indices into the final list
    for i, r in enumerate(out):
        if r[5] != "?decl":
            continue
        nm, f, fn = decl_names[r[:4]]
        rx = _re.compile(r"(?<![\w])" + _re.escape(nm) + r"(?![\w])")
        uses = []
        for j, u in enumerate(out):
            if u[2] not in ("setIter", "setEscape"):
                continue
            expr = u[3].split(" <- ", 1)[-1]
            if not rx.search(expr):
                continue
            if f is not None and (u[0] != f or not (u[1] == fn or u[1].startswith(fn + ".") or ("." + fn + ".") in ("." + u[1] + "."))):
                continue
            uses.append(j)
        out[i] = (*r[:5], ".declUses [" + ", ".join(map(str, uses)) + "]")
    return out


def collect() -> List[Tuple[str, str, str, str, int]]:
    """[(file, scope, kind, detail, occ)] sorted."""
    return [r[:5] for r in collect_with_facts()]


def order_uses() -> List[Tuple[str, str, List[Tuple[str, str]]]]:
    """ORDER-VALUED results of a set iteration and everything that consumes them.

    A function with a set-iteration site (e.g. `topological_sort`: the neighbour sets of the reward-sharing graph) returns a value whose
    ORDER depends on the iteration order. The discharge of such a site is "the order is irrelevant FOR X" (every dependencies-first order
    computes the same rewards) - which is only true if X is the only consumer. Listed here: every attribute assigned from a call of such
    a function (`self._reward_calculation_order = topological_sort(graph)`), with ALL the functions that read it - directly, or through a
    helper that reads it and returns / yields (then the helper's callers, transitively). [(attribute, producing function, [(file, function)])]"""
    rows = collect_with_facts()
    producers = sorted({r[1].split(".")[0] for r in rows if r[2] == "setIter" and "." in r[1] and r[1].split(".")[0][:1].islower()}
                       | {r[1] for r in rows if r[2] == "setIter" and "." not in r[1]})
    trees = [(str(f.relative_to(SRC)), ast.parse(f.read_text())) for f in sorted(SRC.rglob("*.py"))]

    def functions(tree):
        out = []

        def rec(node, prefix):
            for ch in ast.iter_child_nodes(node):
                if isinstance(ch, (ast.FunctionDef, ast.AsyncFunctionDef, ast.ClassDef)):
                    q = f"{prefix}.{ch.name}" if prefix else ch.name
                    if not isinstance(ch, ast.ClassDef):
                        out.append((q, ch))
                    rec(ch, q)
                else:
                    rec(ch, prefix)
        rec(tree, "")
        return out
    funcs = [(rel, q, fn) for rel, tree in trees for q, fn in functions(tree)]
    attrs: List[Tuple[str, str]] = []
    for rel, tree in trees:
        for n in ast.walk(tree):
            if isinstance(n, ast.Assign) and isinstance(n.value, ast.Call):
                f = n.value.func
                name = f.attr if isinstance(f, ast.Attribute) else (f.id if isinstance(f, ast.Name) else None)
                if name in producers:
                    for t in n.targets:
                        if isinstance(t, ast.Attribute):
                            attrs.append((t.attr, name))
    out = []
    for attr, prod in sorted(set(attrs)):
        users = {(rel, q) for rel, q, fn in funcs
                 if any(isinstance(m, ast.Attribute) and m.attr == attr and isinstance(m.ctx, ast.Load) for m in ast.walk(fn))}
        # a reader that returns / yields hands the order on: its callers consume it too
        frontier = set(users)
        for _ in range(6):
            helpers = {q.split(".")[-1] for rel, q in frontier for rel2, q2, fn in funcs if (rel2, q2) == (rel, q)
                       and any(isinstance(m, (ast.Yield, ast.YieldFrom)) or (isinstance(m, ast.Return) and m.value is not None) for m in ast.walk(fn))}
            new = {(rel, q) for rel, q, fn in funcs for m in ast.walk(fn) if isinstance(m, ast.Call)
                   and (m.func.attr if isinstance(m.func, ast.Attribute) else (m.func.id if isinstance(m.func, ast.Name) else None)) in helpers} - users
            if not new:
                break
            users |= new
            frontier = new
        out.append((attr, prod, sorted(users)))
    return out


def datetime_fields() -> List[Tuple[str, str, str, bool]]:
    """(file, class, field, fixed-width serialiser?) for every annotated class field whose annotation mentions `datetime`.
    Serialiser = a method decorated `@field_serializer(..., <field>, ...)` whose every `return` of a non-None value is
    `<x>.isoformat(timespec='microseconds')`."""
    out = []
    for f in sorted(SRC.rglob("*.py")):
        rel = str(f.relative_to(SRC))
        tree = ast.parse(f.read_text())
        for c in ast.walk(tree):
            if not isinstance(c, ast.ClassDef):
                continue
            ok_fields: Set[str] = set()
            for m in c.body:
                if not isinstance(m, ast.FunctionDef):
                    continue
                for dec in m.decorator_list:
                    if isinstance(dec, ast.Call) and ast.unparse(dec.func).split(".")[-1] == "field_serializer":
                        names = [a.value for a in dec.args if isinstance(a, ast.Constant) and isinstance(a.value, str)]
                        rets = [r.value for r in ast.walk(m) if isinstance(r, ast.Return) and r.value is not None]
                        good = bool(rets)
                        for r in rets:
                            vals = [r.body, r.orelse] if isinstance(r, ast.IfExp) else [r]
                            for v in vals:
                                if isinstance(v, ast.Constant) and v.value is None:
                                    continue
                                txt = ast.unparse(v).replace('"', "'").replace(" ", "")
                                if not txt.endswith(".isoformat(timespec='microseconds')"):
                                    good = False
                        if good:
                            ok_fields.update(names)
            for st in c.body:
                if isinstance(st, ast.AnnAssign) and isinstance(st.target, ast.Name) and "datetime" in ast.unparse(st.annotation):
                    out.append((rel, c.name, st.target.id, st.target.id in ok_fields))
    return out


def stats() -> Dict[str, int]:
    return dict(STATS)


def lean_site(s) -> str:
    f, scope, kind, detail, occ = s
    return f'⟨"{f}", "{scope}", .{kind}, "{detail}", {occ}⟩'


def emit() -> str:
    rows = collect_with_facts()
    if not rows:
        raise ValueError("empty inventory")
    L = ["namespace Primaite.Gen.Nondet",
         "/-- what kind of run-to-run variation a site could introduce -/",
         "inductive Kind\n  | " + " | ".join(KINDS) + "\n  deriving DecidableEq, Repr",
         "structure Site where\n  file : String\n  scope : String\n  kind : Kind\n  detail : String\n  occ : Nat\n  deriving DecidableEq, Repr",
         "/-- generator family of a draw: python `random`, numpy's global generator, torch, a Generator derived from a numpy draw,\n"
         "a generator seeded from OS entropy, gymnasium's per-space generator -/",
         "inductive Fam\n  | " + " | ".join(FAMS) + "\n  deriving DecidableEq, Repr",
         "/-- what the extractor established mechanically about a site -/",
         "inductive Fact\n"
         "  | none\n"
         "  /-- a draw from family `fam`; `atCall` = evaluated inside a function/lambda body (not at import); `guarded` = inside `if generate_seed_value:` -/\n"
         "  | draw (fam : Fam) (atCall : Bool) (guarded : Bool)\n"
         "  /-- a seeding call of family `fam` with the given argument text -/\n"
         "  | seedCall (fam : Fam) (arg : String) (atCall : Bool)\n"
         "  /-- `getstate` / `setstate` of a process-wide generator (`restore` = the state is put back); `inWrapper` = inside the decorator\n"
         "  `own_generator_state` of session/environment.py -/\n"
         "  | stateAccess (fam : Fam) (restore : Bool) (atCall : Bool) (inWrapper : Bool)\n"
         "  /-- `secrets.token_urlsafe(n)` with a constant `n` -/\n"
         "  | constSecret (nbytes : Nat)\n"
         "  /-- every place the reading's value flows to (syntactic forward data-flow): path / show / log -/\n"
         "  | sinks (l : List String)\n"
         "  /-- the reading goes elsewhere: the attribute / constructor-keyword names it is stored under -/\n"
         "  | storedIn (fields : List String)\n"
         "  /-- `lo + secrets.randbelow(k)`: the value lies in lo..hi -/\n"
         "  | boundedSecret (lo hi : Nat)\n"
         "  /-- the set display is the keyword argument `kw` of a call of `callee` -/\n"
         "  | kwarg (callee : String) (kw : String)\n"
         "  | singletonDisplay\n"
         "  /-- the expression is the literal `set()` -/\n"
         "  | emptySetLiteral\n"
         "  /-- the set is the argument of the built-in `sorted()` -/\n"
         "  | sortedConsumer\n"
         "  /-- the text derived from the identifier is only an operand of `==` / `!=` / `in` -/\n"
         "  | cmpEqOnly\n"
         "  /-- the module is not in the import closure of session/environment.py, session/ray_envs.py, game/game.py -/\n"
         "  | offlineModule\n"
         "  /-- a declared set name: the indices (into `sites`) of all its iterations / escapes -/\n"
         "  | declUses (idx : List Nat)\n"
         "  /-- an iterated set whose element annotation resolves to ints only -/\n"
         "  | intSet (leaves : String)\n"
         "  /-- the iterated attribute is never assigned, mutated or passed as a constructor keyword anywhere in the tree -/\n"
         "  | neverWritten\n"
         "  /-- `return hash(<arg>)` as the body of a `__hash__` method -/\n"
         "  | hashDunder (arg : String)\n"
         "  /-- the call is an expression STATEMENT: its value is discarded -/\n"
         "  | valueDiscarded\n"
         "  deriving DecidableEq, Repr",
         f"/-- {len(rows)} sites, sorted by (file, scope, kind, detail, occurrence) -/",
         "def sites : List Site := [\n  " + ",\n  ".join(lean_site(r[:5]) for r in rows) + "]",
         "/-- one fact per site, same order -/",
         "def facts : List Fact := [\n  " + ",\n  ".join(r[5] for r in rows) + "]",
         "/-- order-valued results of a set iteration: (attribute, producing function, every function that reads it - directly or through a\n"
         "helper that returns / yields it) -/",
         "def orderUses : List (String × String × List (String × String)) := [\n  " + ",\n  ".join(
             f"({_lstr(a)}, {_lstr(p)}, [" + ", ".join(f"({_lstr(x)}, {_lstr(y)})" for x, y in us) + "])" for a, p, us in order_uses()) + "]",
         "/-- every class field whose annotation mentions `datetime`: (file, class, field, has a JSON serialiser returning\n"
         "`isoformat(timespec='microseconds')`, i.e. a text of constant width) -/",
         "def datetimeFields : List (String × String × String × Bool) := [\n  " + ",\n  ".join(
             f"({_lstr(a)}, {_lstr(b)}, {_lstr(c)}, {_lb(d)})" for a, b, c, d in datetime_fields()) + "]",
         "end Primaite.Gen.Nondet"]
    return "\n".join(L) + "\n"


# ------------------------------------------------------------------------------------------------ maintainer's helper
def skeleton() -> str:
    """Print the committed discharge table's entries for the CURRENT tree with `.todo` discharges, to be merged by hand into
    lean/PrimaiteModel/Lemmas/NondetDischarge.lean (python -m harness.extract.nondet --skeleton)."""
    return ",\n".join(f"  ({lean_site(s)}, .todo)" for s in collect())


if __name__ == "__main__":
    import sys
    if "--skeleton" in sys.argv:
        print(skeleton())
    else:
        for s_ in collect_with_facts():
            print(s_)
        print(stats(), file=sys.stderr)
