"""E10a: the NONDETERMINISM INVENTORY of the whole source tree, as a Lean table (Gen/Nondet.lean).  Pure ast.

Listed (every occurrence, in every .py file under src/primaite):

  uuid         uuid.uuid1/uuid4 calls                         secrets      secrets.* calls
  clock        datetime.now/utcnow/today, date.today          timeMod      time.* calls
  idBuiltin    id(...)                                        hashBuiltin  hash(...)
  urandom      os.urandom / os.getpid / random.SystemRandom   pyRandom     random.* calls (module `random` or names imported from it)
  npRandom     numpy.random.* calls                           rngMethod    method calls on an attribute/variable called `rng`
  fsOrder      os.listdir / os.walk / os.scandir / glob / iterdir / rglob (directory order)
  concurrency  imports of threading / multiprocessing / concurrent / asyncio
  setDecl      a name declared set-valued: annotation Set[..]/set[..]/set/FrozenSet, or assignment of a set-valued expression
               to an attribute / class field (locals are tracked but not listed)
  setIter      an ITERATION of a set-valued expression: for-loop, comprehension, list()/tuple()/sorted()/enumerate()/iter()/next()/
               min()/max()/sum()/any()/all()/zip()/map()/filter()/join()/chain()/dict.fromkeys()/Starred/.pop(); detail = consumer + expr
  setEscape    a set-valued expression (or a container of sets) passed to a call whose callee is not resolved inside the tree, or
               returned from a function without a Set return annotation

"Set-valued" is decided syntactically and by NAME: set()/frozenset() calls, set displays, set comprehensions, set algebra
(.union/.intersection/.difference/.symmetric_difference/.copy on a set, `|&-^` with a set or keys-view operand), calls of
functions annotated `-> Set[..]`, and any Name/Attribute whose (terminal) name was declared set-valued (attributes and
functions: tree-wide; locals and parameters: per function).  Containers of sets (`d[k] = set()`, Dict[.., Set[..]]) are
tracked one level: `d[k]`, `d.get(k, ..)`, and the elements of `d.values()` are set-valued.  Set-valued arguments are
propagated into callees that are defined exactly once in the tree (fixpoint), so the iteration inside
`science.topological_sort(graph)` of the reward-sharing graph built in game.py IS listed.

A site is identified by (file, enclosing qualified scope, kind, detail text, occurrence index) - no line numbers, so
that unrelated edits do not move it; a new, removed, renamed or moved site changes the table and with it the obligation
`C03_inventory_discharged`.

Membership tests, len(), truthiness, add/remove/discard/update on sets do not observe the order and are not listed
(counted in `stats()` for the evidence).
"""
from __future__ import annotations

import ast
from typing import Dict, List, Optional, Set, Tuple

from harness.lib.core import SRC

GEN_NAME = "Nondet"

KINDS = ["uuid", "secrets", "clock", "timeMod", "idBuiltin", "hashBuiltin", "urandom", "pyRandom", "npRandom", "rngMethod",
         "fsOrder", "concurrency", "setDecl", "setIter", "setEscape"]

ITER_CONSUMERS = {"list", "tuple", "sorted", "enumerate", "iter", "next", "min", "max", "sum", "any", "all", "zip", "map",
                  "filter", "reversed", "chain", "from_iterable", "fromkeys", "join", "array", "asarray", "deque", "OrderedDict", "dict",
                  "extend"}
SET_BUILDERS = {"set", "frozenset"}  # building a set from a set does not observe the order
ORDER_FREE = {"len", "bool", "isinstance", "type", "print", "repr", "str", "id"}
SET_ALGEBRA = {"union", "intersection", "difference", "symmetric_difference", "copy"}
SET_MUTATORS = {"add", "remove", "discard", "update", "clear", "difference_update", "intersection_update", "issubset", "issuperset",
                "isdisjoint"}
STATS: Dict[str, int] = {}


def _is_set_annotation(a: Optional[ast.AST]) -> Optional[str]:
    """'set' if the annotation denotes a set, 'cont' if a mapping/sequence whose values are sets."""
    if a is None:
        return None
    txt = ast.unparse(a)
    if isinstance(a, ast.Constant) and isinstance(a.value, str):
        txt = a.value
    t = txt.replace("typing.", "").replace(" ", "")
    for p in ("Optional[", "Final[", "ClassVar["):
        if t.startswith(p) and t.endswith("]"):
            t = t[len(p):-1]
    if t in ("set", "Set", "frozenset", "FrozenSet", "AbstractSet", "MutableSet") or t.startswith(("Set[", "set[", "FrozenSet[", "frozenset[", "AbstractSet[", "MutableSet[")):
        return "set"
    if t.startswith(("Dict[", "dict[", "Mapping[", "List[", "list[", "DefaultDict[", "defaultdict[")) and ("Set[" in t or "set[" in t):
        return "cont"
    return None


class FileInfo:
    def __init__(self, rel: str, tree: ast.Module):
        self.rel = rel
        self.tree = tree
        self.mod_alias: Dict[str, str] = {}    # local name -> module ("random", "numpy", "numpy.random", "secrets", ...)
        self.from_names: Dict[str, str] = {}   # local name -> "module.name"
        for n in ast.walk(tree):
            if isinstance(n, ast.Import):
                for a in n.names:
                    self.mod_alias[a.asname or a.name.split(".")[0]] = a.name if a.asname else a.name.split(".")[0]
            elif isinstance(n, ast.ImportFrom) and n.module:
                for a in n.names:
                    self.from_names[a.asname or a.name] = f"{n.module}.{a.name}"


def _dotted(e: ast.AST) -> Optional[str]:
    parts = []
    while isinstance(e, ast.Attribute):
        parts.append(e.attr)
        e = e.value
    if isinstance(e, ast.Name):
        parts.append(e.id)
        return ".".join(reversed(parts))
    return None


def _resolve(fi: FileInfo, func: ast.AST) -> Optional[str]:
    """Fully qualified dotted name of a call target as far as imports tell."""
    d = _dotted(func)
    if d is None:
        return None
    head, _, rest = d.partition(".")
    if head in fi.from_names:
        base = fi.from_names[head]
    elif head in fi.mod_alias:
        base = fi.mod_alias[head]
    else:
        return d
    return base + ("." + rest if rest else "")


def _txt(e: ast.AST, cap: int = 90) -> str:
    s = ast.unparse(e).replace("\n", " ").replace('"', "'").replace("\\", "/")
    s = " ".join(s.split())
    return s if len(s) <= cap else s[:cap - 3] + "..."


class Tree:
    """All files; global name tables; fixpoint over set-valued parameters."""

    def __init__(self):
        self.files: List[FileInfo] = []
        for f in sorted(SRC.rglob("*.py")):
            rel = str(f.relative_to(SRC))
            self.files.append(FileInfo(rel, ast.parse(f.read_text())))
        self.set_attrs: Dict[str, str] = {}      # attribute / class-field name -> 'set' | 'cont'
        self.set_funcs: Set[str] = set()          # function names annotated -> Set[..]
        self.func_defs: Dict[str, List[Tuple[FileInfo, ast.FunctionDef]]] = {}
        self.set_params: Dict[Tuple[str, str, str], str] = {}  # (file, funcname, param) -> 'set' | 'cont'
        self.decls: List[Tuple[str, str, str]] = []  # (file, scope, detail)
        for fi in self.files:
            for n in ast.walk(fi.tree):
                if isinstance(n, (ast.FunctionDef, ast.AsyncFunctionDef)):
                    self.func_defs.setdefault(n.name, []).append((fi, n))
                    if _is_set_annotation(n.returns) == "set":
                        self.set_funcs.add(n.name)


def _scopes(tree: ast.Module):
    """yield (qualname, node, body_owner) for the module and every function; class bodies belong to their own scope."""
    out = []

    def rec(node, prefix):
        for ch in ast.iter_child_nodes(node):
            if isinstance(ch, (ast.FunctionDef, ast.AsyncFunctionDef)):
                q = f"{prefix}.{ch.name}" if prefix else ch.name
                out.append((q, ch))
                rec(ch, q)
            elif isinstance(ch, ast.ClassDef):
                q = f"{prefix}.{ch.name}" if prefix else ch.name
                out.append((q, ch))
                rec(ch, q)
            else:
                rec(ch, prefix)
    out.append(("<module>", tree))
    rec(tree, "")
    return out


def _own_nodes(scope_node: ast.AST):
    """Nodes belonging to this scope, not descending into nested function / class definitions."""
    stack = list(ast.iter_child_nodes(scope_node))
    while stack:
        n = stack.pop()
        yield n
        if isinstance(n, (ast.FunctionDef, ast.AsyncFunctionDef, ast.ClassDef)):
            continue
        stack.extend(ast.iter_child_nodes(n))


class ScopeAnalysis:
    def __init__(self, T: Tree, fi: FileInfo, qual: str, node: ast.AST, inherited: Dict[str, str]):
        self.T, self.fi, self.qual, self.node = T, fi, qual, node
        self.locals: Dict[str, str] = dict(inherited)  # closures see the enclosing function's set-valued locals
        if isinstance(node, (ast.FunctionDef, ast.AsyncFunctionDef)):
            args = node.args
            for a in [*args.posonlyargs, *args.args, *args.kwonlyargs]:
                k = _is_set_annotation(a.annotation) or T.set_params.get((fi.rel, node.name, a.arg))
                if k:
                    self.locals[a.arg] = k

    # -- classification of expressions
    def kind_of(self, e: ast.AST) -> Optional[str]:
        T = self.T
        if isinstance(e, (ast.Set, ast.SetComp)):
            return "set"
        if isinstance(e, ast.Call):
            f = e.func
            if isinstance(f, ast.Name) and f.id in SET_BUILDERS:
                return "set"
            name = f.attr if isinstance(f, ast.Attribute) else (f.id if isinstance(f, ast.Name) else None)
            if name in T.set_funcs:
                return "set"
            if isinstance(f, ast.Attribute):
                if f.attr in SET_ALGEBRA and self.kind_of(f.value) == "set":
                    return "set"
                if f.attr in ("get", "pop", "setdefault") and self.kind_of(f.value) == "cont":
                    return "set"
            return None
        if isinstance(e, ast.BinOp) and isinstance(e.op, (ast.Sub, ast.BitAnd, ast.BitOr, ast.BitXor)):
            for side in (e.left, e.right):
                if self.kind_of(side) == "set" or self._is_keys_view(side):
                    return "set"
            return None
        if isinstance(e, ast.Subscript) and self.kind_of(e.value) == "cont":
            return "set"
        if isinstance(e, ast.Name):
            return self.locals.get(e.id)
        if isinstance(e, ast.Attribute):
            return T.set_attrs.get(e.attr)
        if isinstance(e, ast.IfExp):
            return self.kind_of(e.body) or self.kind_of(e.orelse)
        return None

    @staticmethod
    def _is_keys_view(e: ast.AST) -> bool:
        return isinstance(e, ast.Call) and isinstance(e.func, ast.Attribute) and e.func.attr in ("keys", "items") and not e.args

    # -- pass 1: declarations (may add to global tables); returns True if something new was learnt
    def learn(self) -> bool:
        changed = False
        T = self.T

        def mark_target(t: ast.AST, k: str, why: str):
            nonlocal changed
            if isinstance(t, ast.Name):
                if isinstance(self.node, ast.ClassDef):
                    if T.set_attrs.get(t.id) != k:
                        T.set_attrs[t.id] = k
                        changed = True
                    T.decls.append((self.fi.rel, self.qual, f"{t.id} : {why}"))
                elif self.locals.get(t.id) != k:
                    self.locals[t.id] = k
                    changed = True
            elif isinstance(t, ast.Attribute):
                if T.set_attrs.get(t.attr) != k:
                    T.set_attrs[t.attr] = k
                    changed = True
                T.decls.append((self.fi.rel, self.qual, f"{_txt(t)} : {why}"))
            elif isinstance(t, ast.Subscript):  # d[k] = set()  ->  d is a container of sets
                if k == "set":
                    mark_target(t.value, "cont", "container of " + why)

        for n in _own_nodes(self.node):
            if isinstance(n, ast.AnnAssign):
                k = _is_set_annotation(n.annotation) or (self.kind_of(n.value) if n.value is not None else None)
                if k:
                    mark_target(n.target, k, _txt(n.annotation, 40))
            elif isinstance(n, ast.Assign):
                k = self.kind_of(n.value)
                if k:
                    for t in n.targets:
                        mark_target(t, k, _txt(n.value, 40))
            elif isinstance(n, (ast.For, ast.comprehension)):
                # for x in cont.values(): x is a set ; for k, x in cont.items(): x is a set
                it = n.iter
                if isinstance(it, ast.Call) and isinstance(it.func, ast.Attribute) and self.kind_of(it.func.value) == "cont":
                    if it.func.attr == "values" and isinstance(n.target, ast.Name):
                        if self.locals.get(n.target.id) != "set":
                            self.locals[n.target.id] = "set"
                            changed = True
                    if it.func.attr == "items" and isinstance(n.target, ast.Tuple) and len(n.target.elts) == 2 and isinstance(n.target.elts[1], ast.Name):
                        if self.locals.get(n.target.elts[1].id) != "set":
                            self.locals[n.target.elts[1].id] = "set"
                            changed = True
            elif isinstance(n, ast.Call):
                # propagate set-valued arguments into a callee that is defined exactly once in the tree
                name = n.func.attr if isinstance(n.func, ast.Attribute) else (n.func.id if isinstance(n.func, ast.Name) else None)
                defs = T.func_defs.get(name or "", [])
                if len(defs) == 1:
                    dfi, d = defs[0]
                    params = [a.arg for a in [*d.args.posonlyargs, *d.args.args]]
                    if params and params[0] in ("self", "cls") and isinstance(n.func, ast.Attribute):
                        params = params[1:]
                    for i, a in enumerate(n.args):
                        k = self.kind_of(a)
                        if k and i < len(params) and T.set_params.get((dfi.rel, d.name, params[i])) != k:
                            T.set_params[(dfi.rel, d.name, params[i])] = k
                            changed = True
                    for kw in n.keywords:
                        k = self.kind_of(kw.value)
                        if k and kw.arg and T.set_params.get((dfi.rel, d.name, kw.arg)) != k:
                            T.set_params[(dfi.rel, d.name, kw.arg)] = k
                            changed = True
        return changed

    # -- pass 2: sites
    def sites(self) -> List[Tuple[str, str]]:
        out: List[Tuple[str, str]] = []
        fi, T = self.fi, self.T
        parents: Dict[int, ast.AST] = {}
        for n in _own_nodes(self.node):
            for ch in ast.iter_child_nodes(n):
                parents[id(ch)] = n
        for ch in ast.iter_child_nodes(self.node):
            parents[id(ch)] = self.node

        for n in _own_nodes(self.node):
            if isinstance(n, (ast.Import, ast.ImportFrom)):
                mods = [a.name for a in n.names] if isinstance(n, ast.Import) else [n.module or ""]
                for m in mods:
                    if m.split(".")[0] in ("threading", "multiprocessing", "concurrent", "asyncio"):
                        out.append(("concurrency", "import " + m))
            if isinstance(n, ast.Call):
                q = _resolve(fi, n.func) or ""
                short = _txt(n)
                if q in ("uuid.uuid4", "uuid.uuid1"):
                    out.append(("uuid", short))
                elif q.startswith("secrets."):
                    out.append(("secrets", short))
                elif q in ("datetime.datetime.now", "datetime.datetime.utcnow", "datetime.datetime.today", "datetime.date.today"):
                    out.append(("clock", short))
                elif q.startswith("time.") and q.count(".") == 1:
                    out.append(("timeMod", short))
                elif q in ("os.urandom", "os.getpid", "random.SystemRandom"):
                    out.append(("urandom", short))
                elif q.startswith("numpy.random.") or q == "numpy.random":
                    out.append(("npRandom", short))
                elif q.startswith("random.") and q.count(".") == 1:
                    out.append(("pyRandom", short))
                elif q in ("os.listdir", "os.walk", "os.scandir", "glob.glob", "glob.iglob") or (
                        isinstance(n.func, ast.Attribute) and n.func.attr in ("iterdir", "rglob", "glob")):
                    out.append(("fsOrder", short))
                elif isinstance(n.func, ast.Name) and n.func.id == "id" and len(n.args) == 1:
                    out.append(("idBuiltin", short))
                elif isinstance(n.func, ast.Name) and n.func.id == "hash" and len(n.args) == 1:
                    out.append(("hashBuiltin", short))
                elif isinstance(n.func, ast.Attribute) and _dotted(n.func.value) and _dotted(n.func.value).split(".")[-1] == "rng":
                    out.append(("rngMethod", short))
            # set-valued expression occurrences
            if isinstance(n, ast.expr) and self.kind_of(n) in ("set", "cont"):
                k = self.kind_of(n)
                p = parents.get(id(n))
                use = self._use(n, p, parents)
                STATS[use[0]] = STATS.get(use[0], 0) + 1
                if use[0] == "iter" and k == "set":
                    out.append(("setIter", f"{use[1]} <- {_txt(n, 70)}"))
                elif use[0] == "escape":
                    out.append(("setEscape", f"{use[1]} <- {_txt(n, 70)}"))
        return out

    def _use(self, n: ast.AST, p: Optional[ast.AST], parents) -> Tuple[str, str]:
        T = self.T
        if p is None:
            return ("other", "")
        if isinstance(p, (ast.For, ast.AsyncFor)) and p.iter is n:
            return ("iter", "for")
        if isinstance(p, ast.comprehension) and p.iter is n:
            owner = parents.get(id(p))
            into = {ast.SetComp: "setcomp", ast.ListComp: "listcomp", ast.DictComp: "dictcomp", ast.GeneratorExp: "genexp"}.get(type(owner), "comp")
            return ("iter", into)
        if isinstance(p, ast.Starred):
            return ("iter", "star")
        if isinstance(p, ast.Compare):
            if n in p.comparators and all(isinstance(o, (ast.In, ast.NotIn)) for o in p.ops):
                return ("member", "")
            return ("compare", "")
        if isinstance(p, ast.Attribute) and p.value is n:
            gp = parents.get(id(p))
            if isinstance(gp, ast.Call) and gp.func is p:
                if p.attr == "pop" and self.kind_of(n) == "set":
                    return ("iter", "pop")
                if p.attr in SET_MUTATORS or p.attr in SET_ALGEBRA:
                    return ("mutate", p.attr)
                if p.attr in ("get", "setdefault", "items", "values", "keys", "pop"):
                    return ("container-access", p.attr)
            return ("attr", p.attr)
        if isinstance(p, ast.Call) and (n in p.args or any(k.value is n for k in p.keywords)):
            f = p.func
            name = f.attr if isinstance(f, ast.Attribute) else (f.id if isinstance(f, ast.Name) else "?")
            if name in SET_BUILDERS or name in ORDER_FREE:
                return ("order-free", name)
            if name in ITER_CONSUMERS:
                return ("iter", name)
            if isinstance(f, ast.Attribute) and f.attr in SET_MUTATORS | SET_ALGEBRA:
                return ("order-free", f.attr)
            defs = T.func_defs.get(name, [])
            if len(defs) == 1:
                return ("propagated", name)  # analysed inside the callee through set_params
            return ("escape", "call " + name)
        if isinstance(p, ast.Return):
            if isinstance(self.node, (ast.FunctionDef, ast.AsyncFunctionDef)) and self.node.name in T.set_funcs:
                return ("return-annotated", "")
            return ("escape", "return")
        if isinstance(p, (ast.Assign, ast.AnnAssign, ast.AugAssign)):
            return ("store", "")
        if isinstance(p, ast.Subscript) and p.value is n:
            return ("container-access", "[]")
        if isinstance(p, (ast.If, ast.While, ast.BoolOp, ast.UnaryOp, ast.IfExp)):
            return ("truth", "")
        if isinstance(p, ast.BinOp):
            return ("algebra", "")
        if isinstance(p, ast.keyword):
            gp = parents.get(id(p))
            if isinstance(gp, ast.Call):
                return self._use_kw(gp)
        if isinstance(p, (ast.Dict, ast.List, ast.Tuple)):
            return ("stored-in-literal", "")
        if isinstance(p, (ast.FormattedValue, ast.JoinedStr)):
            return ("escape", "format")
        return ("other", type(p).__name__)

    def _use_kw(self, call: ast.Call) -> Tuple[str, str]:
        f = call.func
        name = f.attr if isinstance(f, ast.Attribute) else (f.id if isinstance(f, ast.Name) else "?")
        if name == "Field":
            return ("store", "")
        if len(self.T.func_defs.get(name, [])) == 1:
            return ("propagated", name)
        return ("escape", "call " + name)


def collect() -> List[Tuple[str, str, str, str, int]]:
    """[(file, scope, kind, detail, occ)] sorted."""
    STATS.clear()
    T = Tree()
    analyses: List[ScopeAnalysis] = []

    def build():
        analyses.clear()
        for fi in T.files:
            scopes = _scopes(fi.tree)
            by_qual: Dict[str, ScopeAnalysis] = {}
            for qual, node in scopes:
                parent_q = qual.rsplit(".", 1)[0] if "." in qual else None
                inherited = {}
                if parent_q and parent_q in by_qual and isinstance(by_qual[parent_q].node, (ast.FunctionDef, ast.AsyncFunctionDef)):
                    inherited = by_qual[parent_q].locals
                sa = ScopeAnalysis(T, fi, qual, node, inherited)
                by_qual[qual] = sa
                analyses.append(sa)

    for _round in range(8):
        T.decls.clear()
        build()
        before = (dict(T.set_attrs), dict(T.set_params))
        for sa in analyses:
            for _ in range(4):  # a scope's own fixpoint (locals assigned later in the body)
                if not sa.learn():
                    break
        if before == (T.set_attrs, T.set_params):
            break
    else:
        raise ValueError("set-valued name propagation did not reach a fixpoint")
    T.decls.clear()
    build()
    for sa in analyses:
        sa.learn()
    raw: List[Tuple[str, str, str, str]] = []
    for f, scope, detail in sorted(set(T.decls)):
        raw.append((f, scope, "setDecl", detail))
    for (f, fn, param), k in sorted(T.set_params.items()):
        raw.append((f, fn, "setDecl", f"parameter {param} receives a {'set' if k == 'set' else 'container of sets'}"))
    for sa in analyses:
        for kind, detail in sa.sites():
            raw.append((sa.fi.rel, sa.qual, kind, detail))
    raw.sort()
    out = []
    seen: Dict[Tuple[str, str, str, str], int] = {}
    for r in raw:
        k = seen.get(r, 0)
        seen[r] = k + 1
        out.append((*r, k))
    return out


def stats() -> Dict[str, int]:
    return dict(STATS)


def lean_site(s) -> str:
    f, scope, kind, detail, occ = s
    return f'⟨"{f}", "{scope}", .{kind}, "{detail}", {occ}⟩'


def emit() -> str:
    sites = collect()
    if not sites:
        raise ValueError("empty inventory")
    L = ["namespace Primaite.Gen.Nondet",
         "/-- what kind of run-to-run variation a site could introduce -/",
         "inductive Kind\n  | " + " | ".join(KINDS) + "\n  deriving DecidableEq, Repr",
         "structure Site where\n  file : String\n  scope : String\n  kind : Kind\n  detail : String\n  occ : Nat\n  deriving DecidableEq, Repr",
         f"/-- {len(sites)} sites, sorted by (file, scope, kind, detail, occurrence) -/",
         "def sites : List Site := [\n  " + ",\n  ".join(lean_site(s) for s in sites) + "]",
         "end Primaite.Gen.Nondet"]
    return "\n".join(L) + "\n"


# ------------------------------------------------------------------------------------------------ maintainer's helper
def skeleton() -> str:
    """Print the committed discharge table's entries for the CURRENT tree with `.todo` discharges, to be merged by hand into
    lean/PrimaiteModel/Lemmas/NondetDischarge.lean (python -m harness.extract.nondet --skeleton)."""
    return ",\n".join(f"  ({lean_site(s)}, .todo)" for s in collect())


if __name__ == "__main__":
    import sys
    if "--skeleton" in sys.argv:
        print(skeleton())
    else:
        for s_ in collect():
            print(s_)
        print(stats(), file=sys.stderr)
