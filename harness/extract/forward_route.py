"""C08 — the router's forwarding step, TRANSLATED statement by statement into programs (Gen/ForwardRoute.lean):

  Router.process_frame -> processFrame : FProg
  Router.route_frame   -> routeFrame   : FProg

`FProg` keeps the ORDER of the stateful steps (the two ARP look-ups, the TTL decrement, its test, the two header writes, the send) and
every guard with both of its continuations; the control flow (if / else nesting, early returns, guard clauses vs nested ifs, negated
tests, falling off the end = return) is translated generically, so an equivalent re-shaping yields the same program while a changed
guard, order, constant, look-up target or a missing step yields another one and `C08_gen_route_frame_*` (Props/C08RouteGen.lean) no
longer checks.  The table is closed: any statement or test that is not listed raises (broken tie).  Facts are tracked through both
branches: `network_interface.<attr>` needs `network_interface` assigned from an ARP look-up AND tested not-None on the path,
`route.next_hop_ip_address` needs `route` tested, `target_mac` needs an assignment.  Pure `ast`; never imports primaite."""
import ast
from typing import FrozenSet, List

from harness.extract.util import class_def, find_method, parse

GEN_NAME = "ForwardRoute"
ROUTER = "simulator/network/hardware/nodes/network/router.py"
DLL = "simulator/network/transmission/data_link_layer.py"
ARPA = "self.software_manager.arp."
DST = "frame.ip.dst_ip_address"


def _code(body: List[ast.stmt]) -> List[ast.stmt]:
    out = []
    for s in body:
        if isinstance(s, ast.Expr) and isinstance(s.value, ast.Constant):
            continue  # docstring
        if isinstance(s, ast.Expr) and isinstance(s.value, ast.Call) and ast.unparse(s.value.func).startswith("self.sys_log."):
            continue  # logging
        if isinstance(s, ast.Pass):
            continue
        out.append(s)
    return out


def _names_used(fn: ast.FunctionDef, name: str) -> List[str]:
    """source of every statement that READS the local `name`, logging excluded"""
    out = []
    for s in ast.walk(fn):
        if isinstance(s, ast.stmt) and not isinstance(s, (ast.If, ast.For, ast.FunctionDef, ast.While, ast.With, ast.Try)):
            if isinstance(s, ast.Expr) and isinstance(s.value, ast.Call) and ast.unparse(s.value.func).startswith("self.sys_log."):
                continue
            if any(isinstance(n, ast.Name) and n.id == name and isinstance(n.ctx, ast.Load) for n in ast.walk(s)):
                out.append(ast.unparse(s))
    return out


def _translate(fn: ast.FunctionDef, allow_route_call: bool) -> str:
    W = f"Router.{fn.name}"
    args = [a.arg for a in fn.args.args]
    if args != ["self", "frame", "from_network_interface"]:
        raise ValueError(f"{W}: unexpected parameters {args}")
    for v in ("from_port", "to_port"):
        if _names_used(fn, v):
            raise ValueError(f"{W}: `{v}` is read outside logging: {_names_used(fn, v)[0][:80]}")

    def need(facts: FrozenSet[str], what: str, t: str):
        if what not in facts:
            raise ValueError(f"{W}: `{t[:90]}` without {what} established on this path")

    def lookup(t: str, facts: FrozenSet[str]):
        """(ctor, new facts) for an assignment from an ARP look-up, else None"""
        for var, ctor, getter, fact, kill in (("network_interface", "setIfc", "get_arp_cache_network_interface", "ifcset", "ifc"),
                                               ("target_mac", "setMac", "get_arp_cache_mac_address", "macset", None)):
            for a, lt, needs in ((DST, "RTgt.dst", None), ("route.next_hop_ip_address", "RTgt.nextHop", "route")):
                if t in (f"{var} = {ARPA}{getter}({a})", f"{var}: RouterInterface = {ARPA}{getter}({a})"):
                    if needs:
                        need(facts, needs, t)
                    f2 = set(facts) | {fact}
                    if kill:
                        f2.discard(kill)
                    return f"FProg.{ctor} {lt}", frozenset(f2)
        return None

    def test(e: ast.AST, facts: FrozenSet[str]):
        """(ctor or True for a statically true test, facts added when true, negated?)"""
        neg = False
        while isinstance(e, ast.UnaryOp) and isinstance(e.op, ast.Not):
            neg, e = not neg, e.operand
        t = ast.unparse(e)
        if t == "frame.ip":
            return True, set(), neg  # Frame.ip is a required field (pinned below): always truthy
        if t == "frame.is_broadcast":
            return "FProg.ifBcast", set(), neg
        if t == "target_mac":
            need(facts, "macset", t)
            return "FProg.ifMac", set(), neg
        if t == "network_interface":
            need(facts, "ifcset", t)
            return "FProg.ifIfc", {"ifc"}, neg
        if t == "network_interface.enabled":
            need(facts, "ifc", t)
            return "FProg.ifEnabled", set(), neg
        if t == f"{DST} in network_interface.ip_network":
            need(facts, "ifc", t)
            return "FProg.ifDstOnIfcNet", set(), neg
        cmp = e
        if isinstance(e, ast.BoolOp) and isinstance(e.op, ast.And) and len(e.values) == 2 and ast.unparse(e.values[0]) == "frame.ip":
            cmp = e.values[1]
        if (isinstance(cmp, ast.Compare) and len(cmp.ops) == 1 and ast.unparse(cmp.left) == "frame.ip.ttl"
                and isinstance(cmp.comparators[0], ast.Constant) and type(cmp.comparators[0].value) is int):
            k = cmp.comparators[0].value
            if isinstance(cmp.ops[0], ast.Lt):
                return f"FProg.ifTtlLt ({k})", set(), neg
            if isinstance(cmp.ops[0], ast.LtE):
                return f"FProg.ifTtlLt ({k + 1})", set(), neg
            if isinstance(cmp.ops[0], ast.GtE):
                return f"FProg.ifTtlLt ({k})", set(), not neg
            if isinstance(cmp.ops[0], ast.Gt):
                return f"FProg.ifTtlLt ({k + 1})", set(), not neg
        raise ValueError(f"{W}: test not in the translation table: {t[:120]}")

    def blk(stmts: List[ast.stmt], facts: FrozenSet[str]) -> str:
        stmts = _code(stmts)
        if not stmts:
            return "FProg.done"
        s, rest = stmts[0], stmts[1:]
        t = ast.unparse(s)
        if isinstance(s, ast.Return):
            if s.value is not None and ast.unparse(s.value) != "None":
                raise ValueError(f"{W}: returns a value: {t[:80]}")
            return "FProg.done"
        lk = lookup(t, facts)
        if lk:
            return f"({lk[0]} {blk(rest, lk[1])})"
        if t in ("route = self.route_table.find_best_route(frame.ip.dst_ip_address)", f"route = self.route_table.find_best_route({DST})"):
            if not rest or not isinstance(rest[0], ast.If) or ast.unparse(rest[0].test) not in ("not route", "route"):
                raise ValueError(f"{W}: find_best_route is not followed by a test of `route`")
            i = rest[0]
            pos, neg = (i.orelse, i.body) if ast.unparse(i.test) == "not route" else (i.body, i.orelse)
            return (f"(FProg.ifRoute {blk(list(pos) + rest[1:], frozenset(set(facts) | {'route'}))} "
                    f"{blk(list(neg) + rest[1:], frozenset(set(facts) - {'route'}))})")
        if isinstance(s, ast.Assign) and len(s.targets) == 1 and ast.unparse(s.targets[0]) in ("from_port", "to_port") \
                and ast.unparse(s.value) in ("self._get_port_of_nic(from_network_interface)", "self._get_port_of_nic(network_interface)"):
            return blk(rest, facts)  # read by logging only (checked above)
        if isinstance(s, ast.For):
            ok = (ast.unparse(s.iter) == "self.network_interfaces.values()" and isinstance(s.target, ast.Name) and not s.orelse
                  and len(s.body) == 1 and isinstance(s.body[0], ast.If) and not s.body[0].orelse
                  and ast.unparse(s.body[0].test) in (f"{s.target.id}.ip_address == {DST}", f"{DST} == {s.target.id}.ip_address"))
            if not ok:
                raise ValueError(f"{W}: loop is not `some interface carries the destination address: …`")
            f2 = set(facts)
            if s.target.id == "network_interface":
                f2 -= {"ifc", "ifcset"}  # the loop variable clobbers the local
            return f"(FProg.ifOwnIp {blk(list(s.body[0].body) + rest, frozenset(f2))} {blk(rest, frozenset(f2))})"
        if isinstance(s, ast.If):
            c, add, neg = test(s.test, facts)
            a, b = (s.orelse, s.body) if neg else (s.body, s.orelse)
            if c is True:
                return blk(list(a) + rest, facts)
            fa = frozenset(set(facts) | add)
            return f"({c} {blk(list(a) + rest, fa)} {blk(list(b) + rest, facts)})"
        if t == "frame.decrement_ttl()":
            return f"(FProg.decTtl {blk(rest, facts)})"
        if t == "frame.ethernet.src_mac_addr = network_interface.mac_address":
            need(facts, "ifc", t)
            return f"(FProg.setSrcMac {blk(rest, facts)})"
        if t == "frame.ethernet.dst_mac_addr = target_mac":
            need(facts, "macset", t)
            return f"(FProg.setDstMac {blk(rest, facts)})"
        if t == "network_interface.send_frame(frame)":
            need(facts, "ifc", t)
            return f"(FProg.send {blk(rest, facts)})"
        if t == "self.route_frame(frame, from_network_interface)" and allow_route_call:
            return f"(FProg.callRoute {blk(rest, facts)})"
        raise ValueError(f"{W}: statement not in the translation table: {t[:120]}")

    return blk(list(fn.body), frozenset())


def emit() -> str:
    rt = parse(ROUTER)
    router = class_def(rt, "Router")
    dl = parse(DLL)
    frame = class_def(dl, "Frame")
    ipann = [ast.unparse(x.annotation) for x in frame.body if isinstance(x, ast.AnnAssign) and ast.unparse(x.target) == "ip" and x.value is None]
    if ipann != ["IPPacket"]:
        raise ValueError(f"Frame.ip is not a required IPPacket field: {ipann}")
    dec = [ast.unparse(x) for x in _code(find_method(frame, "decrement_ttl").body)]
    if dec != ["self.ip.ttl -= 1"]:
        raise ValueError(f"Frame.decrement_ttl is {dec}")
    # who calls route_frame / process_frame (the model reaches route_frame only through process_frame)
    callers = {"route_frame": [], "process_frame": []}
    for cls in (n for n in ast.walk(rt) if isinstance(n, ast.ClassDef)):
        for fn in (n for n in cls.body if isinstance(n, ast.FunctionDef)):
            for c in (n for n in ast.walk(fn) if isinstance(n, ast.Call)):
                f = ast.unparse(c.func)
                for k in callers:
                    if f.endswith("." + k):
                        callers[k].append(f"{cls.name}.{fn.name}")
    if callers["route_frame"] != ["Router.process_frame"]:
        raise ValueError(f"route_frame is called from {callers['route_frame']}")
    pf = _translate(find_method(router, "process_frame"), True)
    rf = _translate(find_method(router, "route_frame"), False)
    return f"""namespace Primaite.Gen.ForwardRoute
/-- whose address an ARP look-up is for: the frame's destination, or the next hop of the route just found -/
inductive RTgt | dst | nextHop
deriving DecidableEq, Repr
/-- `Router.process_frame` / `route_frame` as a program.  `done` = return; `ifBcast` = `frame.is_broadcast`; `ifOwnIp` = the loop "some
interface carries the destination address"; `setIfc t` / `setMac t` = `network_interface` / `target_mac` := the ARP look-up of `t`;
`ifMac` / `ifIfc` = truthiness of the two locals; `ifEnabled` = `network_interface.enabled`; `ifDstOnIfcNet` = destination in
`network_interface.ip_network`; `decTtl` = `frame.decrement_ttl()`; `ifTtlLt k` = `frame.ip.ttl < k`; `setSrcMac` / `setDstMac` = the two
header writes; `send` = `network_interface.send_frame(frame)`; `callRoute` = `self.route_frame(…)`; `ifRoute` = `route =
find_best_route(dst)` + the test of `route`.  First continuation = test true. -/
inductive FProg | done | ifBcast (a b : FProg) | ifOwnIp (a b : FProg) | setIfc (t : RTgt) (k : FProg) | setMac (t : RTgt) (k : FProg)
  | ifMac (a b : FProg) | ifIfc (a b : FProg) | ifEnabled (a b : FProg) | ifDstOnIfcNet (a b : FProg)
  | decTtl (k : FProg) | ifTtlLt (c : Int) (a b : FProg) | setSrcMac (k : FProg) | setDstMac (k : FProg) | send (k : FProg)
  | callRoute (k : FProg) | ifRoute (a b : FProg)
deriving DecidableEq, Repr
/-- Router.process_frame, translated -/
def processFrame : FProg :=
  {pf}
/-- Router.route_frame, translated -/
def routeFrame : FProg :=
  {rf}
/-- callers of process_frame in router.py (Router.receive_frame only in the model; firewall entry points are C06's Gen/Filter) -/
def processFrameCallers : List String := [{", ".join('"' + c + '"' for c in sorted(set(callers["process_frame"])))}]
end Primaite.Gen.ForwardRoute
"""


if __name__ == "__main__":
    print(emit())
