"""Extractor for C10: value tables, literal request paths, defaults and control-flow shapes of the reward layer
(game/agent/rewards.py, game/game.py, game/science.py), read with `ast`. Strict: any unrecognised shape raises."""
import ast
from typing import Dict, List, Tuple

from harness.extract.reward_shapes import SHAPES, WEBPAGE_AS_WRITTEN, WEBPAGE_FIXED
from harness.extract.util import class_def, find_function, find_method, parse

GEN_NAME = "Reward"


def normalise(fn: ast.FunctionDef) -> str:
    """Function source with docstrings, annotations and `_LOGGER.*` calls removed, re-printed by ast.unparse."""
    fn = ast.parse(ast.unparse(fn)).body[0]

    class T(ast.NodeTransformer):
        def visit_FunctionDef(self, n):
            self.generic_visit(n)
            if n.body and isinstance(n.body[0], ast.Expr) and isinstance(n.body[0].value, ast.Constant) \
                    and isinstance(n.body[0].value.value, str):
                n.body = n.body[1:] or [ast.Pass()]
            n.returns = None
            for a in n.args.args:
                a.annotation = None
            return n

        def visit_Expr(self, n):
            if isinstance(n.value, ast.Call) and ast.unparse(n.value.func).startswith("_LOGGER."):
                return None
            return n

        def visit_AnnAssign(self, n):
            if n.value is None:
                return None
            return ast.Assign(targets=[n.target], value=n.value, lineno=0)
    t = T().visit(fn)
    ast.fix_missing_locations(t)
    return ast.unparse(t)


def lean_str(s: str) -> str:
    return '"' + s.replace("\\", "\\\\").replace('"', '\\"') + '"'


def lean_rat(x) -> str:
    if isinstance(x, ast.UnaryOp) and isinstance(x.op, ast.USub):
        return "(-" + lean_rat(x.operand) + ")"
    if isinstance(x, ast.Constant) and isinstance(x.value, (int, float)) and float(x.value) == int(x.value):
        return str(int(x.value))
    raise ValueError(f"value {ast.unparse(x)} is not an integer-valued literal")


def request_path(fn: ast.FunctionDef) -> List[str]:
    """`request_attempted = last_action_response.request == [ ... ]` → Lean list items (`node` for the hostname)."""
    for n in ast.walk(fn):
        if isinstance(n, ast.Assign) and ast.unparse(n.targets[0]) == "request_attempted":
            v = n.value
            if (isinstance(v, ast.Compare) and len(v.ops) == 1 and isinstance(v.ops[0], ast.Eq)
                    and ast.unparse(v.left) == "last_action_response.request" and isinstance(v.comparators[0], ast.List)):
                items = []
                for e in v.comparators[0].elts:
                    if isinstance(e, ast.Constant) and isinstance(e.value, str):
                        items.append(lean_str(e.value))
                    elif ast.unparse(e) == "self.config.node_hostname":
                        items.append("node")
                    else:
                        raise ValueError(f"unrecognised request element {ast.unparse(e)}")
                return items
    raise ValueError(f"no `request_attempted = last_action_response.request == [...]` in {fn.name}")


def ifexp_table(e: ast.AST, var: str) -> Tuple[List[Tuple[int, str]], str]:
    """`a if var == k1 else b if var == k2 else c` → ([(k1, a), (k2, b)], c)"""
    table = []
    while isinstance(e, ast.IfExp):
        t = e.test
        if not (isinstance(t, ast.Compare) and len(t.ops) == 1 and isinstance(t.ops[0], ast.Eq) and ast.unparse(t.left) == var
                and isinstance(t.comparators[0], ast.Constant) and isinstance(t.comparators[0].value, int)):
            raise ValueError(f"unrecognised test {ast.unparse(t)}")
        table.append((t.comparators[0].value, lean_rat(e.body)))
        e = e.orelse
    return table, lean_rat(e)


def if_chain_table(stmt: ast.If, var: str, value_of) -> Tuple[List[Tuple[object, str]], str]:
    """`if var == k1: <v1> elif var == k2: <v2> else: <v3>` with `value_of(body) -> ast value`."""
    table = []
    while True:
        t = stmt.test
        if not (isinstance(t, ast.Compare) and len(t.ops) == 1 and isinstance(t.ops[0], ast.Eq) and ast.unparse(t.left) == var
                and isinstance(t.comparators[0], ast.Constant)):
            raise ValueError(f"unrecognised test {ast.unparse(t)}")
        table.append((t.comparators[0].value, lean_rat(value_of(stmt.body))))
        if len(stmt.orelse) == 1 and isinstance(stmt.orelse[0], ast.If):
            stmt = stmt.orelse[0]
            continue
        return table, lean_rat(value_of(stmt.orelse))


def ret_value(body):
    if len(body) == 1 and isinstance(body[0], ast.Return):
        return body[0].value
    raise ValueError("expected a single return")


def assigned_reward(body):
    if len(body) == 1 and isinstance(body[0], ast.Assign) and ast.unparse(body[0].targets[0]) == "self.reward":
        return body[0].value
    raise ValueError("expected a single `self.reward = ...`")


def emit() -> str:
    rw = parse("game/agent/rewards.py")
    gm = parse("game/game.py")
    sc = parse("game/science.py")
    fns: Dict[str, ast.FunctionDef] = {
        "topological_sort": find_function(sc, "topological_sort"),
        "graph_has_cycle": find_function(sc, "graph_has_cycle"),
        "rf_init": find_method(class_def(rw, "RewardFunction"), "__init__"),
        "register_component": find_method(class_def(rw, "RewardFunction"), "register_component"),
        "update": find_method(class_def(rw, "RewardFunction"), "update"),
        "update_agents": find_method(class_def(gm, "PrimaiteGame"), "update_agents"),
        "setup_reward_sharing": find_method(class_def(gm, "PrimaiteGame"), "setup_reward_sharing"),
        "green": find_method(class_def(rw, "GreenAdminDatabaseUnreachablePenalty"), "calculate"),
        "w404": find_method(class_def(rw, "WebServer404Penalty"), "calculate"),
        "shared": find_method(class_def(rw, "SharedReward"), "calculate"),
        "ap": find_method(class_def(rw, "ActionPenalty"), "calculate"),
        "dfi": find_method(class_def(rw, "DatabaseFileIntegrity"), "calculate"),
    }
    for k, fn in fns.items():
        got = normalise(fn)
        if got != SHAPES[k]:
            raise ValueError(f"{k}: the source no longer has the control flow the model transcribes:\n{got}")
    wp = find_method(class_def(rw, "WebpageUnavailablePenalty"), "calculate")
    wp_src = normalise(wp)
    if wp_src == WEBPAGE_FIXED:
        nonsticky_resets = True
    elif wp_src == WEBPAGE_AS_WRITTEN:
        nonsticky_resets = False
    else:
        raise ValueError(f"WebpageUnavailablePenalty.calculate has an unrecognised shape:\n{wp_src}")
    # literal request paths
    wp_req = request_path(wp)
    gr_req = request_path(fns["green"])
    # status2rew
    s2r = next(n for n in ast.walk(fns["w404"]) if isinstance(n, ast.FunctionDef) and n.name == "status2rew")
    s2r_table, s2r_default = ifexp_table(ret_value([s for s in s2r.body if not isinstance(s, ast.Expr)]), "status")
    # file health
    dfi_if = next(n for n in fns["dfi"].body if isinstance(n, ast.If) and ast.unparse(n.test).startswith("health_status"))
    fh_table, fh_default = if_chain_table(dfi_if, "health_status", ret_value)
    # browser outcome
    out_if = next(n for n in ast.walk(wp) if isinstance(n, ast.If) and ast.unparse(n.test).startswith("outcome =="))
    o_table, o_else = if_chain_table(out_if, "outcome", assigned_reward)
    if [k for k, _ in o_table] != ["PENDING", 200]:
        raise ValueError(f"unrecognised outcome chain {o_table}")
    # sticky defaults
    sticky = []
    for cname in ("WebServer404Penalty", "WebpageUnavailablePenalty", "GreenAdminDatabaseUnreachablePenalty"):
        schema = class_def(class_def(rw, cname), "ConfigSchema")
        d = next((s for s in schema.body if isinstance(s, ast.AnnAssign) and ast.unparse(s.target) == "sticky"), None)
        if d is None or not isinstance(d.value, ast.Constant) or not isinstance(d.value.value, bool):
            raise ValueError(f"{cname}.ConfigSchema.sticky default not a bool literal")
        sticky.append((cname, d.value.value))
    # weight defaults: `_SingleComponentConfig.weight: float = <literal>` and `register_component(..., weight=<literal>)`
    scc = class_def(rw, "_SingleComponentConfig")
    wd = next((s for s in scc.body if isinstance(s, ast.AnnAssign) and ast.unparse(s.target) == "weight"), None)
    if wd is None or ast.unparse(wd.annotation) != "float" or wd.value is None:
        raise ValueError("_SingleComponentConfig.weight is not `weight: float = <literal>`: "
                         + (ast.unparse(wd) if wd is not None else "missing"))
    default_weight = lean_rat(wd.value)
    rc = fns["register_component"]
    if [a.arg for a in rc.args.args] != ["self", "component", "weight"] or len(rc.args.defaults) != 1:
        raise ValueError("register_component signature changed: " + ast.unparse(rc.args))
    register_default = lean_rat(rc.args.defaults[0])
    # component discriminators, in definition order
    types = []
    for n in rw.body:
        if isinstance(n, ast.ClassDef):
            for kw in n.keywords:
                if kw.arg == "discriminator" and isinstance(kw.value, ast.Constant):
                    types.append(kw.value.value)
    # do-nothing literal of ActionPenalty
    ap_if = next(n for n in fns["ap"].body if isinstance(n, ast.If))
    dn_lit = ap_if.test.comparators[0].value
    b = lambda x: "true" if x else "false"  # noqa: E731
    pairs = lambda t: "[" + ", ".join(f"({k}, {v})" for k, v in t) + "]"  # noqa: E731
    return f"""namespace Primaite.Gen.Reward
/-- `WebpageUnavailablePenalty`: the request the latest history item is compared with -/
def webpageRequest (node : String) : List String := [{", ".join(wp_req)}]
/-- `GreenAdminDatabaseUnreachablePenalty`: ditto -/
def greenDbRequest (node : String) : List String := [{", ".join(gr_req)}]
/-- `status2rew` inside `WebServer404Penalty.calculate` -/
def status2rew : List (Nat × Rat) := {pairs(s2r_table)}
def status2rewDefault : Rat := {s2r_default}
/-- `DatabaseFileIntegrity.calculate`: health_status ↦ value -/
def fileHealth : List (Nat × Rat) := {pairs(fh_table)}
def fileHealthDefault : Rat := {fh_default}
/-- `WebpageUnavailablePenalty.calculate`: last outcome `"PENDING"` / `200` / anything else -/
def outcomePending : Rat := {o_table[0][1]}
def outcome200 : Rat := {o_table[1][1]}
def outcomeElse : Rat := {o_else}
def stickyDefaults : List (String × Bool) := [{", ".join(f"({lean_str(c)}, {b(v)})" for c, v in sticky)}]
def componentTypes : List String := [{", ".join(lean_str(t) for t in types)}]
def actionPenaltyDoNothing : String := {lean_str(dn_lit)}
/-- `RewardFunction.update` is `total = 0.0; for (comp, weight): total += weight * comp.calculate(...); current_reward = total` -/
def updateIsWeightedLeftFold : Bool := true
/-- `_SingleComponentConfig.weight: float = …` (a component whose configuration omits the key) -/
def defaultWeight : Rat := {default_weight}
/-- `register_component(self, component, weight=…)` -/
def registerDefaultWeight : Rat := {register_default}
/-- `RewardFunction.__init__`: `self.register_component(component=rew_instance, weight=rew_config.weight)` -/
def weightPassedUnchanged : Bool := true
/-- body of `update_agents`' loop, in order -/
def updateAgentsCalls : List String := ["update_reward", "save_reward_to_history", "update_observation", "total+=current"]
def updateAgentsIteratesOrder : Bool := true
def rewardGuardedByStepCounter : Bool := true
def setupRaisesOnCycle : Bool := true
def setupOrderIsTopoSort : Bool := true
def setupCallbackReadsCurrentReward : Bool := true
/-- without a new request a non-sticky `WebpageUnavailablePenalty` sets its value to 0 (F-18 repaired) -/
def webpageNonStickyResets : Bool := {b(nonsticky_resets)}
def topoSortIsPostOrder : Bool := true
def cycleSearchShape : Bool := true
end Primaite.Gen.Reward
"""
