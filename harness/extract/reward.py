"""Extractor for C10 (Gen/Reward.lean): every reward component's `calculate` translated statement by statement into the
language of Model/RewardCalcLang.lean (harness/extract/reward_calc.py), literal defaults (weights, sticky flags, memories),
the component registry, and text-shape flags of the functions the models transcribe by hand
(game/agent/rewards.py, game/game.py, game/science.py, game/agent/utils.py, game/agent/interface.py), read with `ast`.
Strict: an untranslatable construct raises."""
import ast
from typing import Dict, List, Tuple

from harness.extract.reward_shapes import SHAPES
from harness.extract.util import class_def, find_function, find_method, parse

GEN_NAME = "Reward"


def normalise(fn: ast.FunctionDef) -> str:
    """Function source with docstrings, annotations and `_LOGGER.*` calls removed, re-printed by ast.unparse."""
    fn = ast.parse(ast.unparse(fn)).body[0]

    class T(ast.NodeTransformer):
        def visit_FunctionDef(self, n):
            self.generic_visit(n)
            if n.body and isinstance(n.body[0], ast.Expr) and isinstance(n.body[0].value, ast.Constant) \
                    and isinstance(n.body[0].value.value, str):
                n.body = n.body[1:] or [ast.Pass()]
            n.returns = None
            for a in n.args.args:
                a.annotation = None
            return n

        def visit_Expr(self, n):
            if isinstance(n.value, ast.Call) and ast.unparse(n.value.func).startswith("_LOGGER."):
                return None
            return n

        def visit_AnnAssign(self, n):
            if n.value is None:
                return None
            return ast.Assign(targets=[n.target], value=n.value, lineno=0)
    t = T().visit(fn)
    ast.fix_missing_locations(t)
    return ast.unparse(t)


def lean_str(s: str) -> str:
    return '"' + s.replace("\\", "\\\\").replace('"', '\\"') + '"'


def lean_rat(x) -> str:
    if isinstance(x, ast.UnaryOp) and isinstance(x.op, ast.USub):
        return "(-" + lean_rat(x.operand) + ")"
    if isinstance(x, ast.Constant) and isinstance(x.value, (int, float)) and float(x.value) == int(x.value):
        return str(int(x.value))
    raise ValueError(f"value {ast.unparse(x)} is not an integer-valued literal")


def component_classes(rw: ast.Module) -> List[Tuple[str, str, ast.ClassDef]]:
    """(class name, discriminator, class) of every registered reward component, in definition order."""
    out = []
    for n in rw.body:
        if isinstance(n, ast.ClassDef):
            for kw in n.keywords:
                if kw.arg == "discriminator" and isinstance(kw.value, ast.Constant):
                    out.append((n.name, kw.value.value, n))
    return out


def update_agents_program(fn: ast.FunctionDef) -> List[Tuple[bool, str]]:
    """`PrimaiteGame.update_agents(self, state)` as the program it is: it must be ONE loop `for agent_name in
    self._reward_calculation_order:` whose body starts with `agent = self.agents[agent_name]` and continues with statements among
    `agent.update_reward(state=state)`, `agent.save_reward_to_history()`, `agent.update_observation(state=state)`,
    `agent.reward_function.total_reward += agent.reward_function.current_reward`, each possibly under `if self.step_counter > 0:`.
    Returned in source order as (stands under that `if`?, operation); their ORDER and GUARDS are what Props/C10Calc.lean proves equal
    to the model. Anything else raises."""
    body = [st for st in fn.body if not (isinstance(st, ast.Expr) and isinstance(st.value, ast.Constant))]
    if [a.arg for a in fn.args.args] != ["self", "state"] or len(body) != 1 or not isinstance(body[0], ast.For):
        raise ValueError("update_agents is not a single loop over the agents")
    loop = body[0]
    if ast.unparse(loop.target) != "agent_name" or ast.unparse(loop.iter) != "self._reward_calculation_order" or loop.orelse:
        raise ValueError("update_agents does not iterate `for agent_name in self._reward_calculation_order`")
    stmts = list(loop.body)
    if not stmts or ast.unparse(stmts[0]) != "agent = self.agents[agent_name]":
        raise ValueError("update_agents' loop does not start with `agent = self.agents[agent_name]`")
    ops = {"agent.update_reward(state=state)": "updateReward", "agent.save_reward_to_history()": "saveRewardToHistory",
           "agent.update_observation(state=state)": "updateObservation",
           "agent.reward_function.total_reward += agent.reward_function.current_reward": "addCurrentToTotal"}
    out: List[Tuple[bool, str]] = []

    def one(st: ast.stmt, guarded: bool):
        src = ast.unparse(st)
        if src in ops:
            out.append((guarded, ops[src]))
        elif isinstance(st, ast.If) and not guarded and ast.unparse(st.test) == "self.step_counter > 0" and not st.orelse:
            for x in st.body:
                one(x, True)
        else:
            raise ValueError(f"update_agents: unrecognised statement `{src[:80]}`")
    for st in stmts[1:]:
        one(st, False)
    return out


_PIPE_WORDS = ("reward_function", "update_agents", "advance_timestep", "apply_agent_actions", "get_sim_state", "pre_timestep",
               "store_action", "describe_state", "update_reward", "save_reward_to_history", "current_reward", "total_reward",
               "self.simulation", ".step(")


def step_pipeline(fn: ast.FunctionDef, game: str, returns_reward: bool) -> List[Tuple[bool, str]]:
    """A `step` method as the sequence of reward-relevant calls it is (Model/Reward.lean `POp`), in source order; `game` is the
    expression that denotes the PrimaiteGame (`self` / `self.game`). Strict: a statement that mentions the simulation or the rewards
    and is not one of the recognised calls raises."""
    out: List[Tuple[bool, str]] = []
    reward_var = [None]

    def q(x: str) -> str:
        return '"' + x + '"'

    def one(st: ast.stmt, guarded: bool):
        src = ast.unparse(st)
        if isinstance(st, ast.Expr) and isinstance(st.value, ast.Constant):
            return
        if isinstance(st, ast.Expr) and isinstance(st.value, ast.Call) and ast.unparse(st.value.func).startswith("_LOGGER."):
            return
        if src == "self.agent.store_action(action)" or (
                isinstance(st, ast.For) and ast.unparse(st.iter) == "actions.items()" and len(st.body) == 1
                and ast.unparse(st.body[0]) == f"self.agents[{ast.unparse(st.target.elts[0])}].store_action({ast.unparse(st.target.elts[1])})"):
            out.append((guarded, ".storeAction"))
        elif src == f"{game}.pre_timestep()":
            out.append((guarded, ".preTimestep"))
        elif src == f"{game}.apply_agent_actions()":
            out.append((guarded, ".applyActions"))
        elif src == f"{game}.advance_timestep()":
            out.append((guarded, ".advance"))
        elif isinstance(st, ast.Assign) and len(st.targets) == 1 and isinstance(st.targets[0], ast.Name) \
                and ast.unparse(st.value) == f"{game}.get_sim_state()":
            out.append((guarded, f"(.getState {q(st.targets[0].id)})"))
        elif isinstance(st, ast.Expr) and isinstance(st.value, ast.Call) and ast.unparse(st.value.func) == f"{game}.update_agents" \
                and len(st.value.args) + len(st.value.keywords) == 1 \
                and isinstance((st.value.args + [k.value for k in st.value.keywords if k.arg == "state"])[0], ast.Name):
            out.append((guarded, f"(.updateAgents {q((st.value.args + [k.value for k in st.value.keywords])[0].id)})"))
        elif isinstance(st, ast.For) and ast.unparse(st.iter) == "self.agents.values()" and len(st.body) == 1 and not st.orelse \
                and isinstance(st.body[0], ast.Expr) and isinstance(st.body[0].value, ast.Call) \
                and ast.unparse(st.body[0].value.func) == f"{ast.unparse(st.target)}.update_observation" \
                and len(st.body[0].value.keywords) == 1 and isinstance(st.body[0].value.keywords[0].value, ast.Name):
            out.append((guarded, f"(.updateObservations {q(st.body[0].value.keywords[0].value.id)})"))
        elif isinstance(st, ast.If) and not guarded and ast.unparse(st.test) == "self.step_counter == 0" and not st.orelse and game == "self":
            for x in st.body:
                one(x, True)
        elif returns_reward and isinstance(st, ast.Assign) and len(st.targets) == 1 and isinstance(st.targets[0], ast.Name) \
                and ast.unparse(st.value) in (
                    "self.agent.reward_function.current_reward", "self.agent.reward_function.total_reward",
                    "{name: agent.reward_function.current_reward for name, agent in self.agents.items()}",
                    "{name: agent.reward_function.total_reward for name, agent in self.agents.items()}"):
            if reward_var[0] is not None or guarded:
                raise ValueError(f"{fn.name}: the returned reward is assigned twice / conditionally")
            reward_var[0] = st.targets[0].id
            out.append((guarded, f"(.readReward {'true' if 'total_reward' in ast.unparse(st.value) else 'false'})"))
        elif isinstance(st, ast.Return):
            if returns_reward:
                if not (isinstance(st.value, ast.Tuple) and len(st.value.elts) == 5 and isinstance(st.value.elts[1], ast.Name)
                        and st.value.elts[1].id == reward_var[0]):
                    raise ValueError(f"{fn.name}: `{src}` does not return the reward variable `{reward_var[0]}` in second place")
            elif st.value is not None:
                raise ValueError(f"{fn.name}: `{src}`")
        elif isinstance(st, ast.If) and all(w not in ast.unparse(st.test) for w in _PIPE_WORDS) \
                and all(w not in ast.unparse(x) for x in st.body + st.orelse for w in _PIPE_WORDS if w not in ("self.simulation",)) \
                and "_write_step_metadata_json" in src and len(st.body) == 1 and not st.orelse:
            out.append((guarded, ".other"))      # `if self.game.save_step_metadata: self._write_step_metadata_json(...)`: a file is written
        elif any(w in src for w in _PIPE_WORDS) and not (isinstance(st, ast.Assign) and src.startswith("step = ") and src.endswith(".step_counter")):
            raise ValueError(f"{fn.name}: unrecognised reward-relevant statement `{src[:90]}`")
        else:
            out.append((guarded, ".other"))
    for st in fn.body:
        one(st, False)
    if returns_reward and reward_var[0] is None:
        raise ValueError(f"{fn.name}: no returned reward found")
    return out


def setup_sharing_program(fn: ast.FunctionDef) -> Tuple[List[str], List[str]]:
    """`PrimaiteGame.setup_reward_sharing(self)` as the program it is (Model/Reward.lean `SetupProg`): it must be `graph = {}`, ONE loop
    `for name, agent in self.agents.items():` = `graph[name] = set()` + ONE loop `for comp, weight in
    agent.reward_function.reward_components:` = ONE `if isinstance(comp, SharedReward):` whose statements are among
    `graph[name].add(comp.config.agent_name)` and `comp.callback = lambda agent_name: self.agents[agent_name].reward_function.current_reward`
    (a bare annotation `comp: SharedReward` is dropped), followed by statements among `if graph_has_cycle(graph): raise RuntimeError(…)`
    and `self._reward_calculation_order = topological_sort(graph)`. Returned in source order; their ORDER and MULTIPLICITY are what
    Props/C10.lean proves equal to the model. Anything else raises."""
    body = [st for st in fn.body if not (isinstance(st, ast.Expr) and isinstance(st.value, ast.Constant))]
    if [a.arg for a in fn.args.args] != ["self"] or len(body) < 2 or ast.unparse(body[0]) != "graph = {}":
        raise ValueError("setup_reward_sharing does not start with `graph = {}`")
    loop = body[1]
    if not isinstance(loop, ast.For) or ast.unparse(loop.target) != "(name, agent)" or ast.unparse(loop.iter) != "self.agents.items()" \
            or loop.orelse or len(loop.body) != 2 or ast.unparse(loop.body[0]) != "graph[name] = set()":
        raise ValueError("setup_reward_sharing: the loop over the agents is not `graph[name] = set()` + one loop over the components")
    inner = loop.body[1]
    if not isinstance(inner, ast.For) or ast.unparse(inner.target) != "(comp, weight)" or inner.orelse \
            or ast.unparse(inner.iter) != "agent.reward_function.reward_components" or len(inner.body) != 1 \
            or not isinstance(inner.body[0], ast.If) or ast.unparse(inner.body[0].test) != "isinstance(comp, SharedReward)" \
            or inner.body[0].orelse:
        raise ValueError("setup_reward_sharing: the loop over the components is not one `if isinstance(comp, SharedReward):`")
    per = []
    for st in inner.body[0].body:
        src = ast.unparse(st)
        if isinstance(st, ast.AnnAssign) and st.value is None:
            continue
        if src == "graph[name].add(comp.config.agent_name)":
            per.append(".addArc")
        elif src == "comp.callback = lambda agent_name: self.agents[agent_name].reward_function.current_reward":
            per.append(".setCallback")
        else:
            raise ValueError(f"setup_reward_sharing: unrecognised statement for a shared component `{src[:90]}`")
    tail = []
    for st in body[2:]:
        src = ast.unparse(st)
        if isinstance(st, ast.If) and ast.unparse(st.test) == "graph_has_cycle(graph)" and not st.orelse and len(st.body) == 1 \
                and isinstance(st.body[0], ast.Raise) and ast.unparse(st.body[0].exc).startswith("RuntimeError("):
            tail.append(".raiseIfCycle")
        elif src == "self._reward_calculation_order = topological_sort(graph)":
            tail.append(".assignOrder")
        else:
            raise ValueError(f"setup_reward_sharing: unrecognised statement `{src[:90]}`")
    return per, tail


def shape_report() -> List[Tuple[str, bool, str]]:
    """(function, text-identical to the transcribed shape?, normalised source now) for the functions whose control flow the
    models transcribe by hand (deliberately blunt: any edit of these functions is reported)."""
    rw = parse("game/agent/rewards.py")
    fns: Dict[str, ast.FunctionDef] = {
        "rf_init": find_method(class_def(rw, "RewardFunction"), "__init__"),
        "register_component": find_method(class_def(rw, "RewardFunction"), "register_component"),
        "update_reward": find_method(class_def(parse("game/agent/interface.py"), "AbstractAgent"), "update_reward"),
        "save_reward_to_history": find_method(class_def(parse("game/agent/interface.py"), "AbstractAgent"), "save_reward_to_history"),
    }
    out = []
    for k, fn in fns.items():
        got = normalise(fn)
        out.append((k, got == SHAPES[k], got))
    return out


def emit() -> str:
    from harness.extract.reward_calc import translate_calculate, translate_function, translate_method
    rw = parse("game/agent/rewards.py")
    shapes = shape_report()
    shape_ok = {k: ok for k, ok, _ in shapes}
    # every registered component class: its `calculate`, translated statement by statement
    classes = component_classes(rw)
    calc_defs = []
    memory_defaults = []
    for cname, disc, cls in classes:
        body = translate_calculate(find_method(cls, "calculate"))
        calc_defs.append(f"/-- `{cname}.calculate` (discriminator `{disc}`), translated from the source -/\n"
                         f"def calc_{cname} : Py.Stmt :=\n  {body}")
        d = next((s for s in cls.body if isinstance(s, ast.AnnAssign) and ast.unparse(s.target) == "reward"), None)
        if d is not None:
            if ast.unparse(d.annotation) != "float" or d.value is None:
                raise ValueError(f"{cname}.reward is not `reward: float = <literal>`")
            memory_defaults.append((cname, lean_rat(d.value)))
    # `access_from_nested_dict(dictionary, keys)`, translated like the components (recursion included)
    afn = find_function(parse("game/agent/utils.py"), "access_from_nested_dict")
    calc_defs.append("/-- `access_from_nested_dict(dictionary, keys)` (game/agent/utils.py), translated from the source -/\n"
                     "def fn_access_from_nested_dict : Py.Stmt :=\n  " + translate_function(afn, ["dictionary", "keys"]))
    # `RewardFunction.update(state, last_action_response)`, translated (loop over the registered components, `total += w * calculate`)
    calc_defs.append("/-- `RewardFunction.update` (game/agent/rewards.py), translated from the source -/\n"
                     "def fn_RewardFunction_update : Py.Stmt :=\n  "
                     + translate_method(find_method(class_def(rw, "RewardFunction"), "update"), ["reward_components", "current_reward"]))
    # `PrimaiteGame.update_agents`: the order and the guards of the statements of its loop
    prog = update_agents_program(find_method(class_def(parse("game/game.py"), "PrimaiteGame"), "update_agents"))
    calc_defs.append("/-- the body of the loop of `PrimaiteGame.update_agents` (game/game.py), statement by statement: (under `if "
                     "self.step_counter > 0`?, operation on the agent looked up by `self.agents[agent_name]`) -/\n"
                     "def updateAgentsProgram : List (Bool × AOp) :=\n  ["
                     + ", ".join(f"({'true' if g else 'false'}, .{o})" for g, o in prog) + "]")
    # `PrimaiteGame.setup_reward_sharing`: the statements of its loops and of its tail, in source order
    per, tail = setup_sharing_program(find_method(class_def(parse("game/game.py"), "PrimaiteGame"), "setup_reward_sharing"))
    calc_defs.append("/-- `PrimaiteGame.setup_reward_sharing` (game/game.py), statement by statement: what is done for every `SharedReward` "
                     "component of every agent, and what follows the loops -/\ndef setupSharingProgram : SetupProg :=\n  "
                     "{ perShared := [" + ", ".join(per) + "], tail := [" + ", ".join(tail) + "] }")
    # the three step pipelines: order of tick / snapshot / update_agents / returned reward
    pipes = [("PrimaiteGame.step", False, step_pipeline(find_method(class_def(parse("game/game.py"), "PrimaiteGame"), "step"), "self", False)),
             ("PrimaiteGymEnv.step", True,
              step_pipeline(find_method(class_def(parse("session/environment.py"), "PrimaiteGymEnv"), "step"), "self.game", True)),
             ("PrimaiteRayMARLEnv.step", True,
              step_pipeline(find_method(class_def(parse("session/ray_envs.py"), "PrimaiteRayMARLEnv"), "step"), "self.game", True))]
    calc_defs.append("/-- the `step` methods as sequences of reward-relevant calls (name, returns the reward?, [(under `if self.step_counter == 0`?, "
                     "call)]), in source order -/\ndef stepPipelines : List (String × Bool × List (Bool × POp)) :=\n  ["
                     + ",\n   ".join(f"({lean_str(n)}, {'true' if r else 'false'}, [" + ", ".join(f"({'true' if g else 'false'}, {o})" for g, o in p) + "])"
                                      for n, r, p in pipes) + "]")
    # sticky defaults
    sticky = []
    for cname, _disc, cls in classes:
        schema = next((n for n in cls.body if isinstance(n, ast.ClassDef) and n.name == "ConfigSchema"), None)
        if schema is None:
            continue
        d = next((s for s in schema.body if isinstance(s, ast.AnnAssign) and ast.unparse(s.target) == "sticky"), None)
        if d is None:
            continue
        if not isinstance(d.value, ast.Constant) or not isinstance(d.value.value, bool):
            raise ValueError(f"{cname}.ConfigSchema.sticky default not a bool literal")
        sticky.append((cname, d.value.value))
    # ActionPenalty's configured defaults
    ap_schema = class_def(class_def(rw, "ActionPenalty"), "ConfigSchema")
    ap_defaults = []
    for f in ("action_penalty", "do_nothing_penalty"):
        d = next((s for s in ap_schema.body if isinstance(s, ast.AnnAssign) and ast.unparse(s.target) == f), None)
        if d is None or ast.unparse(d.annotation) != "float" or d.value is None:
            raise ValueError(f"ActionPenalty.ConfigSchema.{f} is not `{f}: float = <literal>`")
        ap_defaults.append((f, lean_rat(d.value)))
    # weight defaults: `_SingleComponentConfig.weight: float = <literal>` and `register_component(..., weight=<literal>)`
    def opt_rat(v) -> str:
        try:
            return "(some " + lean_rat(v) + ")"
        except (ValueError, AttributeError):
            return "none"
    scc = class_def(rw, "_SingleComponentConfig")
    wd = next((s for s in scc.body if isinstance(s, ast.AnnAssign) and ast.unparse(s.target) == "weight"), None)
    # `weight: float = <integer-valued literal>`; anything else (another annotation, `None`, no default) is emitted as `none`
    default_weight = opt_rat(wd.value) if wd is not None and ast.unparse(wd.annotation) == "float" and wd.value is not None else "none"
    rc = find_method(class_def(rw, "RewardFunction"), "register_component")
    register_default = opt_rat(rc.args.defaults[0]) \
        if [a.arg for a in rc.args.args] == ["self", "component", "weight"] and len(rc.args.defaults) == 1 else "none"
    # `current_reward` / `total_reward` start at 0.0
    rf = class_def(rw, "RewardFunction")
    starts = []
    for f in ("current_reward", "total_reward"):
        d = next((s for s in rf.body if isinstance(s, ast.AnnAssign) and ast.unparse(s.target) == f), None)
        if d is None or d.value is None:
            raise ValueError(f"RewardFunction.{f} has no literal default")
        starts.append((f, lean_rat(d.value)))
    b = lambda x: "true" if x else "false"  # noqa: E731
    nl = "\n\n"
    return f"""import PrimaiteModel.Model.RewardCalcLang
namespace Primaite.Gen.Reward
open Primaite.Reward

{nl.join(calc_defs)}

/-- class-level default of the sticky memory `reward: float = …` -/
def memoryDefaults : List (String × Rat) := [{", ".join(f"({lean_str(c)}, {v})" for c, v in memory_defaults)}]
def stickyDefaults : List (String × Bool) := [{", ".join(f"({lean_str(c)}, {b(v)})" for c, v in sticky)}]
def componentTypes : List (String × String) := [{", ".join(f"({lean_str(c)}, {lean_str(t)})" for c, t, _ in classes)}]
def actionPenaltyDefaults : List (String × Rat) := [{", ".join(f"({lean_str(c)}, {v})" for c, v in ap_defaults)}]
/-- `_SingleComponentConfig.weight: float = …` (a component whose configuration omits the key) -/
def defaultWeight : Option Rat := {default_weight}
/-- `register_component(self, component, weight=…)` -/
def registerDefaultWeight : Option Rat := {register_default}
/-- `RewardFunction.current_reward: float = …`, `total_reward: float = …` -/
def rewardStarts : List (String × Rat) := [{", ".join(f"({lean_str(c)}, {v})" for c, v in starts)}]

/-! Functions whose control flow Model/RewardGraph.lean and Model/Reward.lean transcribe by hand: `true` = the normalised
source (docstrings, annotations, logging removed) is text-identical to the transcribed shape (harness/extract/reward_shapes.py).
Deliberately blunt; the semantic ties are the differential rigs (R-rew, exhaustive graph family) for these functions. -/
/-- `RewardFunction.__init__`: `self.register_component(component=rew_instance, weight=rew_config.weight)`; `register_component` appends -/
def weightPassedUnchanged : Bool := {b(shape_ok["rf_init"] and shape_ok["register_component"])}
/-- `update_reward` passes `self.history[-1]`; `save_reward_to_history` writes `current_reward` into `self.history[-1].reward` -/
def agentRewardPlumbing : Bool := {b(shape_ok["update_reward"] and shape_ok["save_reward_to_history"])}
end Primaite.Gen.Reward
"""
