"""Extractor for C16: constants, comparison operators and guard shapes of UserManager / UserSessionManager / Terminal /
Service that the theorems of Props/C16.lean depend on.  Pure `ast`; strict: an unrecognised shape raises."""
import ast
from typing import List, Optional

from harness.extract.util import class_def, find_method, parse
from harness.lib.core import SRC

GEN_NAME = "Session"

BASE = "simulator/network/hardware/base.py"
TERM = "simulator/system/services/terminal/terminal.py"
SVC = "simulator/system/services/service.py"
HOST = "simulator/network/hardware/nodes/host/host_node.py"
ROUTER = "simulator/network/hardware/nodes/network/router.py"

_CMP = {ast.LtE: "le", ast.Lt: "lt", ast.GtE: "ge", ast.Gt: "gt", ast.Eq: "eq"}


def _default(cls: ast.ClassDef, name: str) -> int:
    for st in cls.body:
        if isinstance(st, ast.AnnAssign) and ast.unparse(st.target) == name:
            if isinstance(st.value, ast.Constant) and isinstance(st.value.value, int):
                return st.value.value
    raise ValueError(f"{cls.name}.{name}: no integer literal default")


def _body(fn: ast.FunctionDef) -> List[ast.stmt]:
    b = fn.body
    if b and isinstance(b[0], ast.Expr) and isinstance(b[0].value, ast.Constant) and isinstance(b[0].value.value, str):
        b = b[1:]
    return b


def _guarded_by_can_perform(fn: ast.FunctionDef, ret: str) -> bool:
    """first statement is `if not self._can_perform_action(): return <ret>`"""
    st = _body(fn)[0]
    return (isinstance(st, ast.If) and ast.unparse(st.test) == "not self._can_perform_action()"
            and len(st.body) == 1 and isinstance(st.body[0], ast.Return) and ast.unparse(st.body[0].value) == ret and not st.orelse)


def _and_terms(e: ast.AST) -> List[str]:
    if isinstance(e, ast.BoolOp) and isinstance(e.op, ast.And):
        return [ast.unparse(v) for v in e.values]
    return [ast.unparse(e)]


def _timeout_cmp(fn: ast.FunctionDef, lhs: str) -> str:
    """the operator of `<lhs> <op> timestep`; "?" when the source no longer has that comparison (the obligation
    C16_gen_comparisons then fails, the rig still runs and searches for a failing input)"""
    for n in ast.walk(fn):
        if isinstance(n, ast.If) and isinstance(n.test, ast.Compare) and ast.unparse(n.test.left) == lhs:
            if len(n.test.ops) == 1 and ast.unparse(n.test.comparators[0]) == "timestep":
                return _CMP.get(type(n.test.ops[0]), "?")
    return "?"


def _timeout_tests(fn: ast.FunctionDef) -> List[tuple]:
    """Every time-out decision of `pre_timestep`: each `if` (in source order) whose test mentions a time-out parameter or
    `last_active_step`, as (test, what its body does)."""
    out = []
    for n in ast.walk(fn):
        if isinstance(n, ast.If):
            t = ast.unparse(n.test)
            if "timeout" in t or "last_active_step" in t:
                out.append((n.lineno, t, "; ".join(ast.unparse(x) for x in n.body)))
    return [(t, b) for _, t, b in sorted(out)]


_ACCOUNT_FIELDS = ("disabled", "is_admin", "password", "username")
_ACCOUNT_EDITORS = ("add_user", "disable_user", "enable_user", "change_user_password")
_DICT_MUTATORS = ("pop", "clear", "update", "setdefault", "popitem", "__setitem__", "__delitem__")


def _qual(stack: List[str]) -> str:
    return ".".join(stack) if stack else "<module>"


class _Walk(ast.NodeVisitor):
    """visit with the enclosing class / function names"""

    def __init__(self, on_node):
        self.stack: List[str] = []
        self.on_node = on_node

    def generic_visit(self, node):
        named = isinstance(node, (ast.ClassDef, ast.FunctionDef, ast.AsyncFunctionDef))
        if named:
            self.stack.append(node.name)
        self.on_node(node, list(self.stack))
        super().generic_visit(node)
        if named:
            self.stack.pop()


def _targets(node: ast.AST) -> List[ast.AST]:
    if isinstance(node, ast.Assign):
        out = []
        for t in node.targets:
            out += list(t.elts) if isinstance(t, (ast.Tuple, ast.List)) else [t]
        return out
    if isinstance(node, (ast.AugAssign, ast.AnnAssign)):
        return [node.target] if not (isinstance(node, ast.AnnAssign) and node.value is None) else []
    if isinstance(node, ast.Delete):
        return list(node.targets)
    return []


def _um_writes(um: ast.ClassDef) -> List[tuple]:
    """every statement inside UserManager that writes to something other than a local name: assignments / deletions whose
    target is an attribute or a subscript, and calls of dict mutators on `self.users`"""
    out = []
    for fn in um.body:
        if not isinstance(fn, ast.FunctionDef):
            continue
        found = []
        for n in ast.walk(fn):
            for t in _targets(n):
                if isinstance(t, (ast.Attribute, ast.Subscript)):
                    found.append((n.lineno, ast.unparse(n)))
            if isinstance(n, ast.Call) and isinstance(n.func, ast.Attribute) and n.func.attr in _DICT_MUTATORS \
                    and "users" in ast.unparse(n.func.value):
                found.append((n.lineno, ast.unparse(n)))
        for _, st in sorted(set(found)):
            out.append((fn.name, st))
    return out


ACTIVE_WRITES: List[str] = []   # every assignment to an `is_active` attribute / class field in the package (filled by _package_inventory)


# ------------------------------------------------------------------------------------------ kept connection objects (round 7)
_HANDLE_ATOMS = {
    "self.parent_terminal.operating_state != ServiceOperatingState.RUNNING": "(!running)",
    "self.parent_terminal.operating_state == ServiceOperatingState.RUNNING": "running",
    "self.parent_terminal.operating_state is not ServiceOperatingState.RUNNING": "(!running)",
    "self.parent_terminal.operating_state is ServiceOperatingState.RUNNING": "running",
    "self.is_active": "active",
    "self.is_active is False": "(!active)",
    "self.is_active == False": "(!active)",
    "self.is_active is True": "active",
    "self.parent_terminal.parent.user_session_manager.local_session is None": "loc.isNone",
    "self.parent_terminal.parent.user_session_manager.local_session": "loc.isSome",
    "self.parent_terminal.parent.user_session_manager.local_session is not None": "loc.isSome",
    "self.parent_terminal.parent.user_session_manager.local_session.uuid != self.connection_uuid": "(loc != some cid)",
    "self.parent_terminal.parent.user_session_manager.local_session.uuid == self.connection_uuid": "(loc == some cid)",
    "self.connection_uuid != self.parent_terminal.parent.user_session_manager.local_session.uuid": "(loc != some cid)",
    "self.connection_uuid == self.parent_terminal.parent.user_session_manager.local_session.uuid": "(loc == some cid)",
    "self.parent_terminal.parent.user_session_manager.local_user_logged_in": "loc.isSome",
}


class _Inline(ast.NodeTransformer):
    def __init__(self, env):
        self.env = env

    def visit_Name(self, node):
        return self.env.get(node.id, node)


def _tr_test(e: ast.AST, env) -> str:
    """a Python test over the atoms above -> a Lean Bool expression; raises ValueError on anything else"""
    if isinstance(e, ast.BoolOp):
        op = " || " if isinstance(e.op, ast.Or) else " && "
        return "(" + op.join(_tr_test(v, env) for v in e.values) + ")"
    if isinstance(e, ast.UnaryOp) and isinstance(e.op, ast.Not):
        return "(!" + _tr_test(e.operand, env) + ")"
    txt = ast.unparse(_Inline(env).visit(ast.parse(ast.unparse(e), mode="eval").body))
    if txt not in _HANDLE_ATOMS:
        raise ValueError(f"test outside the vocabulary: {txt}")
    return _HANDLE_ATOMS[txt]


def _is_log(st: ast.stmt) -> bool:
    return isinstance(st, ast.Expr) and ".sys_log." in ast.unparse(st)


def _refuses(fn: ast.FunctionDef, refuse_values, final_prefix: str):
    """The method as a chain of guard clauses `if <test>: [log]; return <refusal>` (local aliases inlined; `if … else` with the
    final call in one arm and positively nested `if`s are normalised too) in front of `return <final_prefix>…`.
    Returns (Lean Bool expression "the call is refused", the statements between the guards and the final return)."""
    def walk(stmts, env):
        # -> (Lean expression "refused" for this statement list, the non-guard statements met on the way); an `if` is followed
        # into both arms, each continued with the statements after it (so guard clauses, `if … else`, positively nested `if`s and
        # early returns all get their meaning); the list must end in the final call or in a refusal on every path
        middle = []
        for i, st in enumerate(stmts):
            if _is_log(st):
                continue
            if isinstance(st, ast.Assign) and len(st.targets) == 1 and isinstance(st.targets[0], ast.Name):
                val = _Inline(env).visit(ast.parse(ast.unparse(st.value), mode="eval").body)
                if ast.unparse(val).startswith("self.parent_terminal.parent") and not isinstance(val, ast.Call):
                    env = dict(env, **{st.targets[0].id: val})
                else:
                    middle.append(ast.unparse(st))
                continue
            if isinstance(st, ast.AnnAssign) and st.value is not None:
                middle.append(ast.unparse(st))
                continue
            if isinstance(st, ast.Return):
                v = ast.unparse(st.value) if st.value is not None else "None"
                if v in refuse_values:
                    return "true", middle
                if v.startswith(final_prefix):
                    return "false", middle + ["return " + v]
                raise ValueError(f"unrecognised return: {v}")
            if isinstance(st, ast.If):
                t = _tr_test(st.test, env)
                then_r, then_m = walk(list(st.body) + list(stmts[i + 1:]), env)
                else_r, else_m = walk(list(st.orelse) + list(stmts[i + 1:]), env)
                return f"(if {t} then {then_r} else {else_r})", middle + [x for x in then_m + else_m if x not in middle]
            raise ValueError(f"unrecognised statement: {ast.unparse(st)}")
        if "None" in refuse_values:     # fell off the end: Python returns None
            return "true", middle
        raise ValueError("falls off the end")
    return walk(_body(fn), {})


def _handle_gen() -> str:
    tree = parse(TERM)
    out = []
    try:
        lr, lm = _refuses(find_method(class_def(tree, "LocalTerminalConnection"), "execute"), ("None",), "self.parent_terminal.execute(")
    except ValueError as e:
        lr, lm = f"false /- not translated: {str(e)[:80].replace('-/', '')} -/", ["?"]
    try:
        rr, rm = _refuses(find_method(class_def(tree, "RemoteTerminalConnection"), "execute"), ("False", "None"), "self.parent_terminal.send(")
    except ValueError as e:
        rr, rm = f"false /- not translated: {str(e)[:80].replace('-/', '')} -/", ["?"]
    # what the SSH packet of a remote execute carries (keyword -> value), and how it is sent
    rfn = find_method(class_def(tree, "RemoteTerminalConnection"), "execute")
    packet = []
    for n in ast.walk(rfn):
        if isinstance(n, ast.Call) and ast.unparse(n.func) == "SSHPacket":
            packet = sorted((k.arg, ast.unparse(k.value)) for k in n.keywords)
    consts = {ast.unparse(n.target): ast.unparse(n.value) for n in ast.walk(rfn) if isinstance(n, ast.AnnAssign) and n.value is not None}
    packet = [(k, consts.get(v, v)) for k, v in packet]
    disc = [ast.unparse(x) for x in _body(find_method(class_def(tree, "TerminalClientConnection"), "disconnect"))]
    # where `_disconnect` deactivates: the statements from the pop to the first `if isinstance`
    dfn = find_method(class_def(tree, "Terminal"), "_disconnect")
    dstm = [ast.unparse(x) if not isinstance(x, ast.If) else "if " + ast.unparse(x.test) + ": " + "; ".join(ast.unparse(y) for y in x.body if not _is_log(y))
            for x in _body(dfn) if not _is_log(x)]
    dstm = [x for x in dstm if not x.startswith("if isinstance(")]
    cls_default = [f"{c.name}.is_active = {ast.unparse(st.value)}" for c in ast.walk(tree) if isinstance(c, ast.ClassDef)
                   for st in c.body if isinstance(st, ast.AnnAssign) and ast.unparse(st.target) == "is_active" and st.value is not None]
    writes = list(ACTIVE_WRITES)
    lm = sorted({x for x in lm if x.startswith(("return", "?"))})
    rm = sorted({x for x in rm if x.startswith(("return", "?"))})
    return f"""/-- `LocalTerminalConnection.execute` refuses (answers `None`) — translated from its guard clauses; `loc` = uuid of the node's
current local session, `cid` = `self.connection_uuid` -/
def localExecuteRefuses (running active : Bool) (loc : Option Nat) (cid : Nat) : Bool := {lr}
def localExecuteRest : List String := {_lean_list(lm)}
/-- `RemoteTerminalConnection.execute` refuses before sending -/
def remoteExecuteRefuses (running active : Bool) : Bool := {rr}
def remoteExecuteRest : List String := {_lean_list(rm)}
def remoteExecutePacket : List (String × String) := {_lean_pairs(packet)}
def connectionDisconnect : List String := {_lean_list(disc)}
def terminalDisconnectHead : List String := {_lean_list(dstm)}
/-- class-level defaults of `is_active` and every assignment to it anywhere in the package -/
def isActiveDefaults : List String := {_lean_list(cls_default)}
def isActiveWrites : List String := {_lean_list(sorted(writes))}
"""


def _package_inventory():
    """Over every module of the package: (a) writes to an account field / to a `users` mapping outside class UserManager,
    (b) calls of the account-editing methods outside class UserManager, (c) writes to `last_active_step`,
    (d) the user-manager / user-session-manager request names that agent actions build."""
    field_writes, editor_calls, clock_writes, action_reqs = [], [], [], []
    del ACTIVE_WRITES[:]
    for f in sorted(SRC.rglob("*.py")):
        rel = str(f.relative_to(SRC))
        try:
            tree = ast.parse(f.read_text())
        except SyntaxError as e:  # pragma: no cover
            raise ValueError(f"{rel}: {e}")

        def on(node, stack, rel=rel):
            in_um = "UserManager" in stack
            for t in _targets(node):
                if isinstance(t, ast.Attribute) and t.attr == "last_active_step":
                    clock_writes.append(f"{rel}:{_qual(stack)}: {ast.unparse(node)}")
                if isinstance(t, ast.Attribute) and t.attr == "is_active":
                    ACTIVE_WRITES.append(f"{rel}:{_qual(stack)}: {ast.unparse(node)}")
                if in_um:
                    continue
                if isinstance(t, ast.Attribute) and t.attr in _ACCOUNT_FIELDS and not isinstance(t.value, ast.Name) or \
                        isinstance(t, ast.Attribute) and t.attr in ("disabled", "is_admin") or \
                        isinstance(t, ast.Subscript) and ast.unparse(t.value).endswith(".users") or \
                        isinstance(t, ast.Attribute) and t.attr == "users" and not (stack and stack[-1] in ("__init__",)):
                    field_writes.append(f"{rel}:{_qual(stack)}: {ast.unparse(node)}")
            if isinstance(node, ast.Call) and isinstance(node.func, ast.Attribute):
                if node.func.attr in _ACCOUNT_EDITORS and not in_um:
                    editor_calls.append(f"{rel}:{_qual(stack)}: {ast.unparse(node)}")
                if node.func.attr in _DICT_MUTATORS and ast.unparse(node.func.value).endswith(".users") and not in_um:
                    field_writes.append(f"{rel}:{_qual(stack)}: {ast.unparse(node)}")
            if rel.startswith("game/agent/actions/") and isinstance(node, ast.List):
                el = [e.value if isinstance(e, ast.Constant) else None for e in node.elts]
                for svc in ("user-manager", "user-session-manager"):
                    if svc in el and el.index(svc) + 1 < len(el) and isinstance(el[el.index(svc) + 1], str):
                        action_reqs.append(f"{svc}:{el[el.index(svc) + 1]}")
        _Walk(on).visit(tree)
    return field_writes, editor_calls, clock_writes, sorted(set(action_reqs))


def _lean_list(xs: List[str]) -> str:
    return "[" + ", ".join('"' + " ".join(x.replace('"', '\\"').split()) + '"' for x in xs) + "]"


def _b(x: bool) -> str:
    return "true" if x else "false"


def _q(x: str) -> str:
    return '"' + x.replace("\\", "\\\\").replace('"', '\\"') + '"'


def _lean_pairs(xs) -> str:
    return "[" + ", ".join(f"({_q(a)}, {_q(b)})" for a, b in xs) + "]"


def emit() -> str:
    base = parse(BASE)
    usm = class_def(base, "UserSessionManager")
    um = class_def(base, "UserManager")
    svc_tree = parse(SVC)
    svc = class_def(svc_tree, "Service")
    term = class_def(parse(TERM), "Terminal")

    # ---- defaults
    lto = _default(usm, "local_session_timeout_steps")
    rto = _default(usm, "remote_session_timeout_steps")
    mx = _default(usm, "max_remote_sessions")
    rd = _default(svc, "restart_duration")

    # ---- enum ServiceOperatingState
    sos = class_def(svc_tree, "ServiceOperatingState")
    states = []
    for st in sos.body:
        if isinstance(st, ast.Assign) and isinstance(st.value, ast.Constant) and isinstance(st.value.value, int):
            states.append((st.targets[0].id, st.value.value))
    if not states:
        raise ValueError("ServiceOperatingState members not found")

    # ---- time-out comparisons and the limit comparison
    pre = find_method(usm, "pre_timestep")
    lcmp = _timeout_cmp(pre, "self.local_session.last_active_step + self.local_session_timeout_steps")
    rcmp = _timeout_cmp(pre, "remote_session.last_active_step + self.remote_session_timeout_steps")
    sets_now = any(isinstance(s, ast.Assign) and ast.unparse(s) == "self.current_timestep = timestep" for s in _body(pre))
    lim = find_method(usm, "remote_session_limit_reached")
    r = _body(lim)[0]
    # (informational since round 7c: the method is TRANSLATED in session_tr.py and proved equal to the model's test, so another shape
    # no longer raises here)
    if (isinstance(r, ast.Return) and isinstance(r.value, ast.Compare) and ast.unparse(r.value.left) == "len(self.remote_sessions)"
            and ast.unparse(r.value.comparators[0]) == "self.max_remote_sessions"):
        limcmp = _CMP.get(type(r.value.ops[0]), "?")
    else:
        limcmp = "?"
    val = _body(find_method(usm, "validate_remote_session_uuid"))[0]
    validate_is_membership = isinstance(val, ast.Return) and ast.unparse(val.value) == "remote_session_id in self.remote_sessions"

    timeout_tests = _timeout_tests(pre)
    tos0 = find_method(usm, "_timeout_session")
    kind_test = [ast.unparse(n.test) for n in ast.walk(tos0) if isinstance(n, ast.If)]
    # the helper methods pre_timestep calls on self (a time-out decision hidden in a helper changes this list)
    pre_calls = sorted({ast.unparse(n.func) for n in ast.walk(pre) if isinstance(n, ast.Call) and ast.unparse(n.func).startswith("self.")})

    # ---- _timeout_session tolerates a missing terminal connection
    tos = find_method(usm, "_timeout_session")
    pops = [ast.unparse(n) for n in ast.walk(tos) if isinstance(n, ast.Call) and ast.unparse(n.func).endswith("_connections.pop")]
    # (no raise when the shape changed: the obligations below fail and the rig still searches for a failing input)
    timeout_tolerant = pops == ["self.parent.terminal._connections.pop(session.uuid, None)"]

    def _flat(stmts):
        out = []
        for x in stmts:
            if isinstance(x, ast.Expr) and ast.unparse(x).startswith("self.sys_log"):
                continue
            if isinstance(x, ast.If):
                out.append("if " + ast.unparse(x.test) + ":")
                out += ["  " + y for y in _flat(x.body)]
                if x.orelse:
                    out.append("else:")
                    out += ["  " + y for y in _flat(x.orelse)]
            elif isinstance(x, ast.For):
                out.append("for " + ast.unparse(x.target) + " in " + ast.unparse(x.iter) + ":")
                out += ["  " + y for y in _flat(x.body)]
            else:
                out.append(ast.unparse(x))
        return out
    timeout_body = _flat(_body(tos))
    timeout_calls = sorted({ast.unparse(n.func) for n in ast.walk(tos) if isinstance(n, ast.Call)})
    pre_body = _flat(_body(pre))
    node_pre = _flat(_body(find_method(class_def(base, "Node"), "pre_timestep")))
    logout_calls = []
    for fn in usm.body:
        if isinstance(fn, ast.FunctionDef):
            for n in ast.walk(fn):
                if isinstance(n, ast.Call) and ast.unparse(n.func) in ("self._logout", "self.local_logout", "self.remote_logout"):
                    logout_calls.append(f"{fn.name}: {ast.unparse(n)}")

    # ---- authenticate_user
    auth = find_method(um, "authenticate_user")
    auth_guard = _guarded_by_can_perform(auth, "None")
    ab = _body(auth)
    # informational since round 7c (authenticate_user, _login, disable_user, _is_last_admin are TRANSLATED in session_tr.py and proved
    # equal to the model's tests: C16_gen_login_guards, C16_gen_disable_user); another shape gives empty values, never an exception
    if len(ab) > 2 and ast.unparse(ab[1]) == "user = self.users.get(username)" and isinstance(ab[2], ast.If):
        auth_terms = _and_terms(ab[2].test)
        auth_returns_user = any(isinstance(s, ast.Return) and ast.unparse(s.value) == "user" for s in ab[2].body)
        auth_else_none = isinstance(ab[-1], ast.Return) and ast.unparse(ab[-1].value) == "None"
    else:
        auth_terms, auth_returns_user, auth_else_none = [], False, False

    # ---- change_user_password
    chp = find_method(um, "change_user_password")
    chp_guard = _guarded_by_can_perform(chp, "False")
    cb = _body(chp)
    if not (ast.unparse(cb[1]) == "user = self.users.get(username)" and isinstance(cb[2], ast.If)):
        raise ValueError("change_user_password: unrecognised shape")
    chp_terms = _and_terms(cb[2].test)
    chp_body = [ast.unparse(s) for s in cb[2].body]
    chp_logs_out = "self._user_session_manager._logout_user(user=user)" in chp_body and "user.password = new_password" in chp_body

    # ---- _logout_user: no `return` inside the loop over remote sessions; forced logouts
    lou = find_method(usm, "_logout_user")
    loops = [n for n in ast.walk(lou) if isinstance(n, ast.For)]
    if len(loops) != 1:
        raise ValueError("_logout_user: expected one for-loop")
    returns_in_loop = any(isinstance(n, ast.Return) for n in ast.walk(loops[0]))
    iter_is_snapshot = isinstance(loops[0].iter, ast.ListComp) and "session.user is user" in ast.unparse(loops[0].iter)
    calls = [ast.unparse(n) for n in ast.walk(lou) if isinstance(n, ast.Call) and ast.unparse(n.func) == "self._logout"]
    forced = sorted(calls) == sorted(["self._logout(local=False, remote_session_id=sess_id, force=True)",
                                      "self._logout(local=True, force=True)"])
    lo = find_method(usm, "_logout")
    st0 = _body(lo)[0]
    logout_guard = (isinstance(st0, ast.If) and ast.unparse(st0.test) == "not force and (not self._can_perform_action())"
                    and ast.unparse(st0.body[0]) == "return False")

    # ---- last admin
    ila = _body(find_method(um, "_is_last_admin"))[0]
    last_admin_test = ast.unparse(ila.value) if isinstance(ila, ast.Return) else ""
    admins = _body(find_method(um, "admins"))[0]
    admins_expr = ast.unparse(admins.value) if isinstance(admins, ast.Return) else ""
    dis = find_method(um, "disable_user")
    dis_guard = _guarded_by_can_perform(dis, "False")
    db = _body(dis)
    dis_ok = False
    if len(db) > 1 and isinstance(db[1], ast.If) and ast.unparse(db[1].test) == "username in self.users and (not self.users[username].disabled)" \
            and len(db[1].body) > 1:
        inner = db[1].body
        if (isinstance(inner[0], ast.If) and ast.unparse(inner[0].test) == "self._is_last_admin(username)"
                and isinstance(inner[0].body[-1], ast.Return) and ast.unparse(inner[0].body[-1].value) == "False"
                and ast.unparse(inner[1]) == "self.users[username].disabled = True"):
            dis_ok = True
    # users are only ever added / flagged: no deletion from self.users anywhere in UserManager
    deletes = [ast.unparse(n) for n in ast.walk(um)
               if (isinstance(n, ast.Delete) or (isinstance(n, ast.Call) and ast.unparse(n.func) in ("self.users.pop", "self.users.clear")))]

    # ---- _login
    lg = find_method(usm, "_login")
    lg_guard = _guarded_by_can_perform(lg, "None")
    lgb = _body(lg)
    lg_auth = len(lgb) > 1 and ast.unparse(lgb[1]) == "user = self._user_manager.authenticate_user(username=username, password=password)"
    lg_reject = len(lgb) > 2 and isinstance(lgb[2], ast.If) and ast.unparse(lgb[2].test) == "not user" and ast.unparse(lgb[2].body[-1]) == "return None"
    lg_limit = any(isinstance(n, ast.If) and ast.unparse(n.test) == "not self.remote_session_limit_reached" for n in ast.walk(lg))

    # ---- direct requests of the session manager, enable_user, zero-duration power changes
    uirm = find_method(usm, "_init_request_manager")
    rl = next((n for n in ast.walk(uirm) if isinstance(n, ast.FunctionDef) and n.name == "_remote_login"), None)
    if rl is None:
        raise ValueError("UserSessionManager._init_request_manager: _remote_login not found")
    usm_login_bool = any(isinstance(n, ast.Assign) and ast.unparse(n) ==
                         "response = RequestResponse.from_bool(self.remote_login(username, password, remote_ip_address) is not None)"
                         for n in ast.walk(rl))
    usm_reqs = {}
    for n in ast.walk(uirm):
        if isinstance(n, ast.Call) and ast.unparse(n.func) == "rm.add_request":
            kw = {k.arg: k.value for k in n.args[1].keywords}
            usm_reqs[n.args[0].value] = ast.unparse(kw["func"])
    if sorted(usm_reqs) != ["remote_login", "remote_logout"]:
        raise ValueError(f"UserSessionManager requests changed: {sorted(usm_reqs)}")
    usm_logout_handler = usm_reqs["remote_logout"] == \
        "lambda request, context: RequestResponse.from_bool(self.remote_logout(remote_session_id=request[0]))"
    lo_pops = [ast.unparse(n) for n in ast.walk(lo) if isinstance(n, ast.Call) and ast.unparse(n.func) == "self.remote_sessions.pop"]
    logout_pop_tolerant = lo_pops == ["self.remote_sessions.pop(remote_session_id, None)"]
    lo_disc_first = False
    for n in ast.walk(lo):
        if isinstance(n, ast.If) and ast.unparse(n.test) == "not local and remote_session_id":
            body = [ast.unparse(x) for x in n.body]
            lo_disc_first = body == ["self.parent.terminal._disconnect(remote_session_id)",
                                     "session = self.remote_sessions.pop(remote_session_id, None)"]
    um_methods = [f.name for f in um.body if isinstance(f, ast.FunctionDef)]
    um_writes = _um_writes(um)
    add = find_method(um, "add_user")
    add_refuses_existing = any(isinstance(n, ast.If) and ast.unparse(n.test) == "username in self.users"
                               and isinstance(n.body[-1], ast.Return) and ast.unparse(n.body[-1].value) == "False"
                               for n in _body(add))
    add_order = [i for i, n in enumerate(_body(add))
                 if (isinstance(n, ast.If) and ast.unparse(n.test) == "username in self.users") or ast.unparse(n) == "self.users[username] = user"]
    add_refuses_before_write = add_refuses_existing and len(add_order) == 2 and add_order[0] < add_order[1]
    field_writes, editor_calls, clock_writes, action_reqs = _package_inventory()
    install_body = [ast.unparse(x) for x in _body(find_method(um, "install"))]
    g0 = _body(add)[0]
    add_guard = ast.unparse(g0.test) if isinstance(g0, ast.If) and ast.unparse(g0.body[-1]) == "return False" else "?"
    create_clocks = []
    for cname in ("UserSession", "RemoteUserSession"):
        cr = find_method(class_def(base, cname), "create")
        rets = [ast.unparse(n.value) for n in ast.walk(cr) if isinstance(n, ast.Return)]
        create_clocks += [f"{cname}.create: {r}" for r in rets]
    remote_is_sub = [ast.unparse(b) for b in class_def(base, "RemoteUserSession").bases] == ["UserSession"]
    user_cls = class_def(base, "User")
    user_fields = [(ast.unparse(st.target), ast.unparse(st.value) if st.value is not None else "-")
                   for st in user_cls.body if isinstance(st, ast.AnnAssign)]
    um_reqs = []
    for n in ast.walk(find_method(um, "_init_request_manager")):
        if isinstance(n, ast.Call) and ast.unparse(n.func) == "rm.add_request":
            um_reqs.append(n.args[0].value)
    en = _body(find_method(um, "enable_user"))
    enable_shape = (isinstance(en[0], ast.If) and ast.unparse(en[0].test) == "username in self.users and self.users[username].disabled"
                    and ast.unparse(en[0].body[0]) == "self.users[username].disabled = False"
                    and ast.unparse(en[0].body[-1]) == "return True" and ast.unparse(en[-1]) == "return False")
    node = class_def(base, "Node")
    # the node-level requests named like a login: handlers as written
    node_login_reqs = []
    for n in ast.walk(find_method(node, "_init_request_manager")):
        if isinstance(n, ast.Call) and ast.unparse(n.func) == "rm.add_request" and isinstance(n.args[0], ast.Constant) \
                and ("log" in str(n.args[0].value) or "user" in str(n.args[0].value) or "session" in str(n.args[0].value)):
            rt = n.args[1]
            kw = {k.arg: k.value for k in rt.keywords} if isinstance(rt, ast.Call) else {}
            f = kw.get("func")
            node_login_reqs.append((n.args[0].value, ast.unparse(f.body) if isinstance(f, ast.Lambda) else ast.unparse(f) if f else "?"))

    def _zero_branch(meth: str, test: str) -> List[str]:
        st = _body(find_method(node, meth))[0]
        if not (isinstance(st, ast.If) and ast.unparse(st.test) == test):
            raise ValueError(f"Node.{meth}: first statement is not `if {test}`")
        out = []
        for x in st.body:
            if isinstance(x, ast.Expr) and ast.unparse(x).startswith("self.sys_log"):
                continue
            if isinstance(x, ast.For):
                out.append("for: " + "; ".join(ast.unparse(y) for y in x.body))
            elif isinstance(x, ast.If):
                out.append("if " + ast.unparse(x.test) + ": " + "; ".join(ast.unparse(y) for y in x.body))
            else:
                out.append(ast.unparse(x))
        return out
    off0 = _zero_branch("power_off", "self.config.shut_down_duration <= 0")
    on0 = _zero_branch("power_on", "self.config.start_up_duration <= 0")

    # ---- Terminal: command execution is guarded by the session check
    recv = find_method(term, "receive")
    guarded_exec = False
    exec_calls = 0
    for n in ast.walk(recv):
        if isinstance(n, ast.Call) and ast.unparse(n.func) == "self.execute":
            exec_calls += 1
    for n in ast.walk(recv):
        if isinstance(n, ast.If) and ast.unparse(n.test) == "valid_connection":
            inside = sum(1 for m in ast.walk(ast.Module(body=n.body, type_ignores=[]))
                         if isinstance(m, ast.Call) and ast.unparse(m.func) == "self.execute")
            guarded_exec = inside == exec_calls == 1
    assigns = [ast.unparse(n) for n in ast.walk(recv) if isinstance(n, ast.Assign)]
    check_assign = "valid_connection = self._check_client_connection(payload.connection_uuid)" in assigns
    ccc = _body(find_method(term, "_check_client_connection"))
    ccc_ok = (isinstance(ccc[0], ast.If)
              and ast.unparse(ccc[0].test) == "not self.parent.user_session_manager.validate_remote_session_uuid(connection_id)"
              and ast.unparse(ccc[0].body[-1]) == "return False"
              and ast.unparse(ccc[1]) == "return connection_id in self._connections")

    # ---- Terminal: send_remote_command clears the previous response and answers failure when nothing came back
    irm = find_method(term, "_init_request_manager")
    rer = next((n for n in ast.walk(irm) if isinstance(n, ast.FunctionDef) and n.name == "remote_execute_request"), None)
    if rer is None:
        raise ValueError("remote_execute_request not found")
    cond = next((n for n in rer.body if isinstance(n, ast.If) and ast.unparse(n.test) == "remote_connection"), None)
    if cond is None:
        raise ValueError("remote_execute_request: `if remote_connection:` not found")
    cb2 = [ast.unparse(s) for s in cond.body]
    clears = (len(cb2) >= 2 and cb2[0] == "self._last_response = None" and cb2[1] == "remote_connection.execute(command)")
    answers_failure = any(isinstance(s, ast.If) and ast.unparse(s.test) == "self.last_response is not None" for s in cond.body) and \
        isinstance(cond.body[-1], ast.Return) and "status='failure'" in ast.unparse(cond.body[-1])

    # ---- service verbs and their validators
    sirm = find_method(svc, "_init_request_manager")
    vnames = {}
    for n in _body(sirm):
        if isinstance(n, ast.Assign) and isinstance(n.value, ast.Call) and ast.unparse(n.value.func) == "Service._StateValidator":
            kw = {k.arg: ast.unparse(k.value) for k in n.value.keywords}
            vnames[n.targets[0].id] = kw["state"].split(".")[-1]
    verbs = []
    for n in ast.walk(sirm):
        if isinstance(n, ast.Call) and ast.unparse(n.func) == "rm.add_request":
            name = n.args[0].value
            rt = n.args[1]
            kw = {k.arg: k.value for k in rt.keywords}
            lam = kw["func"]
            if not (isinstance(lam, ast.Lambda) and isinstance(lam.body, ast.Call) and ast.unparse(lam.body.func) == "RequestResponse.from_bool"):
                raise ValueError(f"service request {name}: unrecognised handler")
            meth = ast.unparse(lam.body.args[0])
            v = vnames[kw["validator"].id] if "validator" in kw else "-"
            verbs.append((name, meth, v))
    # the state test inside each lifecycle method
    def _states_tested(meth: str) -> List[str]:
        f = find_method(svc, meth)
        for n in ast.walk(f):
            if isinstance(n, ast.If) and isinstance(n.test, ast.Compare) and ast.unparse(n.test.left) == "self.operating_state":
                return sorted(x.split(".")[-1].strip("[] ") for x in ast.unparse(n.test.comparators[0]).strip("[]").split(","))
        return []
    tested = {m: _states_tested(m) for m in ("stop", "start", "pause", "resume", "restart", "enable", "disable")}
    at = find_method(svc, "apply_timestep")
    restart_test = next((ast.unparse(n.test) for n in ast.walk(at) if isinstance(n, ast.If) and "restart_countdown" in ast.unparse(n.test)), "")

    # ---- HostNode.receive_frame: frames for closed ports are dropped
    hn = class_def(parse(HOST), "HostNode")
    rf = find_method(hn, "receive_frame")
    port_gate = any(isinstance(n, ast.If) and "dst_port in self.software_manager.get_open_ports()" in ast.unparse(n.test) for n in ast.walk(rf))

    # ---- the local command path, statement by statement: every entry point hands the supplied credentials to `_login`, whose result
    # is the only credential check; `_login` authenticates before it looks at the current local session
    def _stmts(fn):
        out = []
        for x in _body(fn):
            if isinstance(x, ast.Expr) and ast.unparse(x).startswith(("self.sys_log", "_LOGGER")):
                continue
            if isinstance(x, ast.If):
                out.append("if " + ast.unparse(x.test) + ": " + "; ".join(ast.unparse(y) for y in x.body if not ast.unparse(y).startswith("self.sys_log"))
                           + (" else: " + "; ".join(ast.unparse(y) for y in x.orelse if not ast.unparse(y).startswith("self.sys_log")) if x.orelse else ""))
            else:
                out.append(ast.unparse(x))
        return out
    ler = next((n for n in ast.walk(irm) if isinstance(n, ast.FunctionDef) and n.name == "local_execute_request"), None)
    if ler is None:
        raise ValueError("local_execute_request not found")
    local_handler = [x for x in _stmts(ler) if not x.startswith("return")]
    process_local = _stmts(find_method(term, "_process_local_login"))
    node_local_login = _stmts(find_method(node, "local_login"))
    usm_local_login = _stmts(find_method(usm, "local_login"))
    term_login = _stmts(find_method(term, "login"))
    # in `_login`: the positions of the first read of `self.local_session` and of the authenticate call
    first_local_read = min((n.lineno for n in ast.walk(lg) if isinstance(n, ast.Attribute) and ast.unparse(n) == "self.local_session"), default=0)
    auth_line = min((n.lineno for n in ast.walk(lg) if isinstance(n, ast.Call) and ast.unparse(n.func).endswith("authenticate_user")), default=10 ** 9)
    rejects = [n.lineno for n in ast.walk(lg) if isinstance(n, ast.If) and ast.unparse(n.test) == "not user"]
    login_auth_first = bool(rejects) and auth_line < rejects[0] < first_local_read
    login_returns = sorted({ast.unparse(n.value) if n.value is not None else "None" for n in ast.walk(lg) if isinstance(n, ast.Return)})

    # ---- Router: ARP frames are exempt from the ACL; a router that is not ON drops every frame before anything else
    rt = class_def(parse(ROUTER), "Router")
    sta = _body(find_method(rt, "subject_to_acl"))
    arp_exempt = [ast.unparse(x.test) + " -> " + "; ".join(ast.unparse(y) for y in x.body) if isinstance(x, ast.If) else ast.unparse(x)
                  for x in sta]
    rrf = _body(find_method(rt, "receive_frame"))
    router_off_drops = (isinstance(rrf[0], ast.If) and ast.unparse(rrf[0].test) == "self.operating_state != NodeOperatingState.ON"
                        and ast.unparse(rrf[0].body[0]) == "return")

    verbs_lean = "[" + ", ".join(f'("{a}", "{b}", "{c}")' for a, b, c in verbs) + "]"
    tested_lean = "[" + ", ".join(f'("{m}", {_lean_list(v)})' for m, v in tested.items()) + "]"
    states_lean = "[" + ", ".join(f'("{a}", {b})' for a, b in states) + "]"
    return f"""namespace Primaite.Gen.Session
def localTimeoutDefault : Nat := {lto}
def remoteTimeoutDefault : Nat := {rto}
def maxRemoteDefault : Nat := {mx}
def restartDurationDefault : Nat := {rd}
/-- ServiceOperatingState members -/
def svcStates : List (String × Nat) := {states_lean}
/-- `last_active_step + timeout <cmp> timestep` in `pre_timestep` -/
def localTimeoutCmp : String := "{lcmp}"
def remoteTimeoutCmp : String := "{rcmp}"
def preTimestepSetsCurrent : Bool := {_b(sets_now)}
/-- `UserSessionManager._timeout_session`, statement by statement (log lines dropped): the time-out edits the session tables itself —
no `_logout`, no `_can_perform_action` -/
def timeoutSessionBody : List String := {_lean_list(timeout_body)}
def timeoutSessionCalls : List String := {_lean_list(timeout_calls)}
/-- `UserSessionManager.pre_timestep`, statement by statement -/
def preTimestepBody : List String := {_lean_list(pre_body)}
/-- `Node.pre_timestep`: every service gets its `pre_timestep`, whatever the node's or the service's state -/
def nodePreTimestep : List String := {_lean_list(node_pre)}
/-- every call of `_logout` / `local_logout` / `remote_logout` inside UserSessionManager: `method: call` -/
def logoutCalls : List String := {_lean_list(logout_calls)}
/-- every time-out decision of `pre_timestep`, in source order: (test, body) -/
def preTimestepTimeoutTests : List (String × String) := {_lean_pairs(timeout_tests)}
/-- the `if` tests of `_timeout_session` (which kind of session is being ended) -/
def timeoutSessionTests : List String := {_lean_list(kind_test)}
/-- methods of `self` that `pre_timestep` calls -/
def preTimestepSelfCalls : List String := {_lean_list(pre_calls)}
/-- every assignment to a `last_active_step` attribute anywhere in the package (`file:scope: statement`) -/
def lastActiveStepWrites : List String := {_lean_list(clock_writes)}
/-- `len(remote_sessions) <cmp> max_remote_sessions` in `remote_session_limit_reached` -/
def limitCmp : String := "{limcmp}"
def validateIsMembership : Bool := {_b(validate_is_membership)}
def timeoutToleratesMissingConnection : Bool := {_b(timeout_tolerant)}
def authGuarded : Bool := {_b(auth_guard)}
def authTest : List String := {_lean_list(auth_terms)}
def authReturnsUserElseNone : Bool := {_b(auth_returns_user and auth_else_none)}
def chpwGuarded : Bool := {_b(chp_guard)}
def chpwTest : List String := {_lean_list(chp_terms)}
def chpwSetsPasswordAndLogsOut : Bool := {_b(chp_logs_out)}
def logoutUserReturnsInsideLoop : Bool := {_b(returns_in_loop)}
def logoutUserIteratesSnapshotOfUsersSessions : Bool := {_b(iter_is_snapshot)}
def logoutUserForced : Bool := {_b(forced)}
def logoutGuardSkippedOnlyWhenForced : Bool := {_b(logout_guard)}
def lastAdminTest : String := "{last_admin_test}"
def adminsExpr : String := "{admins_expr}"
def disableGuarded : Bool := {_b(dis_guard)}
def disableRefusesLastAdmin : Bool := {_b(dis_ok)}
def userDeletions : List String := {_lean_list(deletes)}
def usmLoginAnswersBool : Bool := {_b(usm_login_bool)}
def usmLogoutHandler : Bool := {_b(usm_logout_handler)}
def logoutPopTolerant : Bool := {_b(logout_pop_tolerant)}
def logoutDisconnectsThenPops : Bool := {_b(lo_disc_first)}
/-- every method of UserManager, in source order -/
def userManagerMethods : List String := {_lean_list(um_methods)}
/-- every statement inside UserManager that writes to an attribute / subscript or mutates `users`: (method, statement) -/
def userManagerWrites : List (String × String) := {_lean_pairs(um_writes)}
def addUserRefusesExistingNameBeforeWriting : Bool := {_b(add_refuses_before_write)}
/-- requests registered on the Node itself whose name mentions log / user / session, with their handler bodies -/
def nodeLoginRequests : List (String × String) := {_lean_pairs(node_login_reqs)}
def installBody : List String := {_lean_list(install_body)}
/-- the test of the guard `if …: return False` that opens add_user -/
def addUserGuard : String := {_q(add_guard)}
/-- what the two `create` class methods return (where a session's clock starts) -/
def sessionCreateClocks : List String := {_lean_list(create_clocks)}
def remoteSessionIsSubclassOfUserSession : Bool := {_b(remote_is_sub)}
/-- the fields of class User with their defaults -/
def userFields : List (String × String) := {_lean_pairs(user_fields)}
/-- writes to an account field or to a `users` mapping anywhere in the package outside class UserManager -/
def accountWritesElsewhere : List String := {_lean_list(field_writes)}
/-- calls of add_user / disable_user / enable_user / change_user_password anywhere in the package outside class UserManager -/
def accountEditorCallsElsewhere : List String := {_lean_list(editor_calls)}
/-- the user-manager / user-session-manager requests that agent actions build -/
def actionAccountRequests : List String := {_lean_list(action_reqs)}
/-- requests registered by UserManager (enable_user is not among them: Python API only) -/
def userManagerRequests : List String := {_lean_list(um_reqs)}
def enableUserShape : Bool := {_b(enable_shape)}
/-- the zero-duration branches of Node.power_off / Node.power_on, statement by statement (log lines dropped) -/
def powerOffZero : List String := {_lean_list(off0)}
def powerOnZero : List String := {_lean_list(on0)}
def loginGuarded : Bool := {_b(lg_guard)}
def loginAuthenticates : Bool := {_b(lg_auth and lg_reject)}
def loginChecksLimit : Bool := {_b(lg_limit)}
def executeOnlyUnderValidConnection : Bool := {_b(guarded_exec and check_assign)}
def checkClientConnectionShape : Bool := {_b(ccc_ok)}
def remoteCommandClearsLastResponse : Bool := {_b(clears)}
def remoteCommandAnswersFailureWithoutResponse : Bool := {_b(answers_failure)}
/-- (request name, method, required state or "-") from Service._init_request_manager -/
def serviceVerbs : List (String × String × String) := {verbs_lean}
/-- states accepted inside each lifecycle method (sorted) -/
def methodStates : List (String × List String) := {tested_lean}
def restartFinishTest : String := "{restart_test}"
/-- `Terminal.local_execute_request` (handler of send_local_command) without its return statements -/
def localCommandHandler : List String := {_lean_list(local_handler)}
def processLocalLogin : List String := {_lean_list(process_local)}
def nodeLocalLogin : List String := {_lean_list(node_local_login)}
def usmLocalLogin : List String := {_lean_list(usm_local_login)}
def terminalLogin : List String := {_lean_list(term_login)}
/-- in `_login`: `authenticate_user` is called, then `if not user: return None`, and only then `self.local_session` is read -/
def loginAuthenticatesBeforeLookingAtTheLocalSession : Bool := {_b(login_auth_first)}
def loginReturnValues : List String := {_lean_list(login_returns)}
/-- `Router.subject_to_acl`, statement by statement -/
def routerSubjectToAcl : List String := {_lean_list(arp_exempt)}
def routerOffDropsEveryFrame : Bool := {_b(router_off_drops)}
def hostDropsFramesForClosedPorts : Bool := {_b(port_gate)}
{_handle_gen()}end Primaite.Gen.Session
"""
