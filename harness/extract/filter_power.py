"""Extractor for C06's power programs: translates, statement by statement, the bodies of `Node.power_on`, `Node.power_off`,
`Node.reset`, the two countdown blocks of `Node.apply_timestep`, `Node._start_up_actions`, `Node._shut_down_actions`
(src/primaite/simulator/network/hardware/base.py) into the statement language of Model/FilterPower.lean, and the guards of
`WiredNetworkInterface.enable` / `.disable` (+ the wireless ones) into a guard list.  Pure `ast`; never imports primaite.

The comparison is on MEANING-BEARING statements: docstrings, `sys_log` / `_LOGGER` calls and `pass` are dropped; `==` / `is` on
the enum are the same test; the interface loop may run over `network_interfaces` or `network_interface`, `.values()` or `.items()`;
a call of another method of the node is inlined (`scope`).  Anything that is not recognised raises: an unknown statement in one
of these methods could be exactly the statement that leaves an interface up."""
import ast
from typing import List

from harness.extract.util import class_def, find_method, parse

GEN_NAME = "FilterPower"
BASE = "simulator/network/hardware/base.py"
AIR = "simulator/network/airspace.py"

STATES = {"ON": ".on", "OFF": ".off", "BOOTING": ".booting", "SHUTTING_DOWN": ".shuttingDown"}
INLINE = {"power_on", "power_off", "_start_up_actions", "_shut_down_actions"}
SOFT = {("services", "start"): ".svcStart", ("services", "stop"): ".svcStop", ("applications", "run"): ".appRun",
        ("applications", "close"): ".appClose"}


# classes whose method may be called unbound on a member of the node's collection (`Application.run(self.applications[x])`)
UNBOUND_BASES = {"Application", "Service", "NetworkInterface", "WiredNetworkInterface"}


class Unrecognised(Exception):
    pass


def _u(e: ast.AST) -> str:
    return ast.unparse(e)


def _state(e: ast.AST) -> str:
    s = _u(e)
    if s.startswith("NodeOperatingState.") and s.split(".", 1)[1] in STATES:
        return STATES[s.split(".", 1)[1]]
    raise Unrecognised("operating state " + s)


def _cond(t: ast.AST) -> str:
    s = _u(t)
    table = {"self.config.start_up_duration <= 0": ".upDurLe0", "self.config.shut_down_duration <= 0": ".downDurLe0",
             "self.config.start_up_countdown > 0": ".upCdPos", "self.config.shut_down_countdown > 0": ".downCdPos",
             "self.config.is_resetting": ".resetting", "self.operating_state.ON": ".truthy"}
    if s in table:
        return table[s]
    if (isinstance(t, ast.Compare) and len(t.ops) == 1 and isinstance(t.ops[0], (ast.Eq, ast.Is))
            and _u(t.left) == "self.operating_state"):
        return f"(.stIs {_state(t.comparators[0])})"
    raise Unrecognised("test " + s)


def _is_log(st: ast.stmt) -> bool:
    if isinstance(st, ast.Pass):
        return True
    if isinstance(st, ast.Expr) and isinstance(st.value, ast.Constant) and isinstance(st.value.value, str):
        return True  # docstring
    if isinstance(st, ast.Expr) and isinstance(st.value, ast.Call):
        f = _u(st.value.func)
        return f.startswith("self.sys_log.") or f.startswith("_LOGGER.") or f.startswith("self._connected_node.sys_log.")
    return False


class Translator:
    def __init__(self, cls: ast.ClassDef):
        self.cls = cls
        self.stack: List[str] = []

    def method(self, name: str) -> str:
        if name in self.stack:
            raise Unrecognised("recursive call of " + name)
        self.stack.append(name)
        try:
            return self.block(find_method(self.cls, name).body)
        finally:
            self.stack.pop()

    def block(self, body: List[ast.stmt]) -> str:
        out = [self.stmt(s) for s in body if not _is_log(s)]
        if not out:
            return ".skip"
        return "(seqs [" + ", ".join(out) + "])"

    def stmt(self, st: ast.stmt) -> str:
        if isinstance(st, ast.Return):
            if isinstance(st.value, ast.Constant) and isinstance(st.value.value, bool):
                return f".ret {'true' if st.value.value else 'false'}"
            raise Unrecognised("return " + _u(st))
        if isinstance(st, ast.If):
            return f".ite {_cond(st.test)} {self.block(st.body)} {self.block(st.orelse)}"
        if isinstance(st, ast.Assign) and len(st.targets) == 1:
            t, v = _u(st.targets[0]), _u(st.value)
            if t == "self.operating_state":
                return f".setSt {_state(st.value)}"
            if (t, v) == ("self.config.start_up_countdown", "self.config.start_up_duration"):
                return ".armUp"
            if (t, v) == ("self.config.shut_down_countdown", "self.config.shut_down_duration"):
                return ".armDown"
            if t == "self.config.is_resetting" and v in ("True", "False"):
                return f".setResetting {v.lower()}"
        if isinstance(st, ast.AugAssign) and isinstance(st.op, ast.Sub) and _u(st.value) == "1":
            t = _u(st.target)
            if t == "self.config.start_up_countdown":
                return ".decUp"
            if t == "self.config.shut_down_countdown":
                return ".decDown"
        if isinstance(st, ast.For) and not st.orelse and len([s for s in st.body if not _is_log(s)]) == 1:
            inner = [s for s in st.body if not _is_log(s)][0]
            it = _u(st.iter)
            call = inner.value if isinstance(inner, ast.Expr) and isinstance(inner.value, ast.Call) else None
            # unbound-method form `Class.method(obj)` = `obj.method()` resolved at `Class` (no subclass override runs): for the model the
            # same hook statement - the base classes named here are the ones whose method the model's opaque software change stands for
            if call is not None and not call.keywords and len(call.args) == 1 and isinstance(call.func, ast.Attribute) \
                    and _u(call.func.value) in UNBOUND_BASES:
                call = ast.Call(func=ast.Attribute(value=call.args[0], attr=call.func.attr, ctx=ast.Load()), args=[], keywords=[])
            if call is not None and not call.args and not call.keywords:
                f = call.func
                if isinstance(f, ast.Attribute):
                    recv, verb = _u(f.value), f.attr
                    # every interface of the node: either dict, by value
                    if it in ("self.network_interfaces.values()", "self.network_interface.values()") and isinstance(st.target, ast.Name) \
                            and recv == st.target.id and verb in ("enable", "disable"):
                        return ".enableAll" if verb == "enable" else ".disableAll"
                    if it in ("self.network_interfaces.items()", "self.network_interface.items()") and isinstance(st.target, ast.Tuple) \
                            and len(st.target.elts) == 2 and recv == _u(st.target.elts[1]) and verb in ("enable", "disable"):
                        return ".enableAll" if verb == "enable" else ".disableAll"
                    for (coll, v), lean in SOFT.items():
                        if it == f"self.{coll}" and isinstance(st.target, ast.Name) and recv == f"self.{coll}[{st.target.id}]" and verb == v:
                            return f".soft {lean}"
        if isinstance(st, ast.Expr) and isinstance(st.value, ast.Call) and not st.value.args and not st.value.keywords:
            f = _u(st.value.func)
            if f.startswith("self.") and f[5:] in INLINE:
                return f".scope {self.method(f[5:])}"
        raise Unrecognised(f"statement in Node.{self.stack[-1] if self.stack else '?'}: {_u(st)[:120]}")


def _touches_power(node: ast.AST) -> bool:
    for n in ast.walk(node):
        if isinstance(n, ast.Attribute) and isinstance(n.ctx, ast.Store) and n.attr in ("operating_state", "enabled"):
            return True
        if isinstance(n, ast.Call) and isinstance(n.func, ast.Attribute) and n.func.attr in (
                "enable", "disable", "power_on", "power_off", "reset", "_start_up_actions", "_shut_down_actions", "enable_port"):
            return True
    return False


def _tick(tr: Translator):
    """`Node.apply_timestep`: super call, the interfaces' own timestep, the two countdown blocks (in source order), the ON-only
    software part, `return True`."""
    fn = find_method(tr.cls, "apply_timestep")
    blocks = {}
    order = []
    tr.stack.append("apply_timestep")
    for st in fn.body:
        if _is_log(st):
            continue
        s = _u(st)
        if isinstance(st, ast.Expr) and s.startswith("super().apply_timestep("):
            continue
        if isinstance(st, ast.For) and "apply_timestep" in s and not _touches_power(st):
            continue
        if isinstance(st, ast.Return):
            continue
        if isinstance(st, ast.If):
            t = _u(st.test)
            if t == "self.config.start_up_countdown > 0":
                blocks["up"] = tr.stmt(st)
                order.append("up")
                continue
            if t == "self.config.shut_down_countdown > 0":
                blocks["down"] = tr.stmt(st)
                order.append("down")
                continue
            if t in ("self.operating_state == NodeOperatingState.ON", "self.operating_state is NodeOperatingState.ON") and not _touches_power(st):
                continue
        raise Unrecognised("statement in Node.apply_timestep: " + s[:120])
    tr.stack.pop()
    if order != ["up", "down"]:
        raise Unrecognised(f"countdown blocks of Node.apply_timestep: {order}")
    return blocks["up"], blocks["down"]


def _enable_guards(rel: str, cls_name: str) -> List[str]:
    """the statements of `<cls>.enable` up to `self.enabled = True`: each must be a guard `if <test>: … return <b>`"""
    fn = find_method(class_def(parse(rel), cls_name), "enable")
    out = []
    for st in fn.body:
        if _is_log(st):
            continue
        if isinstance(st, ast.Assign) and _u(st.targets[0]) == "self.enabled" and _u(st.value) == "True":
            out.append("set:enabled")
            return out
        if isinstance(st, ast.If) and not st.orelse and isinstance([s for s in st.body if not _is_log(s)][-1], ast.Return) \
                and len([s for s in st.body if not _is_log(s)]) == 1:
            out.append("guard:" + _u(st.test))
            continue
        raise Unrecognised(f"statement in {cls_name}.enable before `self.enabled = True`: {_u(st)[:100]}")
    raise Unrecognised(f"{cls_name}.enable never sets self.enabled")


def _disable_sets(rel: str, cls_name: str) -> List[str]:
    fn = find_method(class_def(parse(rel), cls_name), "disable")
    out = []
    for st in fn.body:
        if _is_log(st):
            continue
        if isinstance(st, ast.Assign) and _u(st.targets[0]) == "self.enabled" and _u(st.value) == "False":
            out.append("set:disabled")
            return out
        if isinstance(st, ast.If) and not st.orelse:
            out.append("guard:" + _u(st.test))
            continue
        raise Unrecognised(f"statement in {cls_name}.disable before `self.enabled = False`: {_u(st)[:100]}")
    raise Unrecognised(f"{cls_name}.disable never clears self.enabled")


def _norm_body(fn: ast.FunctionDef) -> List[str]:
    """meaning-bearing statements of a method, logging dropped (recursively), unparsed"""
    class Strip(ast.NodeTransformer):
        def generic_visit(self, node):
            super().generic_visit(node)
            for f in ("body", "orelse"):
                b = getattr(node, f, None)
                if isinstance(b, list):
                    kept = [x for x in b if not _is_log(x)]
                    setattr(node, f, kept or ([ast.Pass()] if f == "body" else []))
            return node
    tree = Strip().visit(ast.parse(ast.unparse(fn)))
    return [ast.unparse(x) for x in tree.body[0].body if not _is_log(x)]


def _wireless() -> tuple:
    """(a) `WirelessAccessPoint.receive_frame` (wireless_router.py) has the statements of `RouterInterface.receive_frame` (router.py):
    the access point of a wireless router is an interface of kind `router` in Model/Filter.lean; (b) `AirSpace.transmit` delivers to
    the OTHER ENABLED interfaces OF THE SENDER'S FREQUENCY only; (c) `WirelessNetworkInterface.send_frame` starts with the enabled guard."""
    wap = find_method(class_def(parse("simulator/network/hardware/nodes/network/wireless_router.py"), "WirelessAccessPoint"), "receive_frame")
    rif = find_method(class_def(parse("simulator/network/hardware/nodes/network/router.py"), "RouterInterface"), "receive_frame")
    same = _norm_body(wap) == _norm_body(rif)
    air = class_def(parse(AIR), "AirSpace")
    tr = [x for x in _norm_body(find_method(air, "transmit"))]
    snd = _norm_body(find_method(class_def(parse(AIR), "WirelessNetworkInterface"), "send_frame"))
    return same, tr, snd[:1]


def _l(xs) -> str:
    return "[" + ", ".join('"' + x.replace('"', "'") + '"' for x in xs) + "]"


def _overriders() -> List[str]:
    """classes under simulator/network that define one of the translated methods (the programs are `Node`'s: an override would
    not be covered)"""
    from harness.lib.core import SRC
    out = []
    root = SRC / "simulator" / "network"
    for p in sorted(root.rglob("*.py")):
        tree = ast.parse(p.read_text())
        for c in [n for n in ast.walk(tree) if isinstance(n, ast.ClassDef)]:
            for f in c.body:
                if isinstance(f, ast.FunctionDef) and f.name in ("power_on", "power_off", "reset", "_start_up_actions", "_shut_down_actions"):
                    out.append(f"{c.name}.{f.name}")
    return sorted(out)


def emit() -> str:
    tr = Translator(class_def(parse(BASE), "Node"))
    up, down = _tick(tr)
    return f"""import PrimaiteModel.Model.FilterPower
namespace Primaite.Gen.FilterPower
open Primaite.FilterPower
/-- `Node._start_up_actions` -/
def startUp : Stmt := {tr.method("_start_up_actions")}
/-- `Node._shut_down_actions` -/
def shutDown : Stmt := {tr.method("_shut_down_actions")}
/-- `Node.power_on` (calls inlined as `scope`) -/
def powerOn : Stmt := {tr.method("power_on")}
/-- `Node.power_off` -/
def powerOff : Stmt := {tr.method("power_off")}
/-- `Node.reset` -/
def reset : Stmt := {tr.method("reset")}
/-- first / second countdown block of `Node.apply_timestep` (they come in this order; everything else in the method touches neither
`operating_state` nor an interface) -/
def tickUp : Stmt := {up}
def tickDown : Stmt := {down}
/-- `WiredNetworkInterface.enable` up to `self.enabled = True`; `.disable` up to `self.enabled = False` -/
def wiredEnable : List String := {_l(_enable_guards(BASE, "WiredNetworkInterface"))}
def wiredDisable : List String := {_l(_disable_sets(BASE, "WiredNetworkInterface"))}
/-- `WirelessNetworkInterface.enable` / `.disable` (airspace.py) -/
def wirelessEnable : List String := {_l(_enable_guards(AIR, "WirelessNetworkInterface"))}
def wirelessDisable : List String := {_l(_disable_sets(AIR, "WirelessNetworkInterface"))}
/-- `WirelessAccessPoint.receive_frame` = `RouterInterface.receive_frame` statement for statement (logging aside) -/
def wapReceiveIsRouterInterfaceReceive : Bool := {"true" if _wireless()[0] else "false"}
/-- `AirSpace.transmit`; first statement of `WirelessNetworkInterface.send_frame` -/
def airTransmit : List String := {_l([y.strip() for x in _wireless()[1] for y in x.split(chr(10))])}
def wirelessSendGuard : List String := {_l([y.strip() for x in _wireless()[2] for y in x.split(chr(10))])}
/-- every definition of a translated method under simulator/network -/
def definers : List String := {_l(_overriders())}
end Primaite.Gen.FilterPower
"""
