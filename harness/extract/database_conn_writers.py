"""C17 round 7: inventory of everything that can WRITE the database service's connection table (`IOSoftware._connections`).

`C17_table_grows_only_by_authorised_connect` / `C17_closed_stays_closed_run` are theorems about a model in which the table is
written by `add_connection` (from `_process_connect`) and `terminate_connection` (from the owner's disconnect) only.  That frame
is a fact about the SOURCE; it is regenerated here on every run (pure `ast`, whole tree) and compared with the committed lists
(`C17_gen_table_writers`):

  writersInChain     methods of DatabaseService / Service / IOSoftware / Software / SimComponent that mutate `self._connections`
                     (item assignment, del, pop / clear / update / setdefault / popitem, rebinding, augmented assignment)
  callsInChain       call sites, inside those classes, of add_connection / terminate_connection / clear_connections
  clearCallers       every call of `.clear_connections(` in src/primaite (file:Class.method:receiver)
  foreignWrites      every mutation of `<x>._connections` where <x> is not `self` (file:function:target)
"""
import ast
from typing import List

from harness.lib.core import SRC
from harness.extract.util import class_def, parse

GEN_NAME = "DatabaseConnWriters"
CHAIN = [("DatabaseService", "simulator/system/services/database/database_service.py"),
         ("Service", "simulator/system/services/service.py"),
         ("IOSoftware", "simulator/system/software.py"),
         ("Software", "simulator/system/software.py"),
         ("SimComponent", "simulator/core.py")]
MUTATORS = {"pop", "clear", "update", "setdefault", "popitem", "__setitem__", "__delitem__"}
TABLE_CALLS = {"add_connection", "terminate_connection", "clear_connections"}


def u(n: ast.AST) -> str:
    return ast.unparse(n)


def _is_table(e: ast.AST) -> bool:
    return isinstance(e, ast.Attribute) and e.attr == "_connections"


def _mutations(fn: ast.AST) -> List[str]:
    """receivers `<x>` of every mutation of `<x>._connections` inside fn"""
    out = []
    for n in ast.walk(fn):
        tgts = []
        if isinstance(n, ast.Assign):
            tgts = n.targets
        elif isinstance(n, (ast.AugAssign, ast.AnnAssign)):
            tgts = [n.target]
        elif isinstance(n, ast.Delete):
            tgts = n.targets
        for t in tgts:
            for x in ast.walk(t) if isinstance(t, (ast.Tuple, ast.List)) else [t]:
                if _is_table(x):
                    out.append(u(x.value))
                elif isinstance(x, ast.Subscript) and _is_table(x.value):
                    out.append(u(x.value.value))
        if isinstance(n, ast.Call) and isinstance(n.func, ast.Attribute) and n.func.attr in MUTATORS and _is_table(n.func.value):
            out.append(u(n.func.value.value))
    return out


def emit() -> str:
    writers, calls = [], []
    for name, rel in CHAIN:
        cls = class_def(parse(rel), name)
        for m in cls.body:
            if not isinstance(m, ast.FunctionDef):
                continue
            if any(r == "self" for r in _mutations(m)):
                writers.append(f"{name}.{m.name}")
            for n in ast.walk(m):
                if isinstance(n, ast.Call) and isinstance(n.func, ast.Attribute) and n.func.attr in TABLE_CALLS:
                    calls.append(f"{name}.{m.name}:{u(n.func.value)}.{n.func.attr}")
    clear_callers, foreign = [], []
    root = SRC / "primaite" if (SRC / "primaite").exists() else SRC
    for path in sorted(root.rglob("*.py")):
        rel = str(path.relative_to(root))
        tree = ast.parse(path.read_text())
        # enclosing "Class.method" for every function
        def visit(node, owner):
            for ch in ast.iter_child_nodes(node):
                if isinstance(ch, ast.ClassDef):
                    visit(ch, ch.name)
                elif isinstance(ch, (ast.FunctionDef, ast.AsyncFunctionDef)):
                    where = f"{rel}:{owner + '.' if owner else ''}{ch.name}"
                    for n in ast.walk(ch):
                        if isinstance(n, ast.Call) and isinstance(n.func, ast.Attribute) and n.func.attr == "clear_connections":
                            clear_callers.append(f"{where}:{u(n.func.value)}")
                    for r in _mutations(ch):
                        if r != "self":
                            foreign.append(f"{where}:{r}")
                else:
                    visit(ch, owner)
        visit(tree, "")

    def strs(xs):
        return "[" + ", ".join('"' + x.replace('"', "'") + '"' for x in xs) + "]"
    return "\n".join(["namespace Primaite.Gen.DatabaseConnWriters",
                      "/-- methods of the database service's class chain that mutate `self._connections` -/",
                      f"def writersInChain : List String := {strs(sorted(set(writers)))}",
                      "/-- call sites of add_connection / terminate_connection / clear_connections inside the class chain -/",
                      f"def callsInChain : List String := {strs(sorted(set(calls)))}",
                      "/-- every call of `.clear_connections(` in the tree -/",
                      f"def clearCallers : List String := {strs(sorted(set(clear_callers)))}",
                      "/-- every mutation of `<x>._connections` with <x> other than `self` -/",
                      f"def foreignWrites : List String := {strs(sorted(set(foreign)))}",
                      "end Primaite.Gen.DatabaseConnWriters", ""])
