"""E6 — every `RequestPermissionValidator.__call__` translated into a Lean predicate over the small model state of
Model/RequestGuards.lean (pure `ast`; a dedicated mini-translator in the spirit of harness/extract/pyexpr.py, extended with
what validator bodies need: `len(request) < n` guards, guarded subscripts `request[i]`, `for x in d.values(): if p(x): return e`
as a first-match search, Optional results (`is None`, `is not None`, truthiness, `x is not None and not x.deleted`), keyword
calls of the file-system look-ups `get_folder` / `get_file` (translated too, with their defaults), enum members as names).

Strict: any other statement / expression raises `Unsupported` (= broken tie).  A subscript `request[i]` that is not dominated
by an `if len(request) < n: return ...` with n > i is REFUSED (it would raise IndexError — finding F-1b was exactly that).
"""
from __future__ import annotations

import ast
from typing import Dict, List, Optional, Tuple

from harness.extract import request_schema as x_schema
from harness.extract.util import class_def, find_method, parse

GEN_NAME = "RequestValidators"


class Unsupported(Exception):
    pass


# python class -> (source file, model type)
LOOKUPS = {
    ("FileSystem", "get_folder"): ("simulator/file_system/file_system.py", "FsS", "OptFolder",
                                   [("folder_name", "Key", None), ("include_deleted", "Bool", "false")]),
    ("Folder", "get_file"): ("simulator/file_system/folder.py", "FolderS", "OptFile",
                             [("file_name", "Key", None), ("include_deleted", "Bool", "false")]),
    ("FileSystem", "get_file"): ("simulator/file_system/file_system.py", "FsS", "OptFile",
                                 [("folder_name", "Key", None), ("file_name", "Key", None), ("include_deleted", "Bool", "false")]),
}
LEAN_TY = {"OptFolder": "Option FolderS", "OptFile": "Option FileS", "Bool": "Bool", "Key": "Key"}
# attribute types of the model structures (python attribute name = Lean field name)
ATTRS = {
    "VSelf": {"node": "OpS", "network_interface": "NicS", "service": "OpS", "application": "OpS", "file_system": "FsS",
              "folder": "FolderS", "state": "Key", "allowed_groups": "Groups"},
    "OpS": {"operating_state": "Key"},
    "NicS": {"enabled": "Bool"},
    "FsS": {"folders": "Folders", "deleted_folders": "Folders"},
    "FolderS": {"name": "Key", "deleted": "Bool", "files": "Files", "deleted_files": "Files"},
    "FileS": {"name": "Key", "deleted": "Bool"},
    "GroupS": {"name": "Key"},
}
ELEM = {"Folders": "FolderS", "Files": "FileS", "Groups": "GroupS"}
CLASS_OF = {"FsS": "FileSystem", "FolderS": "Folder"}
STATE_ENUM_FILES = {"NodeOperatingState": "simulator/network/hardware/node_operating_state.py",
                    "ServiceOperatingState": "simulator/system/services/service.py",
                    "ApplicationOperatingState": "simulator/system/applications/application.py"}


def enum_members(name: str) -> List[str]:
    cls = class_def(parse(STATE_ENUM_FILES[name]), name)
    out = []
    for st in cls.body:
        if isinstance(st, ast.Assign) and isinstance(st.targets[0], ast.Name):
            out.append(st.targets[0].id)
    if not out:
        raise Unsupported(f"enum {name} has no members")
    return out


def _is_doc(s) -> bool:
    return isinstance(s, ast.Expr) and isinstance(s.value, ast.Constant) and isinstance(s.value.value, str)


def _is_log(s) -> bool:
    if isinstance(s, ast.Expr) and isinstance(s.value, ast.Call):
        f = ast.unparse(s.value.func)
        return f.startswith("self.sys_log.") or f.startswith("_LOGGER.")
    return False


class Tr:
    def __init__(self, self_ty: str, ret: str):
        self.self_ty = self_ty      # model type of `self`
        self.ret = ret              # "Bool" | "OptFolder" | "OptFile"
        self.uses: set = set()      # look-ups called

    # ---------------------------------------------------------------- expressions: returns (lean, type)
    def expr(self, e: ast.AST, env: Dict[str, str], min_len: int) -> Tuple[str, str]:
        if isinstance(e, ast.Constant):
            if isinstance(e.value, bool):
                return ("true" if e.value else "false"), "Bool"
            if e.value is None:
                return "none", "None"
            if isinstance(e.value, str):
                return '"' + e.value + '"', "Key"
            raise Unsupported("constant " + repr(e.value))
        if isinstance(e, ast.Name):
            if e.id in env:
                return e.id, env[e.id]
            raise Unsupported("free name " + e.id)
        if isinstance(e, ast.Attribute):
            # enum member -> its name
            if isinstance(e.value, ast.Name) and e.value.id in STATE_ENUM_FILES:
                if e.attr not in enum_members(e.value.id):
                    raise Unsupported(f"{e.value.id} has no member {e.attr}")
                return '"' + e.attr + '"', "Key"
            base, bty = self.expr(e.value, env, min_len)
            if bty in ATTRS and e.attr in ATTRS[bty]:
                return f"{base}.{e.attr}", ATTRS[bty][e.attr]
            raise Unsupported(f"attribute {e.attr} of {bty}")
        if isinstance(e, ast.Subscript):
            src = ast.unparse(e)
            if src == "context['request_source']['groups']" and env.get("context") == "CtxSome":
                return "context", "Strs"
            if isinstance(e.value, ast.Name) and e.value.id == "request" and isinstance(e.slice, ast.Constant) \
                    and isinstance(e.slice.value, int) and e.slice.value >= 0:
                i = e.slice.value
                if i >= min_len:
                    raise Unsupported(f"request[{i}] is not guarded by `if len(request) < {i + 1}: return ...` (it can raise IndexError)")
                return f"(request.getD {i} \"\")", "Key"
            raise Unsupported("subscript " + src)
        if isinstance(e, ast.Compare) and len(e.ops) == 1:
            op, rhs = e.ops[0], e.comparators[0]
            if isinstance(op, (ast.Is, ast.IsNot)) and isinstance(rhs, ast.Constant) and rhs.value is None:
                l, lt = self.expr(e.left, env, min_len)
                if not lt.startswith("Opt"):
                    raise Unsupported("`is None` on non-optional " + lt)
                return (f"({l}).isNone" if isinstance(op, ast.Is) else f"({l}).isSome"), "Bool"
            if isinstance(op, ast.Lt) and ast.unparse(e.left) == "len(request)" and isinstance(rhs, ast.Constant):
                return f"(decide (request.length < {int(rhs.value)}))", "Bool"
            if isinstance(op, (ast.Eq, ast.NotEq)):
                l, lt = self.expr(e.left, env, min_len)
                r, rt = self.expr(rhs, env, min_len)
                if lt != "Key" or rt != "Key":
                    raise Unsupported(f"comparison of {lt} with {rt}")
                return (f"({l} == {r})" if isinstance(op, ast.Eq) else f"({l} != {r})"), "Bool"
            if isinstance(op, ast.In):
                l, lt = self.expr(e.left, env, min_len)
                r, rt = self.expr(rhs, env, min_len)
                if lt == "Key" and rt == "Strs":
                    return f"({r}.contains {l})", "Bool"
                raise Unsupported(f"`in` between {lt} and {rt}")
            raise Unsupported("comparison " + ast.unparse(e))
        if isinstance(e, ast.UnaryOp) and isinstance(e.op, ast.Not):
            return f"(!{self.truthy(e.operand, env, min_len)})", "Bool"
        if isinstance(e, ast.BoolOp) and isinstance(e.op, ast.And):
            # `x is not None and <rest reading x.attr>` with x Optional: the rest is evaluated with x unwrapped
            first = e.values[0]
            if isinstance(first, ast.Compare) and isinstance(first.ops[0], ast.IsNot) and isinstance(first.left, ast.Name) \
                    and env.get(first.left.id, "").startswith("Opt"):
                v = first.left.id
                inner = dict(env)
                inner[v] = {"OptFolder": "FolderS", "OptFile": "FileS"}[env[v]]
                rest = e.values[1:]
                body = " && ".join(self.truthy(x, inner, min_len) for x in rest) if rest else "true"
                return f"(match {v} with | some {v} => ({body}) | none => false)", "Bool"
            return "(" + " && ".join(self.truthy(v, env, min_len) for v in e.values) + ")", "Bool"
        if isinstance(e, ast.BoolOp) and isinstance(e.op, ast.Or):
            return "(" + " || ".join(self.truthy(v, env, min_len) for v in e.values) + ")", "Bool"
        if isinstance(e, ast.Call):
            return self.call(e, env, min_len)
        raise Unsupported(ast.dump(e)[:120])

    def truthy(self, e: ast.AST, env: Dict[str, str], min_len: int) -> str:
        s, ty = self.expr(e, env, min_len)
        if ty == "Bool":
            return s
        if ty.startswith("Opt"):      # Optional[component]: components are always truthy
            return f"({s}).isSome"
        if ty == "CtxOpt":            # `not context`: None and {} are falsy
            return f"({s}).isSome"
        raise Unsupported("truthiness of " + ty)

    def call(self, e: ast.Call, env: Dict[str, str], min_len: int) -> Tuple[str, str]:
        if not isinstance(e.func, ast.Attribute):
            raise Unsupported("call " + ast.unparse(e)[:80])
        recv, rty = self.expr(e.func.value, env, min_len)
        if e.func.attr == "values" and not e.args and not e.keywords and rty in ELEM:
            return recv, rty   # dict.values(): the model keeps the values in dictionary order
        cls = CLASS_OF.get(rty)
        key = (cls, e.func.attr)
        if key not in LOOKUPS:
            raise Unsupported(f"call of {e.func.attr} on {rty}")
        _, _, ret, params = LOOKUPS[key]
        self.uses.add(key)
        given: Dict[str, ast.AST] = {}
        for i, a in enumerate(e.args):
            if i >= len(params):
                raise Unsupported("too many arguments: " + ast.unparse(e))
            given[params[i][0]] = a
        for kw in e.keywords:
            if kw.arg not in [p[0] for p in params] or kw.arg in given:
                raise Unsupported("bad keyword: " + ast.unparse(e))
            given[kw.arg] = kw.value
        args = []
        for (pname, pty, default) in params:
            if pname in given:
                a, aty = self.expr(given[pname], env, min_len)
                if aty != pty:
                    raise Unsupported(f"argument {pname} has type {aty}, expected {pty}")
                args.append(a)
            elif default is not None:
                args.append(default)
            else:
                raise Unsupported(f"missing argument {pname}: " + ast.unparse(e))
        return f"({cls}_{e.func.attr} {recv} " + " ".join(args) + ")", ret

    # ---------------------------------------------------------------- statements (continuation style)
    def ret_value(self, e: Optional[ast.AST], env, min_len) -> str:
        if self.ret == "Bool":
            if e is None:
                raise Unsupported("bare return in a predicate")
            return self.truthy(e, env, min_len) if not isinstance(e, ast.Constant) else self.expr(e, env, min_len)[0]
        if e is None or (isinstance(e, ast.Constant) and e.value is None):
            return "none"
        s, ty = self.expr(e, env, min_len)
        want = {"OptFolder": "FolderS", "OptFile": "FileS"}[self.ret]
        if ty == self.ret:
            return s
        if ty == want:
            return f"(some {s})"
        raise Unsupported(f"returns {ty}, function returns {self.ret}")

    def block(self, body: List[ast.stmt], env: Dict[str, str], min_len: int, ind: int) -> str:
        body = [s for s in body if not _is_doc(s) and not _is_log(s)]
        pad = "  " * ind
        if not body:
            if self.ret == "Bool":
                raise Unsupported("a predicate falls off its end (returns None)")
            return pad + "none"
        s, rest = body[0], body[1:]
        if isinstance(s, ast.Return):
            return pad + self.ret_value(s.value, env, min_len)
        if (isinstance(s, ast.Assign) and len(s.targets) == 1 and isinstance(s.targets[0], ast.Name)) \
                or (isinstance(s, ast.AnnAssign) and isinstance(s.target, ast.Name) and s.value is not None):
            v = s.targets[0].id if isinstance(s, ast.Assign) else s.target.id
            val, ty = self.expr(s.value, env, min_len)
            env2 = dict(env)
            env2[v] = ty
            return f"{pad}let {v} := {val}\n" + self.block(rest, env2, min_len, ind)
        if isinstance(s, ast.If):
            test = s.test
            # `if len(request) < n: return ...` — afterwards request[0..n-1] exist
            new_min = min_len
            if isinstance(test, ast.Compare) and ast.unparse(test.left) == "len(request)" and isinstance(test.ops[0], ast.Lt) \
                    and isinstance(test.comparators[0], ast.Constant) and self._ends(s.body) and not s.orelse:
                new_min = max(min_len, int(test.comparators[0].value))
            # `if not context: return False` — afterwards the context is a truthy dict
            env_after = env
            if ast.unparse(test) == "not context" and env.get("context") == "CtxOpt" and self._ends(s.body) and not s.orelse:
                then = self.block(s.body, env, min_len, ind + 1)
                inner = dict(env)
                inner["context"] = "CtxSome"
                return (f"{pad}match context with\n{pad}| none =>\n{then}\n{pad}| some context =>\n"
                        + self.block(rest, inner, min_len, ind + 1))
            # `if x:` with x Optional — x is unwrapped inside
            if isinstance(test, ast.Name) and env.get(test.id, "").startswith("Opt"):
                v = test.id
                inner = dict(env)
                inner[v] = {"OptFolder": "FolderS", "OptFile": "FileS"}[env[v]]
                then_body = s.body if self._ends(s.body) else s.body + rest
                else_body = list(s.orelse) if self._ends(s.orelse) else list(s.orelse) + rest
                return (f"{pad}match {v} with\n{pad}| some {v} =>\n{self.block(then_body, inner, min_len, ind + 1)}\n"
                        f"{pad}| none =>\n{self.block(else_body, env, min_len, ind + 1)}")
            cond = self.truthy(test, env, min_len)
            then_body = s.body if self._ends(s.body) else s.body + rest
            else_body = list(s.orelse) if self._ends(s.orelse) else list(s.orelse) + rest
            return (f"{pad}if {cond} then\n{self.block(then_body, env_after, min_len, ind + 1)}\n{pad}else\n"
                    f"{self.block(else_body, env, new_min, ind + 1)}")
        if isinstance(s, ast.For):
            # for x in <list>: if p(x): return e(x)      — first match, then the rest
            if s.orelse or not isinstance(s.target, ast.Name) or len(s.body) != 1 or not isinstance(s.body[0], ast.If) \
                    or s.body[0].orelse or len(s.body[0].body) != 1 or not isinstance(s.body[0].body[0], ast.Return):
                raise Unsupported("for-loop is not `for x in xs: if p(x): return e`: " + ast.unparse(s)[:120])
            it, ity = self.expr(s.iter, env, min_len)
            if ity not in ELEM:
                raise Unsupported("iteration over " + ity)
            v = s.target.id
            inner = dict(env)
            inner[v] = ELEM[ity]
            p = self.truthy(s.body[0].test, inner, min_len)
            val = self.ret_value(s.body[0].body[0].value, inner, min_len)
            return (f"{pad}match ({it}).find? (fun {v} => {p}) with\n{pad}| some {v} => {val}\n{pad}| none =>\n"
                    + self.block(rest, env, min_len, ind + 1))
        raise Unsupported("statement " + ast.unparse(s)[:120])

    def _ends(self, b) -> bool:
        b = [s for s in b if not _is_doc(s) and not _is_log(s)]
        if not b:
            return False
        last = b[-1]
        if isinstance(last, ast.Return):
            return True
        if isinstance(last, ast.If):
            return self._ends(last.body) and self._ends(last.orelse)
        return False


def translate_lookup(cls: str, meth: str) -> Tuple[str, set]:
    rel, self_ty, ret, params = LOOKUPS[(cls, meth)]
    fn = find_method(class_def(parse(rel), cls), meth)
    names = [a.arg for a in fn.args.args]
    if names != ["self"] + [p[0] for p in params]:
        raise Unsupported(f"{cls}.{meth} parameters are {names}")
    defaults = fn.args.defaults
    n_def = len(defaults)
    for (pname, pty, pdef), d in zip(params[len(params) - n_def:], defaults):
        if pdef is None or not (isinstance(d, ast.Constant) and d.value is False):
            raise Unsupported(f"{cls}.{meth}: default of {pname} is not False")
    if sum(1 for p in params if p[2] is not None) != n_def:
        raise Unsupported(f"{cls}.{meth}: defaults changed")
    tr = Tr(self_ty, ret)
    env = {"self": self_ty}
    env.update({p[0]: p[1] for p in params})
    body = tr.block(fn.body, env, 0, 1)
    sig = f"def {cls}_{meth} (self : {self_ty}) " + " ".join(f"({p[0]} : {LEAN_TY[p[1]]})" for p in params) + f" : {LEAN_TY[ret]} :=\n"
    return sig + body, tr.uses


def validator_node(classes, owner: Optional[str], vname: str) -> ast.ClassDef:
    if owner is None:
        if vname in classes:
            return classes[vname].node
        raise Unsupported(f"validator class {vname} not found")
    for n in classes[owner].node.body:
        if isinstance(n, ast.ClassDef) and n.name == vname:
            return n
    raise Unsupported(f"validator class {owner}.{vname} not found")


FIELD_TY = {"node": "Node", "network_interface": "NetworkInterface", "service": "Service", "application": "Application",
            "file_system": "FileSystem", "folder": "Folder", "state": None, "allowed_groups": None}


def translate_validator(classes, owner: Optional[str], vname: str, atom: str) -> str:
    node = validator_node(classes, owner, vname)
    # the annotated fields of the validator class must be ones the model binds
    for st in node.body:
        if isinstance(st, ast.AnnAssign) and isinstance(st.target, ast.Name) and st.target.id not in ATTRS["VSelf"]:
            raise Unsupported(f"{vname}: unknown field {st.target.id}")
    fn = find_method(node, "__call__")
    names = [a.arg for a in fn.args.args]
    if names != ["self", "request", "context"]:
        raise Unsupported(f"{vname}.__call__ parameters are {names}")
    tr = Tr("VSelf", "Bool")
    env = {"self": "VSelf", "request": "Keys", "context": "CtxOpt"}
    body = tr.block(fn.body, env, 0, 1)
    return f"def {atom} (self : VSelf) (request : List Key) (context : Context) : Bool :=\n" + body


def build() -> Dict[str, str]:
    classes = x_schema.load_classes()
    out: Dict[str, str] = {}
    order = [("FileSystem", "get_folder"), ("Folder", "get_file"), ("FileSystem", "get_file")]
    for (c, m) in order:
        out[f"{c}_{m}"], _ = translate_lookup(c, m)
    for (owner, vname), atom in x_schema.VALIDATOR_ATOMS.items():
        out[atom] = translate_validator(classes, owner, vname, atom)
    return out


def emit() -> str:
    defs = build()
    L = ["import PrimaiteModel.Model.RequestGuards", "namespace Primaite.Gen.RequestValidators",
         "open Primaite.Guards Primaite.Schema", "open Primaite.Request (Key)", "set_option linter.unusedVariables false", ""]
    L.append("/-! `get_folder` / `get_file` and every `RequestPermissionValidator.__call__`, translated statement by statement -/")
    for name, text in defs.items():
        L.append(text)
        L.append("")
    L.append("/-- the translated `__call__` of the validator class each atom names (state validators: `self.state` is the atom's argument) -/")
    L.append("def eval (a : VAtom) (self : VSelf) (request : List Key) (context : Context) : Bool :=")
    L.append("  match a with")
    for (owner, vname), atom in x_schema.VALIDATOR_ATOMS.items():
        if atom in x_schema.STATE_ENUMS:
            L.append(f"  | .{atom} s => {atom} {{ self with state := s }} request context")
        else:
            L.append(f"  | .{atom} => {atom} self request context")
    L.append("")
    for atom, enum in x_schema.STATE_ENUMS.items():
        L.append(f"/-- members of {enum} (the `state` a `{atom}` validator can be constructed with) -/")
        L.append(f"def {atom}Members : List String := [" + ", ".join('"' + m + '"' for m in enum_members(enum)) + "]")
    L.append("def nodeStateMembers : List String := [" + ", ".join('"' + m + '"' for m in enum_members("NodeOperatingState")) + "]")
    L.append("")
    L.append("end Primaite.Gen.RequestValidators")
    return "\n".join(L) + "\n"


if __name__ == "__main__":
    print(emit())
