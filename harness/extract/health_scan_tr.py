"""Statement-by-statement translation of the SCAN PATH of C14 into Lean definitions over the types of Model/Health.lean
(Gen/HealthScan.lean):

    Software.scan            -> swScan            File.scan               -> fileScan
    Folder.scan              -> folderScan        Folder._scan_timestep   -> folderScanTimestep
    FileSystem.scan          -> fsScan            Node.scan               -> nodeScanRequest
    the `node_scan_countdown` block of Node.apply_timestep (inside `if self.operating_state == ON`) -> nodeScanBlock

Props/C14GenScan.lean proves every one of them EQUAL to the hand-written model function for ALL states (`C14_gen_*_scan*`), so a
harmless refactor (guard clauses instead of if/else, reordered independent statements, renamed loop variables, reworded log
lines, comments) keeps the obligation, a semantic edit breaks the proof (and the rig then finds the input), and a statement
outside the vocabulary breaks the extractor (reported as a broken tie).

Vocabulary (strict; anything else raises Unsupported):
    self.<field> = e / self.<field> -= e          let S := { S with fld := e }            (fields: table FIELDS per class)
    if c: A else: B  (no branch returns)          let S := if c then A; S else B; S
    if c: …return…   (every path returns)         if c then … else <rest>
    return True/False / return / fall off         (S, b) / S
    for K in self.files: V = self.get_file_by_id(file_uuid=K); body
                                                  loopLive (fun S V => body; (S, V)) S S.files   (live files in dict order)
    V.scan()                                      let V := (fileScan V).1
    for K in self.folders: self.folders[K].scan(instant_scan=X)
                                                  map over the LIVE folders: (folderScan G X).1
    for K in self.services|applications: self.<d>[K].scan()
                                                  map over the services / applications: (swScan x).1
    for K in self.processes: …                    skipped (no process is ever registered; the model has none)
    self.file_system.scan(instant_scan=X)         let m := { m with folders := fsScan m.folders X }
    FileSystemItemHealthStatus(max([f.health_status.value for f in self.files.values()] or [0]))
                                                  worstLive S.files
    self.num_access += 1, path = …, logging       skipped (not health)
    expressions: ints, max(a, b), enum members, == != < <= > >=, and / or / not, Boolean parameters
"""
import ast
from typing import Dict, List, Optional, Tuple

from harness.extract.util import class_def, find_method, parse

GEN_NAME = "HealthScan"


class Unsupported(Exception):
    pass


def _u(n: ast.AST) -> str:
    return ast.unparse(n)


FIELDS: Dict[str, Dict[str, str]] = {
    "file": {"deleted": "deleted", "health_status": "actual", "visible_health_status": "visible"},
    "folder": {"deleted": "deleted", "health_status": "actual", "visible_health_status": "visible", "scan_countdown": "scanCd",
               "scan_duration": "scanDur", "_scanned_this_step": "scanned", "files": "files"},
    "sw": {"health_state_actual": "actual", "health_state_visible": "visible"},
    "fs": {},
    "node": {"node_scan_countdown": "scanCd", "config.node_scan_duration": "scanDur"},
}
ENUMS = {"FileSystemItemHealthStatus": "FsH", "SoftwareHealthState": "SwH"}
SKIP_AUG = {"self.num_access"}
SKIP_LOCALS = {"path", "msg"}
CMP = {ast.Gt: ">", ast.GtE: "≥", ast.Lt: "<", ast.LtE: "≤", ast.Eq: "=", ast.NotEq: "≠"}
WORST = "FileSystemItemHealthStatus(max([f.health_status.value for f in self.files.values()] or [0]))"


def _is_log(st: ast.stmt) -> bool:
    return (isinstance(st, ast.Expr) and isinstance(st.value, ast.Call)
            and _u(st.value.func).startswith(("self.sys_log.", "_LOGGER.")))


class Tr:
    """one method body; `sv` = Lean name of the object state, `kind` = its class in FIELDS, `locs` = local objects (name -> kind),
    `bools` = Boolean parameters, `ret_bool` = does the method return a bool"""

    def __init__(self, sv: str, kind: str, bools=(), ret_bool=False):
        self.sv, self.kind, self.bools, self.ret_bool = sv, kind, set(bools), ret_bool
        self.locs: Dict[str, str] = {}
        self.sub = 0  # > 0 inside a branch of a non-returning `if` (falling off its end yields the state)
        self.extra: Optional[str] = None  # loop variable carried next to the state inside a loop body

    # ---------------------------------------------------------------- expressions
    def field(self, e: ast.AST) -> Optional[Tuple[str, str]]:
        s = _u(e)
        if s.startswith("self."):
            f = FIELDS[self.kind].get(s[5:])
            return (self.sv, f) if f else None
        if isinstance(e, ast.Attribute) and isinstance(e.value, ast.Name) and e.value.id in self.locs:
            f = FIELDS[self.locs[e.value.id]].get(e.attr)
            return (e.value.id, f) if f else None
        return None

    def expr(self, e: ast.AST) -> str:
        if isinstance(e, ast.Constant) and isinstance(e.value, bool):
            return "true" if e.value else "false"
        if isinstance(e, ast.Constant) and isinstance(e.value, int):
            return str(e.value)
        if _u(e).replace(" ", "") == WORST.replace(" ", "") or ast.dump(e) == ast.dump(ast.parse(WORST, mode="eval").body):
            if self.kind != "folder":
                raise Unsupported("worst-of-files outside Folder")
            return f"(worstLive {self.sv}.files)"
        if isinstance(e, ast.Attribute) and isinstance(e.value, ast.Name) and e.value.id in ENUMS:
            return f"{ENUMS[e.value.id]}.{e.attr.lower()}"
        if isinstance(e, ast.Name) and e.id in self.bools:
            return e.id
        fl = self.field(e)
        if fl:
            return f"{fl[0]}.{fl[1]}"
        if isinstance(e, ast.Call) and isinstance(e.func, ast.Name) and e.func.id in ("max", "min") and len(e.args) == 2 and not e.keywords:
            return f"({e.func.id} {self.expr(e.args[0])} {self.expr(e.args[1])})"
        if isinstance(e, ast.BinOp) and isinstance(e.op, (ast.Add, ast.Sub)):
            return f"({self.expr(e.left)} {'+' if isinstance(e.op, ast.Add) else '-'} {self.expr(e.right)})"
        raise Unsupported("expression " + _u(e))

    def cond(self, e: ast.AST) -> str:
        """a decidable Prop"""
        if isinstance(e, ast.BoolOp):
            op = " ∧ " if isinstance(e.op, ast.And) else " ∨ "
            return "(" + op.join(self.cond(v) for v in e.values) + ")"
        if isinstance(e, ast.UnaryOp) and isinstance(e.op, ast.Not):
            return f"(¬ {self.cond(e.operand)})"
        if isinstance(e, ast.Compare) and len(e.ops) == 1 and type(e.ops[0]) in CMP:
            return f"({self.expr(e.left)} {CMP[type(e.ops[0])]} {self.expr(e.comparators[0])})"
        if isinstance(e, ast.Name) and e.id in self.bools:
            return f"({e.id} = true)"
        fl = self.field(e)
        if fl and fl[1] in ("deleted", "scanned"):
            return f"({fl[0]}.{fl[1]} = true)"
        raise Unsupported("condition " + _u(e))

    # ---------------------------------------------------------------- statements
    def state(self) -> str:
        return f"({self.sv}, {self.extra})" if self.extra else self.sv

    def result(self, b: Optional[str]) -> str:
        if self.extra:
            raise Unsupported("return inside a loop body")
        return f"({self.sv}, {b})" if self.ret_bool else self.sv

    @staticmethod
    def returns(body: List[ast.stmt]) -> Optional[bool]:
        """True = every path returns, False = no path returns, None = some do"""
        partial = False
        for st in body:
            if isinstance(st, ast.Return):
                return True
            if isinstance(st, ast.If):
                a, b = Tr.returns(st.body), Tr.returns(st.orelse)
                if a is None or b is None:
                    return None
                if a and b:
                    return True
                if a or b:
                    partial = True
            if isinstance(st, (ast.For, ast.While)) and any(isinstance(x, ast.Return) for x in ast.walk(st)):
                return None
        return None if partial else False

    def block(self, body: List[ast.stmt], ind: int) -> str:
        """Lean term for `body; <fall off the end>`"""
        pad = "  " * ind
        body = [st for st in body if not _is_log(st) and not isinstance(st, ast.Pass)
                and not (isinstance(st, ast.Expr) and isinstance(st.value, ast.Constant))]
        if not body:
            if self.ret_bool and not self.extra and not self.sub:
                raise Unsupported("bool method falls off the end")
            return pad + self.state()
        st, rest = body[0], body[1:]
        nxt = lambda: self.block(rest, ind)  # noqa: E731
        if isinstance(st, ast.Return):
            if self.ret_bool:
                if not (isinstance(st.value, ast.Constant) and isinstance(st.value.value, bool)):
                    raise Unsupported("return " + _u(st))
                return pad + self.result("true" if st.value.value else "false")
            if st.value is not None:
                raise Unsupported("return " + _u(st))
            return pad + self.result(None)
        if isinstance(st, ast.AugAssign):
            if _u(st.target) in SKIP_AUG:
                return nxt()
            fl = self.field(st.target)
            if not fl or not isinstance(st.op, (ast.Add, ast.Sub)):
                raise Unsupported("augmented assignment " + _u(st))
            op = "+" if isinstance(st.op, ast.Add) else "-"
            return pad + f"let {fl[0]} := {{ {fl[0]} with {fl[1]} := {fl[0]}.{fl[1]} {op} {self.expr(st.value)} }}\n" + nxt()
        if isinstance(st, ast.Assign) and len(st.targets) == 1:
            tgt = st.targets[0]
            if isinstance(tgt, ast.Name) and tgt.id in SKIP_LOCALS:
                return nxt()
            fl = self.field(tgt)
            if not fl:
                raise Unsupported("assignment " + _u(st))
            return pad + f"let {fl[0]} := {{ {fl[0]} with {fl[1]} := {self.expr(st.value)} }}\n" + nxt()
        if isinstance(st, ast.If):
            a, b = self.returns(st.body), self.returns(st.orelse)
            c = self.cond(st.test)
            if a is False and b is False:
                s = self.state()
                self.sub += 1
                t = self.block(st.body, ind + 2)
                e = self.block(st.orelse, ind + 2)
                self.sub -= 1
                if self.extra:
                    return (pad + f"let p := if {c} then\n{t}\n{pad}  else\n{e}\n"
                            + pad + f"let {self.sv} := p.1\n" + pad + f"let {self.extra} := p.2\n" + nxt())
                return pad + f"let {s} := if {c} then\n{t}\n{pad}  else\n{e}\n" + nxt()
            if a is True and not st.orelse:
                return pad + f"if {c} then\n{self.block(st.body, ind + 1)}\n{pad}else\n" + nxt()
            if a is True and b is True:
                if rest:
                    raise Unsupported("statements after an if/else that always returns")
                return pad + f"if {c} then\n{self.block(st.body, ind + 1)}\n{pad}else\n{self.block(st.orelse, ind + 1)}"
            if a is False and b is True:
                return pad + f"if {c} then\n{self.block(st.body + rest, ind + 1)}\n{pad}else\n{self.block(st.orelse, ind + 1)}"
            if a is True and b is False:
                return pad + f"if {c} then\n{self.block(st.body, ind + 1)}\n{pad}else\n{self.block(st.orelse + rest, ind + 1)}"
            raise Unsupported("if with a partly returning branch: " + _u(st.test))
        if isinstance(st, ast.For):
            return self.loop(st, pad, ind) + nxt()
        if isinstance(st, ast.Expr) and isinstance(st.value, ast.Call):
            c = st.value
            f = _u(c.func)
            kws = {k.arg: k.value for k in c.keywords}
            if (isinstance(c.func, ast.Attribute) and isinstance(c.func.value, ast.Name) and c.func.value.id in self.locs
                    and self.locs[c.func.value.id] == "file" and c.func.attr == "scan" and not c.args and not kws):
                v = c.func.value.id
                return pad + f"let {v} := (fileScan {v}).1\n" + nxt()
            if self.kind == "node" and f == "self.file_system.scan" and not c.args and set(kws) == {"instant_scan"}:
                return pad + f"let {self.sv} := {{ {self.sv} with folders := fsScan {self.sv}.folders {self.expr(kws['instant_scan'])} }}\n" + nxt()
        raise Unsupported("statement " + _u(st))

    def loop(self, st: ast.For, pad: str, ind: int) -> str:
        if st.orelse or not isinstance(st.target, ast.Name):
            raise Unsupported("loop " + _u(st.target))
        k, it = st.target.id, _u(st.iter)
        body = [s for s in st.body if not _is_log(s)]
        if self.kind == "folder" and it == "self.files":
            b0 = body[0] if body else None
            if not (isinstance(b0, ast.Assign) and isinstance(b0.targets[0], ast.Name)
                    and _u(b0.value) in (f"self.get_file_by_id(file_uuid={k})", f"self.get_file_by_id({k})", f"self.files[{k}]")):
                raise Unsupported("file loop must start with the lookup of the file: " + (_u(b0) if b0 else "-"))
            v = b0.targets[0].id
            if self.extra:
                raise Unsupported("nested loop")
            self.locs[v] = "file"
            self.extra = v
            inner = self.block(body[1:], ind + 2)
            self.extra = None
            del self.locs[v]
            return (pad + f"let r := loopLive (fun ({self.sv} : Folder) ({v} : File) =>\n{inner}) {self.sv} {self.sv}.files\n"
                    + pad + f"let {self.sv} := {{ r.1 with files := r.2 }}\n")
        if len(body) == 1 and isinstance(body[0], ast.Expr) and isinstance(body[0].value, ast.Call):
            c = body[0].value
            kws = {x.arg: x.value for x in c.keywords}
            f = _u(c.func)
            if self.kind == "fs" and it == "self.folders" and f == f"self.folders[{k}].scan" and not c.args and set(kws) == {"instant_scan"}:
                x = self.expr(kws["instant_scan"])
                return pad + f"let {self.sv} := {self.sv}.map (fun (G : Folder) => if G.deleted then G else (folderScan G {x}).1)\n"
            if self.kind == "node" and it in ("self.services", "self.applications") and f == f"{it}[{k}].scan" and not c.args and not kws:
                app = "true" if it == "self.applications" else "false"
                return pad + (f"let {self.sv} := {{ {self.sv} with sws := {self.sv}.sws.map (fun (x : Sw) => if x.isApp = {app} then (swScan x).1 "
                              f"else x) }}\n")
            if self.kind == "node" and it == "self.processes" and f == f"self.processes[{k}].scan" and not c.args and not kws:
                return pad + "-- processes: none is ever registered (the model has none)\n"
        raise Unsupported("loop over " + it + ": " + "; ".join(_u(s) for s in body))


def _method(rel: str, cls: str, name: str) -> ast.FunctionDef:
    return find_method(class_def(parse(rel), cls), name)


def _params(fn: ast.FunctionDef) -> List[str]:
    return [a.arg for a in fn.args.args if a.arg != "self"]


def node_scan_block() -> List[ast.stmt]:
    """the `if self.node_scan_countdown …` statement(s) directly under `if self.operating_state == NodeOperatingState.ON` of
    Node.apply_timestep"""
    fn = _method("simulator/network/hardware/base.py", "Node", "apply_timestep")
    on = [st for st in fn.body if isinstance(st, ast.If) and _u(st.test) == "self.operating_state == NodeOperatingState.ON"]
    if len(on) != 1:
        raise Unsupported("Node.apply_timestep: expected one `if self.operating_state == NodeOperatingState.ON` block")
    blk = [st for st in on[0].body if any(isinstance(x, ast.Attribute) and x.attr == "node_scan_countdown" for x in ast.walk(st))]
    if len(blk) != 1 or not isinstance(blk[0], ast.If):
        raise Unsupported("Node.apply_timestep: the node-scan block is not one if-statement")
    # nothing else in the timestep may touch the countdown
    others = [x for x in ast.walk(fn) if isinstance(x, ast.Attribute) and x.attr == "node_scan_countdown"]
    inside = [x for x in ast.walk(blk[0]) if isinstance(x, ast.Attribute) and x.attr == "node_scan_countdown"]
    if len(others) != len(inside):
        raise Unsupported("Node.apply_timestep touches node_scan_countdown outside the node-scan block")
    return blk


def emit() -> str:
    out = ["import PrimaiteModel.Model.HealthXlate", "namespace Primaite.Gen.HealthScan", "open Primaite.Health", ""]

    fn = _method("simulator/system/software.py", "Software", "scan")
    out += ["/-- `Software.scan`, translated statement by statement -/", "def swScan (x : Sw) : Sw × Bool :=",
            Tr("x", "sw", ret_bool=True).block(fn.body, 1), ""]

    fn = _method("simulator/file_system/file.py", "File", "scan")
    out += ["/-- `File.scan` -/", "def fileScan (f : File) : File × Bool :=", Tr("f", "file", ret_bool=True).block(fn.body, 1), ""]

    fn = _method("simulator/file_system/folder.py", "Folder", "scan")
    if _params(fn) != ["instant_scan"]:
        raise Unsupported("Folder.scan parameters " + str(_params(fn)))
    out += ["/-- `Folder.scan(instant_scan)` -/", "def folderScan (F : Folder) (instant_scan : Bool) : Folder × Bool :=",
            Tr("F", "folder", bools=["instant_scan"], ret_bool=True).block(fn.body, 1), ""]

    fn = _method("simulator/file_system/folder.py", "Folder", "_scan_timestep")
    out += ["/-- `Folder._scan_timestep` -/", "def folderScanTimestep (F : Folder) : Folder :=",
            Tr("F", "folder").block(fn.body, 1), ""]

    fn = _method("simulator/file_system/file_system.py", "FileSystem", "scan")
    if _params(fn) != ["instant_scan"]:
        raise Unsupported("FileSystem.scan parameters " + str(_params(fn)))
    out += ["/-- `FileSystem.scan(instant_scan)` on the folder list (`self.folders` = the live folders) -/",
            "def fsScan (fo : List Folder) (instant_scan : Bool) : List Folder :=",
            Tr("fo", "fs", bools=["instant_scan"]).block(fn.body, 1), ""]

    fn = _method("simulator/network/hardware/base.py", "Node", "scan")
    out += ["/-- `Node.scan` (the `[\"os\", \"scan\"]` request) -/", "def nodeScanRequest (m : Node) : Node × Bool :=",
            Tr("m", "node", ret_bool=True).block(fn.body, 1), ""]

    out += ["/-- the node-scan block of `Node.apply_timestep` (under `operating_state == ON`) -/",
            "def nodeScanBlock (m : Node) : Node :=", Tr("m", "node").block(node_scan_block(), 1), ""]
    out += ["end Primaite.Gen.HealthScan", ""]
    return "\n".join(out)


if __name__ == "__main__":
    print(emit())
