"""Statement-by-statement translation (pyexpr.py style) of the methods that decide C17's server-side behaviour

    IOSoftware.add_connection          (simulator/system/software.py)
    IOSoftware.terminate_connection    (under send_disconnect=False, the way `receive` calls it)
    DatabaseService._process_connect   (simulator/system/services/database/database_service.py)
    DatabaseService._process_sql
    DatabaseService.receive            (the dispatcher on the payload's keys; round 3)
    DatabaseService.backup_database    (the service's logic around the transfer; the transfer is the model's ftpSendFile; round 3)
    DatabaseService.restore_backup     (ditto, ftpRequestFile: the ORDER of leftover removal / request / arrival check / replacement; round 3)

into Lean functions over the model's `Server` record (Gen/DatabaseTr.lean).  Props/C17.lean proves the translated
functions EQUAL to the hand-written model (`C17_tr_*`), so a change of a guard, an operator, a status code, a branch
order or a written value in the source changes the generated function and breaks a proof obligation.

Pure `ast`, never imports primaite.  Strict: every statement must be recognised — either translated, or on the explicit
list of statements without effect on the modelled state (logging, counters, folder health, session bookkeeping); anything
else raises Unsupported and the extractor fails loudly.

Vocabulary (the abstraction the translation commits to, stated in the generated file):
  self.operating_state -> s.op            self.health_state_actual -> s.health      self.config.db_password / self.password -> s.password
  len(self._connections) -> s.conns.length    self.max_sessions -> s.maxSessions     self.db_file -> s.file (None = no live file)
  self._connections.get(id) -> s.hasConn id   self._connections[id] = {...} -> append (id, requester)
  self._generate_connection_id() -> the issue counter s.nextId (uuid4 never repeats)
  passwords: Optional[str] -> Option Nat with 0 = "" (so Python truthiness of a password is `some n, n != 0`)
  query strings -> the model's `Sql` constructors; any other string is `Sql.other`
"""
import ast
from typing import Dict, List, Tuple

from harness.extract.util import class_def, find_method, parse

GEN_NAME = "DatabaseTr"
DB = "simulator/system/services/database/database_service.py"
SW = "simulator/system/software.py"


class Unsupported(Exception):
    pass


def u(n: ast.AST) -> str:
    return ast.unparse(n)


ENUMS = {
    "ServiceOperatingState": ("SvcState", {"STOPPED": "stopped", "RUNNING": "running", "PAUSED": "paused", "RESTARTING": "restarting",
                                           "DISABLED": "disabled"}),
    "SoftwareHealthState": ("Health", {"UNUSED": "unused", "GOOD": "good", "FIXING": "fixing", "COMPROMISED": "compromised",
                                       "OVERWHELMED": "overwhelmed"}),
    "FileSystemItemHealthStatus": ("FHealth", {"GOOD": "good", "COMPROMISED": "compromised", "CORRUPT": "corrupt"}),
}
SQL = {"SELECT": "select", "DELETE": "delete", "ENCRYPT": "encrypt", "INSERT": "insert", "SELECT * FROM pg_stat_activity": "pgstat"}

# attribute -> (lean term, type)
ATTRS = {
    "self.operating_state": ("s.op", "SvcState"),
    "self.health_state_actual": ("s.health", "Health"),
    "self.config.db_password": ("s.password", "optpw"),
    "self.password": ("s.password", "optpw"),
    "self.max_sessions": ("s.maxSessions", "nat"),
    "self.db_file": ("s.file", "file"),
    "self.db_file.health_status": ("s.file", "optFHealth"),
}

# statements with no effect on the modelled state (anything else must translate)
SKIP_CALL_PREFIX = ("self.sys_log.",)
SKIP_AUG = ("self.file_system.num_file_creations", "self.file_system.num_file_deletions", "self.db_file.num_access")
SKIP_ASSIGN = ("session_details", "database_folder", "database_folder.health_status")


def value(e: ast.AST, env: Dict[str, Tuple[str, str]]) -> Tuple[str, str]:
    s = u(e)
    if isinstance(e, ast.Constant):
        if e.value is None:
            return "none", "none"
        if isinstance(e.value, bool):
            return ("true" if e.value else "false"), "bool"
        if isinstance(e.value, int):
            return str(e.value), "nat"
        if isinstance(e.value, str):
            return f"Sql.{SQL.get(e.value, 'other')}", "Sql"
        raise Unsupported(f"constant {s}")
    if isinstance(e, ast.Attribute) and isinstance(e.value, ast.Name) and e.value.id in ENUMS:
        ty, members = ENUMS[e.value.id]
        if e.attr not in members:
            raise Unsupported(f"enum member {s}")
        return f"{ty}.{members[e.attr]}", ty
    if s in ATTRS:
        return ATTRS[s]
    if s in env:
        return env[s]
    if s == "len(self._connections)":
        return "s.conns.length", "nat"
    raise Unsupported(f"value {s}")


def eq(a: Tuple[str, str], b: Tuple[str, str]) -> str:
    (l, lt), (r, rt) = a, b
    if lt == "optFHealth" and rt == "FHealth":
        r = f"some {r}"
    elif rt == "optFHealth" and lt == "FHealth":
        l = f"some {l}"
    elif {lt, rt} <= {"optpw", "none"} or lt == rt:
        pass
    else:
        raise Unsupported(f"comparison of {lt} with {rt}")
    return f"({l} == {r})"


def truthy(e: ast.AST, env) -> str:
    if isinstance(e, (ast.Compare, ast.BoolOp)) or (isinstance(e, ast.UnaryOp) and isinstance(e.op, ast.Not)):
        return cond(e, env)
    s = u(e)
    if s == "self._connections.get(connection_id)":
        return "(s.hasConn connection_id)"
    v, ty = value(e, env)
    if ty == "bool":
        return v
    if ty == "file":
        return f"({v}).isSome"
    if ty == "optpw":      # Optional[str]: None and "" are falsy
        return f"(match {v} with | some n => n != 0 | none => false)"
    raise Unsupported(f"truthiness of {s} : {ty}")


def cond(e: ast.AST, env) -> str:
    if isinstance(e, ast.UnaryOp) and isinstance(e.op, ast.Not):
        return f"(!{truthy(e.operand, env)})"
    if isinstance(e, ast.BoolOp):
        op = " && " if isinstance(e.op, ast.And) else " || "
        return "(" + op.join(truthy(v, env) for v in e.values) + ")"
    if isinstance(e, ast.Compare) and len(e.ops) == 1:
        op, rhs = e.ops[0], e.comparators[0]
        if isinstance(op, ast.In) and isinstance(rhs, (ast.List, ast.Tuple)):
            l = value(e.left, env)
            return "(" + " || ".join(eq(l, value(x, env)) for x in rhs.elts) + ")"
        a, b = value(e.left, env), value(rhs, env)
        if isinstance(op, (ast.Eq, ast.Is)):
            return eq(a, b)
        if isinstance(op, (ast.NotEq, ast.IsNot)):
            return f"(!{eq(a, b)})"
        sym = {ast.GtE: "≥", ast.Gt: ">", ast.LtE: "≤", ast.Lt: "<"}.get(type(op))
        if sym and a[1] == b[1] == "nat":
            return f"(decide ({a[0]} {sym} {b[0]}))"
    raise Unsupported(f"condition {u(e)}")


def skippable(st: ast.stmt) -> bool:
    if isinstance(st, ast.Expr) and isinstance(st.value, ast.Constant) and isinstance(st.value.value, str):
        return True  # docstring
    if isinstance(st, ast.Expr) and isinstance(st.value, ast.Call) and u(st.value.func).startswith(SKIP_CALL_PREFIX):
        return True
    if isinstance(st, ast.AugAssign) and u(st.target) in SKIP_AUG:
        return True
    if isinstance(st, ast.Assign) and len(st.targets) == 1 and u(st.targets[0]) in SKIP_ASSIGN:
        return True
    if isinstance(st, ast.If) and all(skippable(x) for x in st.body + st.orelse):
        return True
    return False


def _check_folder_corrupt() -> None:
    """The meaning given to `<database folder>.corrupt()` is read off the source: Folder.corrupt loops `file.corrupt()` over its
    files; File.corrupt writes CORRUPT under the guard `health_status == GOOD` and nowhere else."""
    fo = find_method(class_def(parse("simulator/file_system/folder.py"), "Folder"), "corrupt")
    fi = find_method(class_def(parse("simulator/file_system/file.py"), "File"), "corrupt")
    loops = [x for x in ast.walk(fo) if isinstance(x, ast.For) and u(x.iter) == "self.files"
             and any(isinstance(c, ast.Call) and u(c.func) == "file.corrupt" for c in ast.walk(x))]
    if not loops:
        raise Unsupported("Folder.corrupt does not call file.corrupt() on every file of self.files")
    writes = [x for x in ast.walk(fi) if isinstance(x, ast.Assign) and u(x.targets[0]) == "self.health_status"]
    guarded = [x for x in ast.walk(fi) if isinstance(x, ast.If)
               and u(x.test) == "self.health_status == FileSystemItemHealthStatus.GOOD"
               and [u(b) for b in x.body] == ["self.health_status = FileSystemItemHealthStatus.CORRUPT"] and not x.orelse]
    if len(writes) != 1 or len(guarded) != 1:
        raise Unsupported("File.corrupt is not `if health_status == GOOD: health_status = CORRUPT`")


class Tr:
    def __init__(self, ret, locals_: Dict[str, str]):
        self.ret = ret            # ast.Return -> lean term
        self.locals = locals_     # python local -> lean type ("nat" / "optid")

    def go(self, body: List[ast.stmt], env, ind: int) -> str:
        pad = "  " * ind
        body = list(body)
        while body and skippable(body[0]):
            body.pop(0)
        if not body:
            raise Unsupported("control falls off the end of the function")
        st, rest = body[0], body[1:]
        if isinstance(st, ast.Return):
            return pad + self.ret(st, env)
        if isinstance(st, ast.If):
            pre = ""
            test = st.test
            # `if not self.add_connection(...)`: the call has an effect; bind it first
            call = test.operand if isinstance(test, ast.UnaryOp) and isinstance(test.op, ast.Not) else test
            if isinstance(call, ast.Call) and u(call.func) == "self.add_connection":
                kws = {k.arg: u(k.value) for k in call.keywords}
                if kws != {"connection_id": "connection_id", "session_id": "session_id"} or env.get("connection_id", ("", ""))[1] != "optid":
                    raise Unsupported(f"add_connection call {u(call)}")
                pre = (f"{pad}let r := addConnection s (({env['connection_id'][0]}).getD 0) owner\n{pad}let s := r.1\n")
                c = "(!r.2)" if call is not test else "r.2"
            else:
                c = truthy(test, env)
            return (f"{pre}{pad}if {c} then\n{self.go(list(st.body) + rest, env, ind + 1)}\n{pad}else\n"
                    f"{self.go(list(st.orelse) + rest, env, ind + 1)}")
        if isinstance(st, ast.Assign) and len(st.targets) == 1:
            tgt, rhs = u(st.targets[0]), st.value
            if tgt in self.locals:
                ty = self.locals[tgt]
                if u(rhs) == "self._generate_connection_id()" and ty == "optid":
                    # uuid4() -> the issue counter
                    env2 = dict(env)
                    env2[tgt] = (tgt, ty)
                    return (f"{pad}let {tgt} : Option Nat := some s.nextId\n{pad}let s := {{ s with nextId := s.nextId + 1 }}\n"
                            + self.go(rest, env2, ind))
                v, vt = value(rhs, env)
                if not ((ty == "nat" and vt == "nat") or (ty == "optid" and vt == "none")):
                    raise Unsupported(f"assignment {u(st)}")
                env2 = dict(env)
                env2[tgt] = (tgt, ty)
                lty = "Nat" if ty == "nat" else "Option Nat"
                return f"{pad}let {tgt} : {lty} := {v}\n" + self.go(rest, env2, ind)
            if tgt == "self.db_file.health_status":
                v, vt = value(rhs, env)
                if vt != "FHealth":
                    raise Unsupported(f"assignment {u(st)}")
                return f"{pad}let s := {{ s with file := s.file.map (fun _ => {v}) }}\n" + self.go(rest, env, ind)
            if tgt == "self._connections[connection_id]":
                return (f"{pad}let s := {{ s with conns := s.conns ++ [{{ id := connection_id, owner := owner }}] }}\n"
                        + self.go(rest, env, ind))
            raise Unsupported(f"assignment {u(st)}")
        if isinstance(st, ast.Expr) and isinstance(st.value, ast.Call):
            f = u(st.value.func)
            if f == "self.set_health_state" and len(st.value.args) == 1:
                v, vt = value(st.value.args[0], env)
                if vt != "Health":
                    raise Unsupported(u(st))
                return f"{pad}let s := {{ s with health := {v} }}\n" + self.go(rest, env, ind)
            # the file API (file.py): corrupt() turns GOOD into CORRUPT only, repair() CORRUPT into GOOD only
            if f == "self.db_file.corrupt" and not st.value.args:
                return (f"{pad}let s := {{ s with file := s.file.map (fun h => if h = FHealth.good then FHealth.corrupt else h) }}\n"
                        + self.go(rest, env, ind))
            # the folder API (folder.py): Folder.corrupt() calls file.corrupt() on every file of the folder and sets the folder's own
            # health (not modelled): on the database file it is File.corrupt() - GOOD becomes CORRUPT, any other health stays.
            # (second shift, seeded change C17-g: before, this statement was Unsupported and `C17_tr_process_sql` "did not check";
            # now it translates and the theorems about the ENCRYPT branch are REFUTED with a counter-model.)
            if f in ("self._return_database_folder().corrupt", "database_folder.corrupt") and not st.value.args:
                _check_folder_corrupt()
                return (f"{pad}let s := {{ s with file := s.file.map (fun h => if h = FHealth.good then FHealth.corrupt else h) }}\n"
                        + self.go(rest, env, ind))
            if f == "self.db_file.repair" and not st.value.args:
                return (f"{pad}let s := {{ s with file := s.file.map (fun h => if h = FHealth.corrupt then FHealth.good else h) }}\n"
                        + self.go(rest, env, ind))
        raise Unsupported(f"statement {u(st)[:100]}")


# ------------------------------------------------------------------------------------------------------------------------
# `DatabaseService.receive` (the dispatcher) and `IOSoftware.terminate_connection`
#
# Vocabulary (stated in the generated file):
#   payload                      -> `payload : Raw` (Model/Database.lean): isDict, type, connId, password, sql, uuid
#   payload['k']                 -> the key must be present: otherwise the translated function yields `RecvOut.raised` (KeyError)
#   payload.get('k')             -> `none` when absent
#   X in self.connections        -> `s.hasConn` (X an optional id)          self.connections.get(X) -> the same, as a truth value
#   self.connections[id]['ip_address'] -> `s.ownerOf id`                    frame.ip.src_ip_address -> `some src`
#   self._connections.pop(id)    -> the entries with that id are filtered out
#   result = {...'status_code': n...} -> `(n, none)`; result = self._process_connect(...) / self._process_sql(...) -> the
#                                   translated functions above; self.send(payload=result, ...) -> the answer that is sent
PTYPES = {"connect_request": "connectRequest", "disconnect": "disconnect", "sql": "sql"}
FRAME_SRC = ("frame.ip.src_ip_address", "kwargs.get('frame').ip.src_ip_address")


class TrRecv:
    """Continuation-duplicating translator for `receive`; state = (s, result, sent)."""

    def __init__(self):
        self.n = 0

    def fresh(self, base: str) -> str:
        self.n += 1
        return f"{base}{self.n}"

    # ---- expressions: returns (lean term, type, needs) where needs = [(lean scrutinee, bound var)] presence checks
    def val(self, e: ast.AST, env: dict):
        t = u(e)
        if t in env:
            return env[t][0], env[t][1], []
        if t in FRAME_SRC:
            return "(some src)", "optaddr", []
        if t == "payload['connection_id']":
            v = self.fresh("cid")
            return v, "optid", [("payload.connId", v)]
        if t == "payload['sql']":
            v = self.fresh("q")
            return v, "Sql", [("payload.sql", v)]
        if t == "payload['uuid']":
            return "()", "uuid", [("(if payload.uuid then some () else none)", self.fresh("_u"))]
        if t == "payload.get('connection_id')":
            return "payload.connId.join", "optid", []
        if t == "payload.get('password')":
            return "payload.password", "optpw", []
        if t == "payload.get('connection_request_id')":
            return "()", "reqid", []
        if t == "self.connections[connection_id]['ip_address']" and env.get("connection_id", ("", ""))[1] == "optid":
            return f"(s.ownerOf {env['connection_id'][0]})", "optaddr", []
        if isinstance(e, ast.Constant) and isinstance(e.value, bool):
            return ("true" if e.value else "false"), "bool", []
        raise Unsupported(f"receive: value {t}")

    def cond(self, e: ast.AST, env: dict):
        """(lean Bool term, needs)"""
        t = u(e)
        if t == "self._can_perform_action()":
            return "s.canAct", []
        # the power state of the node the service runs on (second shift, blind change C17-h: before, this condition was Unsupported
        # and the changed guard was never translated)
        if t in ("self.software_manager.node.operating_state == NodeOperatingState.ON",
                 "self.software_manager.node.operating_state is NodeOperatingState.ON"):
            return "s.node.isOn", []
        if t in ("self.software_manager.node.operating_state != NodeOperatingState.ON",
                 "self.software_manager.node.operating_state is not NodeOperatingState.ON"):
            return "(!s.node.isOn)", []
        if t in ("self.operating_state == ServiceOperatingState.RUNNING", "self.operating_state is ServiceOperatingState.RUNNING"):
            return "(s.op == SvcState.running)", []
        if t in ("self.operating_state != ServiceOperatingState.RUNNING", "self.operating_state is not ServiceOperatingState.RUNNING"):
            return "(!(s.op == SvcState.running))", []
        if t == "isinstance(payload, dict)":
            return "payload.isDict", []
        if t == "payload.get('type')":
            return "payload.type.isSome", []
        if t in ("self.connections.get(connection_id)",) and env.get("connection_id", ("", ""))[1] == "optid":
            return f"(match {env['connection_id'][0]} with | some i => s.hasConn i | none => false)", []
        if isinstance(e, ast.Name) and env.get(t, ("", ""))[1] == "bool":
            return env[t][0], []
        if isinstance(e, ast.UnaryOp) and isinstance(e.op, ast.Not):
            c, n = self.cond(e.operand, env)
            return f"(!{c})", n
        if isinstance(e, ast.BoolOp) and isinstance(e.op, ast.And):
            parts, needs = [], []
            for x in e.values:
                c, n = self.cond(x, env)
                if n and parts:
                    raise Unsupported(f"receive: a key lookup that may raise behind a short-circuit: {t}")
                parts.append(c)
                needs += n
            return "(" + " && ".join(parts) + ")", needs
        if isinstance(e, ast.Compare) and len(e.ops) == 1:
            op, rhs = e.ops[0], e.comparators[0]
            if u(e.left) == "payload['type']" and isinstance(op, ast.Eq) and isinstance(rhs, ast.Constant) and isinstance(rhs.value, str):
                if not env.get("#type-present"):
                    raise Unsupported("receive: payload['type'] used outside the `payload.get('type')` guard")
                return f"(payload.type == some PType.{PTYPES.get(rhs.value, 'other')})", []
            if isinstance(op, ast.In) and u(rhs) == "self.connections":
                v, ty, n = self.val(e.left, env)
                if ty != "optid":
                    raise Unsupported(f"receive: membership of {ty}")
                return f"(match {v} with | some i => s.hasConn i | none => false)", n
            if isinstance(op, ast.Eq):
                a, at, n1 = self.val(e.left, env)
                b, bt, n2 = self.val(rhs, env)
                if at == bt == "optaddr":
                    return f"({a} == {b})", n1 + n2
        raise Unsupported(f"receive: condition {t}")

    @staticmethod
    def wrap(needs, pad: str, raised: str, body_fn) -> str:
        """emit the presence checks, then the body (indented accordingly)"""
        out, k = "", 0
        for scrut, var in needs:
            p = pad + "  " * k
            out += f"{p}match {scrut} with\n{p}| none => {raised}\n{p}| some {var} =>\n"
            k += 1
        return out + body_fn(k)

    def result_of(self, rhs: ast.AST, env: dict):
        """`result = ...` -> (prefix lines builder, lean term for result, needs)"""
        if isinstance(rhs, ast.Dict):
            sc = _dict_field(rhs, "status_code")
            if not (isinstance(sc, ast.Constant) and isinstance(sc.value, int)) or _dict_field(rhs, "connection_id") is not None:
                raise Unsupported(f"receive: result literal {u(rhs)}")
            return [], f"({sc.value}, none)", []
        if isinstance(rhs, ast.Call) and u(rhs.func) == "self._process_connect" and not rhs.args:
            kw = {k.arg: k.value for k in rhs.keywords}
            if set(kw) != {"src_ip", "password", "connection_request_id", "session_id"} or u(kw["session_id"]) != "session_id":
                raise Unsupported(f"receive: _process_connect call {u(rhs)}")
            a, at, n0 = self.val(kw["src_ip"], env)
            pw, pt, n1 = self.val(kw["password"], env)
            _, rt, n2 = self.val(kw["connection_request_id"], env)
            if (at, pt, rt) != ("optaddr", "optpw", "reqid") or a != "(some src)":
                raise Unsupported(f"receive: _process_connect arguments {u(rhs)}")
            return ([f"let r := processConnect s src {pw}", "let s := r.1"],
                    "(r.2.1, if r.2.2.1 then r.2.2.2 else none)", n0 + n1 + n2)
        if isinstance(rhs, ast.Call) and u(rhs.func) == "self._process_sql" and not rhs.args:
            kw = {k.arg: k.value for k in rhs.keywords}
            if set(kw) != {"query", "query_id", "connection_id"}:
                raise Unsupported(f"receive: _process_sql call {u(rhs)}")
            q, qt, n0 = self.val(kw["query"], env)
            _, ut, n1 = self.val(kw["query_id"], env)
            _, ct, n2 = self.val(kw["connection_id"], env)
            if (qt, ut, ct) != ("Sql", "uuid", "optid"):
                raise Unsupported(f"receive: _process_sql arguments {u(rhs)}")
            return [f"let r := processSql s {q}", "let s := r.1"], "(r.2.1, none)", n0 + n1 + n2
        raise Unsupported(f"receive: result = {u(rhs)}")

    def go(self, body, env: dict, ind: int, fall=None) -> str:
        pad = "  " * ind
        body = list(body)
        while body and skippable(body[0]):
            body.pop(0)
        if not body:
            if fall is None:
                raise Unsupported("receive: control falls off the end")
            return fall(env, ind)
        st, rest = body[0], body[1:]
        raised = "(s, RecvOut.raised)"
        if isinstance(st, ast.Return):
            v, ty, n = self.val(st.value, env)
            if ty != "bool" or n:
                raise Unsupported(f"receive: {u(st)}")
            return f"{pad}(s, RecvOut.ret sent {v})"
        if isinstance(st, ast.If):
            c, needs = self.cond(st.test, env)
            env_t = dict(env)
            if "payload.get('type')" in u(st.test) and not (isinstance(st.test, ast.UnaryOp)):
                env_t["#type-present"] = True

            def body_fn(k):
                p = pad + "  " * k
                return (f"{p}if {c} then\n{self.go(list(st.body) + rest, env_t, ind + k + 1, fall)}\n{p}else\n"
                        f"{self.go(list(st.orelse) + rest, env, ind + k + 1, fall)}")
            return self.wrap(needs, pad, raised, body_fn)
        if isinstance(st, ast.Assign) and len(st.targets) == 1 and isinstance(st.targets[0], ast.Name):
            tgt = st.targets[0].id
            if tgt == "result":
                pre, term, needs = self.result_of(st.value, env)

                def body_fn(k):
                    p = pad + "  " * k
                    lines = "".join(f"{p}{x}\n" for x in pre) + f"{p}let result : Nat × Option Nat := {term}\n"
                    return lines + self.go(rest, env, ind + k, fall)
                return self.wrap(needs, pad, raised, body_fn)
            if tgt in ("src_ip", "connection_id", "connected_ip_address"):
                v, ty, needs = self.val(st.value, env)
                want = {"src_ip": "optaddr", "connection_id": "optid", "connected_ip_address": "optaddr"}[tgt]
                if ty != want:
                    raise Unsupported(f"receive: {u(st)} : {ty}")
                lty = "Option Nat"
                env2 = dict(env)
                env2[tgt] = (tgt, ty)
                if tgt == "src_ip" and v == "(some src)" and not needs:
                    # the sender's address: substituted, not bound (it is the `src` argument of the translated function)
                    env2[tgt] = (v, ty)
                    return self.go(rest, env2, ind, fall)

                def body_fn(k):
                    p = pad + "  " * k
                    return f"{p}let {tgt} : {lty} := {v}\n" + self.go(rest, env2, ind + k, fall)
                return self.wrap(needs, pad, raised, body_fn)
            if tgt == "frame" and u(st.value) == "kwargs.get('frame')":
                return self.go(rest, env, ind, fall)
            if tgt == "connection_dict" and u(st.value) == "self._connections.pop(connection_id)" and env.get("connection_id", ("", ""))[1] == "optid":
                cid = env["connection_id"][0]
                return (f"{pad}let s := {{ s with conns := s.conns.filter (fun c => !(some c.id == {cid})) }}\n" + self.go(rest, env, ind, fall))
            raise Unsupported(f"receive: assignment {u(st)}")
        if isinstance(st, ast.Expr) and isinstance(st.value, ast.Call):
            f = u(st.value.func)
            kw = {k.arg: k.value for k in st.value.keywords}
            if f == "self.terminate_connection" and not st.value.args and set(kw) == {"connection_id", "send_disconnect"} \
                    and isinstance(kw["send_disconnect"], ast.Constant) and kw["send_disconnect"].value is False:
                v, ty, needs = self.val(kw["connection_id"], env)
                if ty != "optid":
                    raise Unsupported(u(st))

                def body_fn(k):
                    p = pad + "  " * k
                    return f"{p}let s := (terminateConnection s {v}).1\n" + self.go(rest, env, ind + k, fall)
                return self.wrap(needs, pad, raised, body_fn)
            if f == "self.send" and not st.value.args and set(kw) == {"payload", "session_id"} and u(kw["payload"]) == "result" \
                    and u(kw["session_id"]) == "session_id":
                return f"{pad}let sent : Option (Nat × Option Nat) := some result\n" + self.go(rest, env, ind, fall)
        raise Unsupported(f"receive: statement {u(st)[:100]}")


def _translate_terminate(io: ast.ClassDef) -> str:
    """`IOSoftware.terminate_connection` under `send_disconnect=False` (the only way `receive` calls it): the branch under
    `if send_disconnect:` is dead and dropped; anything else must translate."""
    fn = find_method(io, "terminate_connection")
    args = [a.arg for a in fn.args.args]
    if args != ["self", "connection_id", "send_disconnect"]:
        raise Unsupported(f"terminate_connection signature {args}")
    tr = TrRecv()
    env = {"connection_id": ("connection_id", "optid")}

    def strip_dead(stmts):
        out = []
        for x in stmts:
            if isinstance(x, ast.If) and u(x.test) == "send_disconnect":
                out += strip_dead(x.orelse)       # send_disconnect is False
            elif isinstance(x, ast.If):
                out.append(ast.If(test=x.test, body=strip_dead(x.body), orelse=strip_dead(x.orelse)))
            else:
                out.append(x)
        return out
    body = strip_dead(fn.body)
    # returns a bool: reuse the walker with a bool-return
    txt = tr.go(body, env, 1)
    return txt.replace("RecvOut.ret sent ", "")


# ------------------------------------------------------------------------------------------------------------------------
# `DatabaseService.backup_database` / `restore_backup`: the database service's own logic around the two FTP transfers
#
# Vocabulary:
#   self._can_perform_action() -> s.canAct          self.backup_server_ip is None -> !s.backupConfigured
#   software_manager.software.get('ftp-client') -> the FTP client on the host (truthy iff installed: s.ftpc.isSome)
#   self.db_file -> s.file (None = no live file)    file_system.get_file('downloads','database.db') -> s.downloads
#   file_system.get_file('database','database.db', include_deleted=True) -> the database file, live or deleted: never None
#       (the constructor creates it, deleting keeps it among the deleted files); `.deleted` -> s.file.isNone
#   file_system.delete_file('downloads'|'database','database.db') -> downloads := none | file := none
#   file_system.copy_file('downloads','database.db' -> 'database') -> file := the download (folder re-created), if there is one
#   ftp_client_service.send_file(...) / request_file(...) -> `ftpSendFile` / `ftpRequestFile` of Model/Database.lean
#   visible health bookkeeping (old_visible_state, visible_health_status) -> not modelled (skip list)
XFER_SKIP_ASSIGN = ("old_visible_state", "self.db_file.visible_health_status")
GET_DL = "self.file_system.get_file(folder_name='downloads', file_name='database.db')"
GET_DB_ANY = "self.file_system.get_file(folder_name='database', file_name='database.db', include_deleted=True)"
DEL_DL = "self.file_system.delete_file(folder_name='downloads', file_name='database.db')"
DEL_DB = "self.file_system.delete_file(folder_name='database', file_name='database.db')"
COPY = "self.file_system.copy_file(src_folder_name='downloads', src_file_name='database.db', dst_folder_name='database')"
SEND_FILE_KW = {"dest_ip_address": "self.backup_server_ip", "src_file_name": "self.db_file.name", "src_folder_name": "'database'",
                "dest_folder_name": "str(self.uuid)", "dest_file_name": "'database.db'"}
REQ_FILE_KW = {"src_folder_name": "str(self.uuid)", "src_file_name": "'database.db'", "dest_folder_name": "'downloads'",
               "dest_file_name": "'database.db'", "dest_ip_address": "self.backup_server_ip"}


class TrXfer:
    """Translator for backup_database / restore_backup; state = s (and b for the backup)."""

    def __init__(self, with_backup: bool, cls: "ast.ClassDef | None" = None):
        self.wb = with_backup
        self.cls = cls            # the class whose methods may be inlined (helpers the two methods share)
        self.depth = 0

    def ret(self, v: str) -> str:
        return f"(s, b, {v})" if self.wb else f"(s, {v})"

    def cond(self, e: ast.AST, env: dict) -> str:
        t = u(e)
        if isinstance(e, ast.UnaryOp) and isinstance(e.op, ast.Not):
            return f"(!{self.cond(e.operand, env)})"
        if t == "self._can_perform_action()":
            return "s.canAct"
        if t == "self.backup_server_ip is None":
            return "(!s.backupConfigured)"
        if isinstance(e, ast.Name) and env.get(t) == "ftpc":
            return "s.ftpc.isSome"
        if isinstance(e, ast.Name) and env.get(t) == "nohandle":
            return "false"
        if isinstance(e, ast.Compare) and len(e.ops) == 1 and isinstance(e.left, ast.Name) and u(e.comparators[0]) == "None" \
                and env.get(e.left.id) in ("ftpc", "nohandle"):
            isnone = "s.ftpc.isNone" if env[e.left.id] == "ftpc" else "true"
            if isinstance(e.ops[0], ast.Is):
                return isnone
            if isinstance(e.ops[0], ast.IsNot):
                return f"(!{isnone})"
        # the FTP client's own `_can_perform_action` (its node is the database host)
        if isinstance(e, ast.Call) and isinstance(e.func, ast.Attribute) and e.func.attr == "_can_perform_action" and not e.args \
                and isinstance(e.func.value, ast.Name) and env.get(e.func.value.id) == "ftpc":
            return "s.ftpcAct"
        if t == "self.db_file":
            return "s.file.isSome"
        if t == "self.db_file is None":
            return "s.file.isNone"
        if t == "response" and env.get(t) == "bool":
            return "response"
        if t == GET_DL + " is not None":
            return "s.downloads.isSome"
        if t == GET_DL + " is None":
            return "s.downloads.isNone"
        if t == "db_file is None" and env.get("db_file") == "anyfile":
            return "false"
        if t == "db_file.deleted" and env.get("db_file") == "anyfile":
            return "s.file.isNone"
        raise Unsupported(f"transfer: condition {t}")

    def go(self, body, env: dict, ind: int, ret_k=None) -> str:
        """`ret_k(value_ast, env, ind)`: what a `return` means here (inside an inlined helper: continue in the caller)"""
        pad = "  " * ind
        body = list(body)
        while body and (skippable(body[0]) or self.skip(body[0])):
            body.pop(0)
        if not body:
            raise Unsupported("transfer: control falls off the end")
        st, rest = body[0], body[1:]
        if isinstance(st, ast.Return):
            if ret_k is not None:
                return ret_k(st.value, env, ind)
            if not (isinstance(st.value, ast.Constant) and isinstance(st.value.value, bool)):
                raise Unsupported(f"transfer: {u(st)}")
            return pad + self.ret("true" if st.value.value else "false")
        if isinstance(st, ast.If):
            # both branches are straight-line state updates (possibly empty): one `let s := if ...`, the rest is shared
            c0 = self.cond(st.test, env)
            if c0 in ("true", "(!false)"):     # decided by what an inlined helper returned on this path: the other branch is dead
                return self.go(list(st.body) + rest, env, ind, ret_k)
            if c0 in ("false", "(!true)"):
                return self.go(list(st.orelse) + rest, env, ind, ret_k)
            a, b2 = self.updates(st.body), self.updates(st.orelse)
            if a is not None and b2 is not None:
                return (f"{pad}let s := if {self.cond(st.test, env)} then {a} else {b2}\n" + self.go(rest, env, ind, ret_k))
            return (f"{pad}if {self.cond(st.test, env)} then\n{self.go(list(st.body) + rest, env, ind + 1, ret_k)}\n{pad}else\n"
                    f"{self.go(list(st.orelse) + rest, env, ind + 1, ret_k)}")
        tgt = val = None
        if isinstance(st, ast.AnnAssign) and st.value is not None:
            tgt, val = u(st.target), st.value
        elif isinstance(st, ast.Assign) and len(st.targets) == 1:
            tgt, val = u(st.targets[0]), st.value
        if tgt is not None:
            v = u(val)
            if tgt == "software_manager" and v == "self.software_manager":
                return self.go(rest, env, ind, ret_k)
            if tgt == "ftp_client_service" and v == "software_manager.software.get('ftp-client')":
                return self.go(rest, dict(env, ftp_client_service="ftpc"), ind, ret_k)
            if tgt == "db_file" and v == GET_DB_ANY:
                return self.go(rest, dict(env, db_file="anyfile"), ind, ret_k)
            if tgt == "response" and isinstance(val, ast.Call) and env.get("ftp_client_service") == "ftpc" and not val.args:
                kw = {k.arg: u(k.value) for k in val.keywords}
                f = u(val.func)
                if f == "ftp_client_service.send_file" and kw == SEND_FILE_KW and self.wb:
                    return (f"{pad}let r := ftpSendFile s b pathReq big\n{pad}let s := r.1\n{pad}let b := r.2.1\n{pad}let response := r.2.2\n"
                            + self.go(rest, dict(env, response="bool"), ind, ret_k))
                if f == "ftp_client_service.request_file" and kw == REQ_FILE_KW and not self.wb:
                    return (f"{pad}let r := ftpRequestFile s b pathReq pathResp sendOk\n{pad}let s := r.1\n{pad}let response := r.2\n"
                            + self.go(rest, dict(env, response="bool"), ind, ret_k))
            # a helper of the same class (`x = self._helper(...)`): inlined; each `return v` of the helper continues in the
            # caller with `x` bound to what it returned (None, or the FTP client it looked up)
            if isinstance(val, ast.Call) and isinstance(val.func, ast.Attribute) and u(val.func.value) == "self" and not val.args \
                    and self.cls is not None and self.depth < 2:
                helper = next((m for m in self.cls.body if isinstance(m, ast.FunctionDef) and m.name == val.func.attr), None)
                if helper is not None and isinstance(st.targets[0] if isinstance(st, ast.Assign) else st.target, ast.Name):
                    params = [a.arg for a in helper.args.args][1:]
                    if set(k.arg for k in val.keywords) != set(params) or any(not isinstance(k.value, ast.Constant) for k in val.keywords):
                        raise Unsupported(f"transfer: helper call {u(val)}")

                    def back(value_ast, henv, hind, tgt=tgt, rest=rest, env=env):
                        if value_ast is None or (isinstance(value_ast, ast.Constant) and value_ast.value is None):
                            kind = "nohandle"
                        elif isinstance(value_ast, ast.Name) and henv.get(value_ast.id) == "ftpc":
                            kind = "ftpc"
                        else:
                            raise Unsupported(f"transfer: helper returns {u(value_ast)}")
                        return self.go(rest, dict(env, **{tgt: kind}), hind, ret_k)
                    self.depth += 1
                    try:
                        return self.go(helper.body, {}, ind, back)
                    finally:
                        self.depth -= 1
            raise Unsupported(f"transfer: assignment {u(st)[:120]}")
        if isinstance(st, ast.Expr) and isinstance(st.value, ast.Call):
            t = u(st.value)
            if t in self.UPDATES:
                return f"{pad}let s := {self.UPDATES[t]}\n" + self.go(rest, env, ind, ret_k)
            if t == COPY:
                return (f"{pad}let s := match s.downloads with | some d => {{ s with file := some d, folder := true }} | none => s\n"
                        + self.go(rest, env, ind, ret_k))
            if t == "self.set_health_state(SoftwareHealthState.GOOD)":
                return f"{pad}let s := {{ s with health := Health.good }}\n" + self.go(rest, env, ind, ret_k)
        raise Unsupported(f"transfer: statement {u(st)[:100]}")

    @staticmethod
    def skip(st: ast.stmt) -> bool:
        return isinstance(st, ast.Assign) and len(st.targets) == 1 and u(st.targets[0]) in XFER_SKIP_ASSIGN

    # `delete_file` moves the live file to the folder's deleted files (what a `restore file` request brings back)
    UPDATES = {DEL_DL: "{ s with downloads := none, dlDeleted := s.dlDeleted ++ s.downloads.toList }",
               DEL_DB: "{ s with file := none, fileDeleted := s.fileDeleted ++ s.file.toList }"}

    def updates(self, stmts) -> "str | None":
        """a block made only of bookkeeping and plain state updates -> the lean term of the new `s`; otherwise None"""
        term = "s"
        for x in stmts:
            if skippable(x) or self.skip(x):
                continue
            if isinstance(x, ast.Expr) and isinstance(x.value, ast.Call) and u(x.value) in self.UPDATES:
                term = f"(let s := {term}; {self.UPDATES[u(x.value)]})" if term != "s" else self.UPDATES[u(x.value)]
                continue
            return None
        return term


def _dict_field(d: ast.Dict, key: str):
    for k, v in zip(d.keys, d.values):
        if isinstance(k, ast.Constant) and k.value == key:
            return v
    return None


FAILED: Dict[str, str] = {}     # function name -> why its translation failed (filled by the last `emit()`)

# (lean name, doc, signature, stub that makes the equality theorem about it fail)
FUNCS = [
    ("addConnection", "`IOSoftware.add_connection`, translated statement by statement (software.py)",
     "(s : Server) (connection_id owner : Nat) : Server × Bool", "({ s with conns := [] }, true)"),
    ("processConnect", "`DatabaseService._process_connect`, translated: new server, status_code, `response`, `connection_id`",
     "(s : Server) (owner : Nat) (password : Option Nat) : Server × Nat × Bool × Option Nat", "(s, 0, false, none)"),
    ("processSql", "`DatabaseService._process_sql`, translated: new server, status_code, whether the answer carries the query's uuid",
     "(s : Server) (query : Sql) : Server × Nat × Bool", "(s, 0, false)"),
    ("terminateConnection", "`IOSoftware.terminate_connection(connection_id, send_disconnect=False)`, translated (the `if send_disconnect:` branch is dead)",
     "(s : Server) (connection_id : Option Nat) : Server × Bool", "({ s with conns := [] }, false)"),
    ("receive", "`DatabaseService.receive`, translated statement by statement: the dispatcher on the payload's keys",
     "(s : Server) (src : Nat) (payload : Raw) : Server × RecvOut", "(s, RecvOut.raised)"),
    ("backupDatabase", "`DatabaseService.backup_database`, translated (helpers of the class inlined; the transfer itself is `ftpSendFile`)",
     "(s : Server) (b : Backup) (pathReq big : Bool) : Server × Backup × Bool", "(s, b, true)"),
    ("restoreBackup", "`DatabaseService.restore_backup`, translated (helpers of the class inlined; the transfer itself is `ftpRequestFile`)",
     "(s : Server) (b : Backup) (pathReq pathResp sendOk : Bool) : Server × Bool", "(s, true)"),
]


def _bodies() -> Dict[str, "callable"]:
    db = class_def(parse(DB), "DatabaseService")
    sw_tree = parse(SW)
    io = class_def(sw_tree, "IOSoftware")
    # set_health_state must be the plain setter the translation assumes
    shs = find_method(class_def(sw_tree, "Software"), "set_health_state")
    body = [x for x in shs.body if not skippable(x)]
    if [u(x) for x in body] != ["self.health_state_actual = health_state", "return True"]:
        raise Unsupported("Software.set_health_state is not a plain setter")

    def ret_bool(st, env):
        v, ty = value(st.value, env)
        if ty != "bool":
            raise Unsupported(u(st))
        return f"(s, {v})"

    def ret_connect(st, env):
        if not isinstance(st.value, ast.Dict):
            raise Unsupported(u(st))
        sc, resp, cid = (_dict_field(st.value, k) for k in ("status_code", "response", "connection_id"))
        if sc is None or resp is None or cid is None or u(sc) != "status_code" or u(cid) != "connection_id":
            raise Unsupported(f"_process_connect response {u(st.value)}")
        return f"(s, status_code, {cond(resp, env)}, connection_id)"

    def ret_sql(st, env):
        if not isinstance(st.value, ast.Dict):
            raise Unsupported(u(st))
        sc = _dict_field(st.value, "status_code")
        if not (isinstance(sc, ast.Constant) and isinstance(sc.value, int)):
            raise Unsupported(f"_process_sql status {u(st.value)}")
        uu = _dict_field(st.value, "uuid")
        if uu is not None and u(uu) != "query_id":
            raise Unsupported(f"_process_sql uuid field {u(uu)}")
        return f"(s, {sc.value}, {'true' if uu is not None else 'false'})"

    def recv():
        rv = find_method(db, "receive")
        if [a.arg for a in rv.args.args] != ["self", "payload", "session_id"] or rv.args.kwarg is None:
            raise Unsupported("receive signature")
        stmts = [x for x in rv.body if not skippable(x)]
        if not (isinstance(stmts[0], ast.Assign) and u(stmts[0].targets[0]) == "result"):
            raise Unsupported("receive: does not start with the default result")
        return "  let sent : Option (Nat × Option Nat) := none\n" + TrRecv().go(rv.body, {}, 1)

    return {
        "addConnection": lambda: Tr(ret_bool, {}).go(find_method(io, "add_connection").body, {"connection_id": ("connection_id", "nat")}, 1),
        "processConnect": lambda: Tr(ret_connect, {"status_code": "nat", "connection_id": "optid"}).go(
            find_method(db, "_process_connect").body, {"password": ("password", "optpw")}, 1),
        "processSql": lambda: Tr(ret_sql, {}).go(find_method(db, "_process_sql").body, {"query": ("query", "Sql")}, 1),
        "terminateConnection": lambda: _translate_terminate(io),
        "receive": recv,
        "backupDatabase": lambda: TrXfer(True, db).go(find_method(db, "backup_database").body, {}, 1),
        "restoreBackup": lambda: TrXfer(False, db).go(find_method(db, "restore_backup").body, {}, 1),
    }


def emit() -> str:
    """Never raises for a single untranslatable method: that method gets a stub (which makes the theorem about it fail) and is
    listed in FAILED, so that the other translations - and the theorems about them - are still checked."""
    FAILED.clear()
    bodies = _bodies()
    out = ["import PrimaiteModel.Model.Database", "namespace Primaite.Gen.DatabaseTr", "open Primaite.Database"]
    for name, doc, sig, stub in FUNCS:
        try:
            txt = bodies[name]()
        except Exception as e:  # noqa: BLE001 - Unsupported, or a shape the walker did not expect
            FAILED[name] = f"{type(e).__name__}: {e}"
            txt = f"  -- NOT TRANSLATED: {type(e).__name__}: {str(e)[:160]}\n  {stub}".replace("\n  --", "\n  --")
            txt = "  " + stub + f"   -- NOT TRANSLATED ({type(e).__name__})"
        out += [f"/-- {doc} -/", f"def {name} {sig} :=", txt, ""]
    out += ["end Primaite.Gen.DatabaseTr", ""]
    return "\n".join(out)
