"""Statement-by-statement translation (pyexpr.py style) of the three methods that decide C17's server-side answers

    IOSoftware.add_connection          (simulator/system/software.py)
    DatabaseService._process_connect   (simulator/system/services/database/database_service.py)
    DatabaseService._process_sql

into Lean functions over the model's `Server` record (Gen/DatabaseTr.lean).  Props/C17.lean proves the translated
functions EQUAL to the hand-written model (`C17_tr_*`), so a change of a guard, an operator, a status code, a branch
order or a written value in the source changes the generated function and breaks a proof obligation.

Pure `ast`, never imports primaite.  Strict: every statement must be recognised — either translated, or on the explicit
list of statements without effect on the modelled state (logging, counters, folder health, session bookkeeping); anything
else raises Unsupported and the extractor fails loudly.

Vocabulary (the abstraction the translation commits to, stated in the generated file):
  self.operating_state -> s.op            self.health_state_actual -> s.health      self.config.db_password / self.password -> s.password
  len(self._connections) -> s.conns.length    self.max_sessions -> s.maxSessions     self.db_file -> s.file (None = no live file)
  self._connections.get(id) -> s.hasConn id   self._connections[id] = {...} -> append (id, requester)
  self._generate_connection_id() -> the issue counter s.nextId (uuid4 never repeats)
  passwords: Optional[str] -> Option Nat with 0 = "" (so Python truthiness of a password is `some n, n != 0`)
  query strings -> the model's `Sql` constructors; any other string is `Sql.other`
"""
import ast
from typing import Dict, List, Tuple

from harness.extract.util import class_def, find_method, parse

GEN_NAME = "DatabaseTr"
DB = "simulator/system/services/database/database_service.py"
SW = "simulator/system/software.py"


class Unsupported(Exception):
    pass


def u(n: ast.AST) -> str:
    return ast.unparse(n)


ENUMS = {
    "ServiceOperatingState": ("SvcState", {"STOPPED": "stopped", "RUNNING": "running", "PAUSED": "paused", "RESTARTING": "restarting",
                                           "DISABLED": "disabled"}),
    "SoftwareHealthState": ("Health", {"UNUSED": "unused", "GOOD": "good", "FIXING": "fixing", "COMPROMISED": "compromised",
                                       "OVERWHELMED": "overwhelmed"}),
    "FileSystemItemHealthStatus": ("FHealth", {"GOOD": "good", "COMPROMISED": "compromised", "CORRUPT": "corrupt"}),
}
SQL = {"SELECT": "select", "DELETE": "delete", "ENCRYPT": "encrypt", "INSERT": "insert", "SELECT * FROM pg_stat_activity": "pgstat"}

# attribute -> (lean term, type)
ATTRS = {
    "self.operating_state": ("s.op", "SvcState"),
    "self.health_state_actual": ("s.health", "Health"),
    "self.config.db_password": ("s.password", "optpw"),
    "self.password": ("s.password", "optpw"),
    "self.max_sessions": ("s.maxSessions", "nat"),
    "self.db_file": ("s.file", "file"),
    "self.db_file.health_status": ("s.file", "optFHealth"),
}

# statements with no effect on the modelled state (anything else must translate)
SKIP_CALL_PREFIX = ("self.sys_log.",)
SKIP_AUG = ("self.file_system.num_file_creations", "self.file_system.num_file_deletions", "self.db_file.num_access")
SKIP_ASSIGN = ("session_details", "database_folder", "database_folder.health_status")


def value(e: ast.AST, env: Dict[str, Tuple[str, str]]) -> Tuple[str, str]:
    s = u(e)
    if isinstance(e, ast.Constant):
        if e.value is None:
            return "none", "none"
        if isinstance(e.value, bool):
            return ("true" if e.value else "false"), "bool"
        if isinstance(e.value, int):
            return str(e.value), "nat"
        if isinstance(e.value, str):
            return f"Sql.{SQL.get(e.value, 'other')}", "Sql"
        raise Unsupported(f"constant {s}")
    if isinstance(e, ast.Attribute) and isinstance(e.value, ast.Name) and e.value.id in ENUMS:
        ty, members = ENUMS[e.value.id]
        if e.attr not in members:
            raise Unsupported(f"enum member {s}")
        return f"{ty}.{members[e.attr]}", ty
    if s in ATTRS:
        return ATTRS[s]
    if s in env:
        return env[s]
    if s == "len(self._connections)":
        return "s.conns.length", "nat"
    raise Unsupported(f"value {s}")


def eq(a: Tuple[str, str], b: Tuple[str, str]) -> str:
    (l, lt), (r, rt) = a, b
    if lt == "optFHealth" and rt == "FHealth":
        r = f"some {r}"
    elif rt == "optFHealth" and lt == "FHealth":
        l = f"some {l}"
    elif {lt, rt} <= {"optpw", "none"} or lt == rt:
        pass
    else:
        raise Unsupported(f"comparison of {lt} with {rt}")
    return f"({l} == {r})"


def truthy(e: ast.AST, env) -> str:
    if isinstance(e, (ast.Compare, ast.BoolOp)) or (isinstance(e, ast.UnaryOp) and isinstance(e.op, ast.Not)):
        return cond(e, env)
    s = u(e)
    if s == "self._connections.get(connection_id)":
        return "(s.hasConn connection_id)"
    v, ty = value(e, env)
    if ty == "bool":
        return v
    if ty == "file":
        return f"({v}).isSome"
    if ty == "optpw":      # Optional[str]: None and "" are falsy
        return f"(match {v} with | some n => n != 0 | none => false)"
    raise Unsupported(f"truthiness of {s} : {ty}")


def cond(e: ast.AST, env) -> str:
    if isinstance(e, ast.UnaryOp) and isinstance(e.op, ast.Not):
        return f"(!{truthy(e.operand, env)})"
    if isinstance(e, ast.BoolOp):
        op = " && " if isinstance(e.op, ast.And) else " || "
        return "(" + op.join(truthy(v, env) for v in e.values) + ")"
    if isinstance(e, ast.Compare) and len(e.ops) == 1:
        op, rhs = e.ops[0], e.comparators[0]
        if isinstance(op, ast.In) and isinstance(rhs, (ast.List, ast.Tuple)):
            l = value(e.left, env)
            return "(" + " || ".join(eq(l, value(x, env)) for x in rhs.elts) + ")"
        a, b = value(e.left, env), value(rhs, env)
        if isinstance(op, (ast.Eq, ast.Is)):
            return eq(a, b)
        if isinstance(op, (ast.NotEq, ast.IsNot)):
            return f"(!{eq(a, b)})"
        sym = {ast.GtE: "≥", ast.Gt: ">", ast.LtE: "≤", ast.Lt: "<"}.get(type(op))
        if sym and a[1] == b[1] == "nat":
            return f"(decide ({a[0]} {sym} {b[0]}))"
    raise Unsupported(f"condition {u(e)}")


def skippable(st: ast.stmt) -> bool:
    if isinstance(st, ast.Expr) and isinstance(st.value, ast.Constant) and isinstance(st.value.value, str):
        return True  # docstring
    if isinstance(st, ast.Expr) and isinstance(st.value, ast.Call) and u(st.value.func).startswith(SKIP_CALL_PREFIX):
        return True
    if isinstance(st, ast.AugAssign) and u(st.target) in SKIP_AUG:
        return True
    if isinstance(st, ast.Assign) and len(st.targets) == 1 and u(st.targets[0]) in SKIP_ASSIGN:
        return True
    if isinstance(st, ast.If) and all(skippable(x) for x in st.body + st.orelse):
        return True
    return False


class Tr:
    def __init__(self, ret, locals_: Dict[str, str]):
        self.ret = ret            # ast.Return -> lean term
        self.locals = locals_     # python local -> lean type ("nat" / "optid")

    def go(self, body: List[ast.stmt], env, ind: int) -> str:
        pad = "  " * ind
        body = list(body)
        while body and skippable(body[0]):
            body.pop(0)
        if not body:
            raise Unsupported("control falls off the end of the function")
        st, rest = body[0], body[1:]
        if isinstance(st, ast.Return):
            return pad + self.ret(st, env)
        if isinstance(st, ast.If):
            pre = ""
            test = st.test
            # `if not self.add_connection(...)`: the call has an effect; bind it first
            call = test.operand if isinstance(test, ast.UnaryOp) and isinstance(test.op, ast.Not) else test
            if isinstance(call, ast.Call) and u(call.func) == "self.add_connection":
                kws = {k.arg: u(k.value) for k in call.keywords}
                if kws != {"connection_id": "connection_id", "session_id": "session_id"} or env.get("connection_id", ("", ""))[1] != "optid":
                    raise Unsupported(f"add_connection call {u(call)}")
                pre = (f"{pad}let r := addConnection s (({env['connection_id'][0]}).getD 0) owner\n{pad}let s := r.1\n")
                c = "(!r.2)" if call is not test else "r.2"
            else:
                c = truthy(test, env)
            return (f"{pre}{pad}if {c} then\n{self.go(list(st.body) + rest, env, ind + 1)}\n{pad}else\n"
                    f"{self.go(list(st.orelse) + rest, env, ind + 1)}")
        if isinstance(st, ast.Assign) and len(st.targets) == 1:
            tgt, rhs = u(st.targets[0]), st.value
            if tgt in self.locals:
                ty = self.locals[tgt]
                if u(rhs) == "self._generate_connection_id()" and ty == "optid":
                    # uuid4() -> the issue counter
                    env2 = dict(env)
                    env2[tgt] = (tgt, ty)
                    return (f"{pad}let {tgt} : Option Nat := some s.nextId\n{pad}let s := {{ s with nextId := s.nextId + 1 }}\n"
                            + self.go(rest, env2, ind))
                v, vt = value(rhs, env)
                if not ((ty == "nat" and vt == "nat") or (ty == "optid" and vt == "none")):
                    raise Unsupported(f"assignment {u(st)}")
                env2 = dict(env)
                env2[tgt] = (tgt, ty)
                lty = "Nat" if ty == "nat" else "Option Nat"
                return f"{pad}let {tgt} : {lty} := {v}\n" + self.go(rest, env2, ind)
            if tgt == "self.db_file.health_status":
                v, vt = value(rhs, env)
                if vt != "FHealth":
                    raise Unsupported(f"assignment {u(st)}")
                return f"{pad}let s := {{ s with file := s.file.map (fun _ => {v}) }}\n" + self.go(rest, env, ind)
            if tgt == "self._connections[connection_id]":
                return (f"{pad}let s := {{ s with conns := s.conns ++ [{{ id := connection_id, owner := owner }}] }}\n"
                        + self.go(rest, env, ind))
            raise Unsupported(f"assignment {u(st)}")
        if isinstance(st, ast.Expr) and isinstance(st.value, ast.Call):
            f = u(st.value.func)
            if f == "self.set_health_state" and len(st.value.args) == 1:
                v, vt = value(st.value.args[0], env)
                if vt != "Health":
                    raise Unsupported(u(st))
                return f"{pad}let s := {{ s with health := {v} }}\n" + self.go(rest, env, ind)
            # the file API (file.py): corrupt() turns GOOD into CORRUPT only, repair() CORRUPT into GOOD only
            if f == "self.db_file.corrupt" and not st.value.args:
                return (f"{pad}let s := {{ s with file := s.file.map (fun h => if h = FHealth.good then FHealth.corrupt else h) }}\n"
                        + self.go(rest, env, ind))
            if f == "self.db_file.repair" and not st.value.args:
                return (f"{pad}let s := {{ s with file := s.file.map (fun h => if h = FHealth.corrupt then FHealth.good else h) }}\n"
                        + self.go(rest, env, ind))
        raise Unsupported(f"statement {u(st)[:100]}")


def _dict_field(d: ast.Dict, key: str):
    for k, v in zip(d.keys, d.values):
        if isinstance(k, ast.Constant) and k.value == key:
            return v
    return None


def emit() -> str:
    db = class_def(parse(DB), "DatabaseService")
    sw_tree = parse(SW)
    io = class_def(sw_tree, "IOSoftware")
    # set_health_state must be the plain setter the translation assumes
    shs = find_method(class_def(sw_tree, "Software"), "set_health_state")
    body = [x for x in shs.body if not skippable(x)]
    if [u(x) for x in body] != ["self.health_state_actual = health_state", "return True"]:
        raise Unsupported("Software.set_health_state is not a plain setter")

    # ---- add_connection(connection_id, session_id) : returns bool
    def ret_bool(st, env):
        v, ty = value(st.value, env)
        if ty != "bool":
            raise Unsupported(u(st))
        return f"(s, {v})"
    add = find_method(io, "add_connection")
    add_txt = Tr(ret_bool, {}).go(add.body, {"connection_id": ("connection_id", "nat")}, 1)

    # ---- _process_connect: returns the response dict -> (status_code, response, connection_id)
    def ret_connect(st, env):
        if not isinstance(st.value, ast.Dict):
            raise Unsupported(u(st))
        sc, resp, cid = (_dict_field(st.value, k) for k in ("status_code", "response", "connection_id"))
        if sc is None or resp is None or cid is None or u(sc) != "status_code" or u(cid) != "connection_id":
            raise Unsupported(f"_process_connect response {u(st.value)}")
        return f"(s, status_code, {cond(resp, env)}, connection_id)"
    pc = find_method(db, "_process_connect")
    pc_txt = Tr(ret_connect, {"status_code": "nat", "connection_id": "optid"}).go(pc.body, {"password": ("password", "optpw")}, 1)

    # ---- _process_sql: returns a dict -> (status_code, carries the query's uuid)
    def ret_sql(st, env):
        if not isinstance(st.value, ast.Dict):
            raise Unsupported(u(st))
        sc = _dict_field(st.value, "status_code")
        if not (isinstance(sc, ast.Constant) and isinstance(sc.value, int)):
            raise Unsupported(f"_process_sql status {u(st.value)}")
        uu = _dict_field(st.value, "uuid")
        if uu is not None and u(uu) != "query_id":
            raise Unsupported(f"_process_sql uuid field {u(uu)}")
        return f"(s, {sc.value}, {'true' if uu is not None else 'false'})"
    ps = find_method(db, "_process_sql")
    ps_txt = Tr(ret_sql, {}).go(ps.body, {"query": ("query", "Sql")}, 1)

    return "\n".join([
        "import PrimaiteModel.Model.Database",
        "namespace Primaite.Gen.DatabaseTr",
        "open Primaite.Database",
        "/-- `IOSoftware.add_connection`, translated statement by statement (software.py) -/",
        "def addConnection (s : Server) (connection_id owner : Nat) : Server × Bool :=",
        add_txt,
        "",
        "/-- `DatabaseService._process_connect`, translated: new server, status_code, `response`, `connection_id` -/",
        "def processConnect (s : Server) (owner : Nat) (password : Option Nat) : Server × Nat × Bool × Option Nat :=",
        pc_txt,
        "",
        "/-- `DatabaseService._process_sql`, translated: new server, status_code, whether the answer carries the query's uuid -/",
        "def processSql (s : Server) (query : Sql) : Server × Nat × Bool :=",
        ps_txt,
        "end Primaite.Gen.DatabaseTr", ""])
