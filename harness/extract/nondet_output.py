"""E10a-3: OUTPUT SETTINGS must not decide WHEN a random draw happens (Gen/NondetOutput.lean).  Pure ast, whole tree.

The property demands the same trajectory "with logging fully on or fully off".  A draw that is made LAZILY (inside a
`cached_property` / `computed_field` / `property`, or inside `__repr__` / `__str__`) is made when somebody first looks - and if the
somebody is a statement that only runs when logs are saved, the output settings move the draw to another position of the seeded stream.

Listed:
  lazyDraws        draw sites (random.* / numpy.random.* / <rng>.<method> / <space>.sample) whose enclosing function is decorated
                   cached_property / computed_field / property, or is called __repr__ / __str__ / __repr_args__ / __format__
  guardedFormats   inside OUTPUT-GUARDED code (see below): every non-constant expression that is formatted / repr()'d / str()'d - an
                   f-string field, `repr(x)`, `str(x)`, `format(x)`, `"%s" % x`  (pydantic's repr of a model evaluates its computed fields)
  lazyFormatArgs   logger-method calls with extra positional arguments (`logger.debug("… %s", obj)`): `obj` is formatted only if the level is on
  guardedReach     (file, function holding the guard, draw function) such that a function containing a draw site is reachable BY NAME through
                   calls from output-guarded code (transitive closure over "function name -> names it calls"; logging / IO library names
                   are not followed)

OUTPUT-GUARDED code: the body and else-branch of an `if` whose test mentions an output setting (`save_*`, `write_*_to_terminal`,
`*log_level`, `isEnabledFor`), and - when such a branch ends in return / continue / raise - the statements that follow the `if` in its block.
"""
from __future__ import annotations

import ast
import re
from typing import Dict, List, Set, Tuple

from harness.lib.core import SRC

GEN_NAME = "NondetOutput"
GUARD = re.compile(r"\bsave_\w+|\bwrite_\w+_to_terminal\b|\w*log_level\b|\bisEnabledFor\b")
LAZY_DECOS = {"cached_property", "computed_field", "property"}
LAZY_NAMES = {"__repr__", "__str__", "__repr_args__", "__format__", "__rich_repr__"}
LOG_METHODS = {"debug", "info", "warning", "error", "critical", "exception", "log"}
NOT_FOLLOWED = LOG_METHODS | {"write", "open", "dump", "dumps", "mkdir", "print", "get_string", "add_row", "append", "get", "items", "values", "keys",
                              "join", "format", "str", "repr", "len", "int", "float", "isinstance", "getLogger", "setLevel", "addHandler", "exists"}


def _lstr(x: str) -> str:
    return '"' + x.replace("\\", "/").replace('"', "'") + '"'


def _deco_names(fn) -> List[str]:
    out = []
    for d in fn.decorator_list:
        e = d.func if isinstance(d, ast.Call) else d
        out.append(e.attr if isinstance(e, ast.Attribute) else (e.id if isinstance(e, ast.Name) else ast.unparse(e)))
    return out


def _is_draw(n: ast.AST, aliases: Dict[str, str]) -> bool:
    if not isinstance(n, ast.Call):
        return False
    txt = ast.unparse(n.func)
    head = txt.split(".")[0]
    full = aliases.get(head, head) + txt[len(head):]
    if full.startswith("random.") and full.count(".") == 1 and full != "random.seed":
        return True
    if full.startswith("numpy.random.") and not full.endswith(".seed"):
        return True
    if isinstance(n.func, ast.Attribute) and (ast.unparse(n.func.value).split(".")[-1] == "rng" or
                                              (n.func.attr == "sample" and ast.unparse(n.func.value).split(".")[-1].endswith("space"))):
        return True
    return False


def _functions(tree):
    out = []

    def rec(node, prefix):
        for ch in ast.iter_child_nodes(node):
            if isinstance(ch, (ast.FunctionDef, ast.AsyncFunctionDef, ast.ClassDef)):
                q = f"{prefix}.{ch.name}" if prefix else ch.name
                if not isinstance(ch, ast.ClassDef):
                    out.append((q, ch))
                rec(ch, q)
            else:
                rec(ch, prefix)
    rec(tree, "")
    return out


def _guarded_stmts(fn) -> List[ast.stmt]:
    out: List[ast.stmt] = []

    def block(stmts):
        for i, st in enumerate(stmts):
            if isinstance(st, ast.If) and GUARD.search(ast.unparse(st.test)):
                out.extend(st.body)
                out.extend(st.orelse)
                ends = lambda b: bool(b) and isinstance(b[-1], (ast.Return, ast.Continue, ast.Raise, ast.Break))  # noqa: E731
                if ends(st.body) or ends(st.orelse):
                    out.extend(stmts[i + 1:])
                    return
            for name in ("body", "orelse", "finalbody"):
                sub = getattr(st, name, None)
                if isinstance(sub, list) and sub and isinstance(sub[0], ast.stmt) and not isinstance(st, (ast.FunctionDef, ast.ClassDef)):
                    block(sub)
            if isinstance(st, ast.Try):
                for h in st.handlers:
                    block(h.body)
    block(fn.body)
    return out


def _called_names(nodes) -> Set[str]:
    out = set()
    for st in nodes:
        for n in ast.walk(st):
            if isinstance(n, ast.Call):
                nm = n.func.attr if isinstance(n.func, ast.Attribute) else (n.func.id if isinstance(n.func, ast.Name) else None)
                if nm:
                    out.add(nm)
    return out


def collect():
    files = []
    for f in sorted(SRC.rglob("*.py")):
        rel = str(f.relative_to(SRC))
        if rel.startswith("notebooks"):
            continue
        tree = ast.parse(f.read_text())
        aliases = {}
        for n in ast.walk(tree):
            if isinstance(n, ast.Import):
                for a in n.names:
                    aliases[a.asname or a.name.split(".")[0]] = a.name if a.asname else a.name.split(".")[0]
            elif isinstance(n, ast.ImportFrom) and n.module in ("random", "numpy.random"):
                for a in n.names:
                    aliases[a.asname or a.name] = f"{n.module}.{a.name}"
        files.append((rel, tree, aliases, _functions(tree)))
    lazy, draw_fns, calls = [], set(), {}
    for rel, tree, aliases, fns in files:
        for q, fn in fns:
            own = [n for n in ast.walk(fn)]
            nm = q.split(".")[-1]
            calls.setdefault(nm, set()).update(_called_names(fn.body))
            if any(_is_draw(n, aliases) for n in own):
                draw_fns.add(nm)
                decos = [d for d in _deco_names(fn) if d in LAZY_DECOS]
                if decos or nm in LAZY_NAMES:
                    lazy.append((rel, q, tuple(sorted(decos))))
    # closure: names from which a draw function is reachable by name (logging / IO names not followed)
    reaches: Dict[str, Set[str]] = {d: {d} for d in draw_fns}
    changed = True
    while changed:
        changed = False
        for nm, cs in calls.items():
            if nm in NOT_FOLLOWED:
                continue
            acc = set(reaches.get(nm, set()))
            for c in cs:
                if c not in NOT_FOLLOWED:
                    acc |= reaches.get(c, set())
            if acc != reaches.get(nm, set()):
                reaches[nm] = acc
                changed = True
    formats, lazyargs, reach = [], [], []
    for rel, tree, aliases, fns in files:
        for q, fn in fns:
            g = _guarded_stmts(fn)
            for st in g:
                for n in ast.walk(st):
                    exprs = []
                    if isinstance(n, ast.FormattedValue):
                        exprs.append(n.value)
                    elif isinstance(n, ast.Call) and isinstance(n.func, ast.Name) and n.func.id in ("repr", "str", "format") and n.args:
                        exprs.append(n.args[0])
                    elif isinstance(n, ast.BinOp) and isinstance(n.op, ast.Mod) and isinstance(n.left, (ast.Constant, ast.JoinedStr)):
                        exprs.append(n.right)
                    for e in exprs:
                        if not isinstance(e, ast.Constant):
                            formats.append((rel, q, ast.unparse(e).replace('"', "'")[:80]))
            for nm in sorted(_called_names(g)):
                if nm in NOT_FOLLOWED:
                    continue
                for d in sorted(reaches.get(nm, set())):
                    reach.append((rel, q, d))
            for n in ast.walk(fn):
                if (isinstance(n, ast.Call) and isinstance(n.func, ast.Attribute) and n.func.attr in LOG_METHODS and len(n.args) >= 2
                        and re.search(r"log", ast.unparse(n.func.value), re.I)):
                    lazyargs.append((rel, q, ast.unparse(n).replace('"', "'")[:90]))
    return sorted(set(lazy), key=str), sorted(set(formats)), sorted(set(lazyargs)), sorted(set(reach))


def emit() -> str:
    lazy, formats, lazyargs, reach = collect()
    t3 = lambda xs: "[" + ",\n  ".join(f"({_lstr(a)}, {_lstr(b)}, {_lstr(c)})" for a, b, c in xs) + "]"  # noqa: E731
    L = ["namespace Primaite.Gen.NondetOutput",
         "/-- draw sites inside lazily evaluated functions: (file, function, lazy decorators) -/",
         "def lazyDraws : List (String × String × List String) := [" + ",\n  ".join(
             f"({_lstr(a)}, {_lstr(b)}, [{', '.join(_lstr(d) for d in c)}])" for a, b, c in lazy) + "]",
         "/-- non-constant expressions formatted / repr()'d / str()'d inside output-guarded code: (file, function, expression) -/",
         "def guardedFormats : List (String × String × String) := " + t3(formats),
         "/-- logger calls whose extra positional arguments are formatted only when the level is enabled -/",
         "def lazyFormatArgs : List (String × String × String) := " + t3(lazyargs),
         "/-- (file, function holding output-guarded code, draw function reachable by name from that code) -/",
         "def guardedReach : List (String × String × String) := " + t3(reach),
         "end Primaite.Gen.NondetOutput"]
    return "\n".join(L) + "\n"


if __name__ == "__main__":
    print(emit())
