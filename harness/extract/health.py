"""E7/E8 for C14 (health): enums, default durations, countdown idioms, request guard tables, tick order, and the
inventory of every writer of a health field under src/primaite. Pure `ast`; strict (raises on an unrecognised shape)."""
import ast
from typing import Dict, List, Optional, Tuple

from harness.extract.util import class_def, find_method, parse
from harness.lib.core import SRC

GEN_NAME = "Health"

SOFTWARE = "simulator/system/software.py"
SERVICE = "simulator/system/services/service.py"
APPLICATION = "simulator/system/applications/application.py"
ITEM = "simulator/file_system/file_system_item_abc.py"
FOLDER = "simulator/file_system/folder.py"
FILE = "simulator/file_system/file.py"
BASE = "simulator/network/hardware/base.py"


def lstr(s: str) -> str:
    return '"' + s.replace("\\", "\\\\").replace('"', '\\"') + '"'


def llist(xs: List[str]) -> str:
    return "[" + ", ".join(xs) + "]"


def enum_members(rel: str, name: str) -> List[Tuple[str, int]]:
    cls = class_def(parse(rel), name)
    out = []
    for st in cls.body:
        if isinstance(st, ast.Assign) and len(st.targets) == 1 and isinstance(st.targets[0], ast.Name):
            if not (isinstance(st.value, ast.Constant) and isinstance(st.value.value, int)):
                raise ValueError(f"{name}.{st.targets[0].id} is not an int literal")
            out.append((st.targets[0].id, st.value.value))
    if not out:
        raise ValueError(f"enum {name} has no members")
    return out


def field_default(cls: ast.ClassDef, field: str) -> str:
    for st in cls.body:
        if isinstance(st, ast.AnnAssign) and ast.unparse(st.target) == field and st.value is not None:
            return ast.unparse(st.value)
    raise ValueError(f"{cls.name}.{field}: no annotated default")


def int_default(cls: ast.ClassDef, field: str) -> int:
    v = field_default(cls, field)
    try:
        return int(v)
    except ValueError:
        raise ValueError(f"{cls.name}.{field} default {v!r} is not an int literal")


def countdown_idiom(fn: ast.FunctionDef, attr: str) -> Tuple[str, str, str]:
    """Recognise
         if self.<attr> <g> 0:                      (guard, optional)
             self.<attr> -= 1
             if self.<attr> <c> 0: ...              (completion test after the decrement)
       or  self.<attr> -= 1 ; if self.<attr> <c> 0  (no guard)
       Returns (guard operator or "none", "dec-then-test", completion operator)."""
    ops = {ast.Gt: ">", ast.GtE: ">=", ast.Eq: "==", ast.LtE: "<=", ast.Lt: "<"}

    def cmp0(test) -> Optional[str]:
        if (isinstance(test, ast.Compare) and len(test.ops) == 1 and ast.unparse(test.left) == f"self.{attr}"
                and isinstance(test.comparators[0], ast.Constant) and test.comparators[0].value == 0):
            return ops.get(type(test.ops[0]))
        return None

    def is_dec(st) -> bool:
        return (isinstance(st, ast.AugAssign) and isinstance(st.op, ast.Sub) and ast.unparse(st.target) == f"self.{attr}"
                and isinstance(st.value, ast.Constant) and st.value.value == 1)

    def scan(body, guard) -> Optional[Tuple[str, str, str]]:
        for i, st in enumerate(body):
            if is_dec(st):
                nxt = body[i + 1] if i + 1 < len(body) else None
                if isinstance(nxt, ast.If) and cmp0(nxt.test):
                    return (guard, "dec-then-test", cmp0(nxt.test))
                raise ValueError(f"{fn.name}: decrement of {attr} not followed by a completion test")
            if isinstance(st, ast.If):
                g = cmp0(st.test)
                r = scan(st.body, g if g else guard)
                if r:
                    return r
        return None
    r = scan(fn.body, "none")
    if not r:
        raise ValueError(f"{fn.name}: no countdown idiom on {attr}")
    return r


def load_expr(fn: ast.FunctionDef, attr: str) -> Tuple[str, str]:
    """`self.<attr> = <expr>` inside `fn`; returns (guard test text or "none", expr text)."""
    found = []

    def walk(body, guard):
        for st in body:
            if isinstance(st, ast.Assign) and ast.unparse(st.targets[0]) == f"self.{attr}":
                found.append((guard, ast.unparse(st.value)))
            elif isinstance(st, ast.If):
                walk(st.body, ast.unparse(st.test))
                walk(st.orelse, "not " + ast.unparse(st.test))
    walk(fn.body, "none")
    if len(found) != 1:
        raise ValueError(f"{fn.name}: expected exactly one assignment to self.{attr}, found {len(found)}")
    return found[0]


def guard_table(rel: str, cls_name: str, base: Dict[str, Optional[str]]) -> Dict[str, Optional[str]]:
    """request name -> state required by its `_StateValidator` (None = no validator), as left by `_init_request_manager`
    (later `add_request` calls overwrite earlier ones, including the base class's)."""
    cls = class_def(parse(rel), cls_name)
    fn = find_method(cls, "_init_request_manager")
    validators: Dict[str, str] = {}
    table = dict(base)
    for st in fn.body:
        if isinstance(st, ast.Assign) and isinstance(st.value, ast.Call) and ast.unparse(st.value.func).endswith("_StateValidator"):
            kw = {k.arg: ast.unparse(k.value) for k in st.value.keywords}
            if "state" not in kw:
                raise ValueError(f"{cls_name}: _StateValidator without state=")
            validators[ast.unparse(st.targets[0])] = kw["state"].split(".")[-1]
        elif isinstance(st, ast.Expr) and isinstance(st.value, ast.Call) and ast.unparse(st.value.func) == "rm.add_request":
            call = st.value
            args = list(call.args)
            kws = {k.arg: k.value for k in call.keywords}
            name = args[0] if args else kws.get("name")
            rt = args[1] if len(args) > 1 else kws.get("request_type")
            if not (isinstance(name, ast.Constant) and isinstance(rt, ast.Call)):
                raise ValueError(f"{cls_name}: unrecognised add_request shape: {ast.unparse(call)[:80]}")
            v = next((k.value for k in rt.keywords if k.arg == "validator"), None)
            if v is None:
                table[name.value] = None
            else:
                vn = ast.unparse(v)
                if vn not in validators:
                    raise ValueError(f"{cls_name}: validator {vn} is not a local _StateValidator")
                table[name.value] = validators[vn]
    return table


HEALTH_ATTRS = ("health_state_actual", "health_state_visible", "health_status", "visible_health_status")


def writers() -> List[str]:
    """Every assignment to a health attribute and every call of set_health_state under src/primaite, as
    `file:function:target<-value`. Sorted."""
    out = []
    for path in sorted(SRC.rglob("*.py")):
        rel = str(path.relative_to(SRC))
        try:
            tree = ast.parse(path.read_text())
        except SyntaxError as e:
            raise ValueError(f"cannot parse {rel}: {e}")
        funcs: List[Tuple[str, ast.AST]] = []

        def visit(node, scope):
            for ch in ast.iter_child_nodes(node):
                if isinstance(ch, (ast.FunctionDef, ast.AsyncFunctionDef)):
                    visit(ch, scope + [ch.name])
                elif isinstance(ch, ast.ClassDef):
                    visit(ch, scope + [ch.name])
                else:
                    if isinstance(ch, (ast.Assign, ast.AugAssign, ast.AnnAssign)):
                        targets = ch.targets if isinstance(ch, ast.Assign) else [ch.target]
                        for t in targets:
                            if isinstance(t, ast.Attribute) and t.attr in HEALTH_ATTRS and getattr(ch, "value", None) is not None:
                                val = ast.unparse(ch.value).replace("\n", " ")
                                val = " ".join(val.split())
                                out.append(f"{rel}:{'.'.join(scope)}:{ast.unparse(t)}<-{val}")
                    if isinstance(ch, ast.Call) and isinstance(ch.func, ast.Attribute) and ch.func.attr == "set_health_state":
                        out.append(f"{rel}:{'.'.join(scope)}:set_health_state({', '.join(ast.unparse(a) for a in ch.args)})")
                    visit(ch, scope)
        visit(tree, [])
    return sorted(out)


# ---------------------------------------------------------------------------------------------- structured inventory (round 3)
# Every way a health / visibility / countdown field of the simulator can be written, in the WHOLE tree:
#   assign      `x.<field> = v`, `x.<field>: T = v` inside a function
#   aug         `x.<field> -= 1` …
#   default     class-level `<field>: T = v`
#   call        `x.set_health_state(v)`
#   kwarg       `SomeClass(<field>=v, …)` (a constructor / call keyword named like a field)
#   copy        `SomeClass(**y.model_dump(…))` (copies every field, health included)
#   setattr     any `setattr(…)` / `object.__setattr__(…)` / `x.__dict__[…] = …` (none today; any appearance is a new row)
# Each row carries the enclosing guards (if-tests, negated early-exit tests, loops) inside its function.
INV_FIELDS = ("health_state_actual", "health_state_visible", "health_status", "visible_health_status", "revealed_to_red",
              "_scanned_this_step")


def _is_field(name: str) -> bool:
    return name in INV_FIELDS or name.endswith("_countdown")


def _always_exits(body: List[ast.stmt]) -> bool:
    if not body:
        return False
    last = body[-1]
    if isinstance(last, (ast.Return, ast.Raise, ast.Continue, ast.Break)):
        return True
    if isinstance(last, ast.If):
        return _always_exits(last.body) and _always_exits(last.orelse)
    return False


def _flat(s: str) -> str:
    return " ".join(s.replace("\n", " ").split())


TRANSLATED = {("simulator/file_system/folder.py", "Folder.scan"), ("simulator/file_system/folder.py", "Folder._scan_timestep"),
              ("simulator/file_system/file.py", "File.scan"), ("simulator/system/software.py", "Software.scan"),
              ("simulator/network/hardware/base.py", "Node.scan")}
TRANSLATED_GUARD = "<translated: C14GenScan>"


def inventory() -> List[Tuple[str, str, str, str, str, str, str]]:
    """rows (file, scope, field, kind, target, value, guard), sorted"""
    rows: List[Tuple[str, str, str, str, str, str, str]] = []
    for path in sorted(SRC.rglob("*.py")):
        rel = str(path.relative_to(SRC))
        try:
            tree = ast.parse(path.read_text())
        except SyntaxError as e:
            raise ValueError(f"cannot parse {rel}: {e}")

        def add(scope, field, kind, target, value, guards):
            sc = ".".join(scope) or "<module>"
            # the bodies of these methods are TRANSLATED statement by statement and proved equal to the model for every state
            # (extract/health_scan_tr.py, Props/C14GenScan.lean): the guard under which each write happens is tied semantically there,
            # so its TEXT is not compared here (a guard-clause rewrite of the same meaning must not break the inventory)
            g = TRANSLATED_GUARD if (rel, sc) in TRANSLATED else " && ".join(guards)
            rows.append((rel, sc, field, kind, _flat(target), _flat(value), g))

        def exprs(node, scope, guards):
            """calls / keyword writes inside one simple statement or expression (lambdas included)"""
            for c in ast.walk(node):
                if isinstance(c, ast.Call):
                    fn = c.func
                    fname = fn.attr if isinstance(fn, ast.Attribute) else (fn.id if isinstance(fn, ast.Name) else "")
                    if fname == "set_health_state":
                        add(scope, "health_state_actual", "call", ast.unparse(fn), ", ".join(ast.unparse(a) for a in c.args), guards)
                    if fname in ("setattr", "__setattr__"):
                        add(scope, "*", "setattr", ast.unparse(fn), ", ".join(ast.unparse(a) for a in c.args), guards)
                    for kw in c.keywords:
                        if kw.arg is not None and _is_field(kw.arg):
                            add(scope, kw.arg, "kwarg", ast.unparse(fn), ast.unparse(kw.value), guards)
                        if kw.arg is None and "model_dump" in ast.unparse(kw.value):
                            add(scope, "*", "copy", ast.unparse(fn), ast.unparse(kw.value), guards)

        def stmts(body, scope, guards):
            guards = list(guards)
            for st in body:
                if isinstance(st, (ast.FunctionDef, ast.AsyncFunctionDef)):
                    stmts(st.body, scope + [st.name], [])
                    continue
                if isinstance(st, ast.ClassDef):
                    klass(st, scope)
                    continue
                if isinstance(st, ast.If):
                    t = _flat(ast.unparse(st.test))
                    exprs(st.test, scope, guards)
                    stmts(st.body, scope, guards + [t])
                    stmts(st.orelse, scope, guards + [f"not ({t})"])
                    if _always_exits(st.body) and not _always_exits(st.orelse):
                        guards.append(f"not ({t})")
                    elif _always_exits(st.orelse) and st.orelse:
                        guards.append(t)
                    continue
                if isinstance(st, (ast.For, ast.AsyncFor)):
                    g = guards + [f"for {_flat(ast.unparse(st.target))} in {_flat(ast.unparse(st.iter))}"]
                    exprs(st.iter, scope, guards)
                    stmts(st.body, scope, g)
                    stmts(st.orelse, scope, guards)
                    continue
                if isinstance(st, ast.While):
                    exprs(st.test, scope, guards)
                    stmts(st.body, scope, guards + [f"while {_flat(ast.unparse(st.test))}"])
                    stmts(st.orelse, scope, guards)
                    continue
                if isinstance(st, (ast.With, ast.AsyncWith)):
                    for it in st.items:
                        exprs(it.context_expr, scope, guards)
                    stmts(st.body, scope, guards)
                    continue
                if isinstance(st, ast.Try):
                    stmts(st.body, scope, guards + ["try"])
                    for h in st.handlers:
                        stmts(h.body, scope, guards + ["except"])
                    stmts(st.orelse, scope, guards)
                    stmts(st.finalbody, scope, guards)
                    continue
                if isinstance(st, ast.Match):
                    raise ValueError(f"{rel}: match statement not supported by the inventory extractor")
                # simple statement
                if isinstance(st, (ast.Assign, ast.AugAssign, ast.AnnAssign)):
                    targets = st.targets if isinstance(st, ast.Assign) else [st.target]
                    flat_targets = []
                    for t in targets:
                        flat_targets += list(t.elts) if isinstance(t, (ast.Tuple, ast.List)) else [t]
                    for t in flat_targets:
                        if isinstance(t, ast.Attribute) and _is_field(t.attr) and getattr(st, "value", None) is not None:
                            kind = "aug" + type(st.op).__name__ if isinstance(st, ast.AugAssign) else "assign"
                            add(scope, t.attr, kind, ast.unparse(t), ast.unparse(st.value), guards)
                        if isinstance(t, ast.Subscript) and "__dict__" in ast.unparse(t.value):
                            key = t.slice.value if isinstance(t.slice, ast.Constant) and isinstance(t.slice.value, str) else None
                            val = ast.unparse(st.value) if getattr(st, "value", None) else ""
                            if key is None:
                                # a computed key can name any attribute: a wildcard row
                                add(scope, "*", "setattr", ast.unparse(t), val, guards)
                            elif _is_field(key):
                                # a literal key names one attribute: the same row as `x.<key> = …`
                                add(scope, key, "assign", ast.unparse(t), val, guards)
                            # a literal key that is none of the inventoried fields writes none of them (e.g. the environments'
                            # `self.__dict__['_generator_state']` of the F-11 repair)
                exprs(st, scope, guards)

        def klass(cls: ast.ClassDef, scope):
            for st in cls.body:
                if isinstance(st, ast.AnnAssign) and isinstance(st.target, ast.Name) and _is_field(st.target.id) and st.value is not None:
                    add(scope + [cls.name], st.target.id, "default", st.target.id, ast.unparse(st.value), [])
                elif isinstance(st, ast.Assign) and any(isinstance(t, ast.Name) and _is_field(t.id) for t in st.targets):
                    add(scope + [cls.name], st.targets[0].id, "default", st.targets[0].id, ast.unparse(st.value), [])
            stmts([s for s in cls.body], scope + [cls.name], [])

        stmts(tree.body, [], [])
    return sorted(rows)


# methods whose body writes one of the fields (directly or through another of them): every CALL SITE of one of these names in
# the whole tree is a trigger of a writer. (start / run / install only ever turn UNUSED into GOOD resp. load the install
# countdown; their call sites are construction-time and are not listed.)
TRIGGER_METHODS = ("scan", "fix", "corrupt", "repair", "restore", "restore_file", "restore_folder", "restore_backup", "check_hash",
                   "reveal_to_red", "_update_fix_status", "_scan_timestep", "_restoring_timestep", "_reveal_to_red_timestep")


def triggers() -> List[Tuple[str, str, str, str]]:
    """rows (file, scope, call text) for every call `<x>.<m>(…)` with m in TRIGGER_METHODS (super().m() included)."""
    rows = []
    for path in sorted(SRC.rglob("*.py")):
        rel = str(path.relative_to(SRC))
        tree = ast.parse(path.read_text())

        def visit(node, scope):
            for ch in ast.iter_child_nodes(node):
                if isinstance(ch, (ast.FunctionDef, ast.AsyncFunctionDef, ast.ClassDef)):
                    visit(ch, scope + [ch.name])
                    continue
                if isinstance(ch, ast.Call) and isinstance(ch.func, ast.Attribute) and ch.func.attr in TRIGGER_METHODS:
                    rows.append((rel, ".".join(scope) or "<module>", _flat(ast.unparse(ch))))
                visit(ch, scope)
        visit(tree, [])
    return sorted(rows)


def tick_bodies() -> List[Tuple[str, List[str]]]:
    """the top-level statements (docstrings dropped; compound statements by their header) of every `apply_timestep` on the path
    from the simulation to a health item, and of the timed helpers: an edit of any of them must be re-examined against the model"""
    wanted = [("simulator/sim_container.py", "Simulation", "apply_timestep"),
              ("simulator/network/container.py", "Network", "apply_timestep"),
              (SOFTWARE, "Software", "apply_timestep"), (SOFTWARE, "Software", "_update_fix_status"),
              (SERVICE, "Service", "apply_timestep"), (APPLICATION, "Application", "apply_timestep"),
              ("simulator/file_system/file_system.py", "FileSystem", "apply_timestep"),
              (FOLDER, "Folder", "apply_timestep"), (FILE, "File", "apply_timestep")]
    out = []
    for rel, cls, meth in wanted:
        fn = find_method(class_def(parse(rel), cls), meth)
        body = [st for st in fn.body if not (isinstance(st, ast.Expr) and isinstance(st.value, ast.Constant) and isinstance(st.value.value, str))]
        out.append((f"{cls}.{meth}", [_flat(ast.unparse(st)) for st in body]))
    return out


def tick_overrides_conditional() -> List[str]:
    """`apply_timestep` overrides (whole simulator tree) in which `super().apply_timestep(…)` is NOT reached on every path:
    the call must stand in a top-level statement of the function, and no statement before it may contain a return / raise.
    (An early `return` in front of the super call freezes the fix / install countdown in exactly the states it tests.)"""
    bad = []
    for path in sorted((SRC / "simulator").rglob("*.py")):
        rel = str(path.relative_to(SRC))
        tree = ast.parse(path.read_text())
        for cls in [n for n in ast.walk(tree) if isinstance(n, ast.ClassDef)]:
            for fn in cls.body:
                if not (isinstance(fn, ast.FunctionDef) and fn.name == "apply_timestep"):
                    continue
                if not cls.bases or all(ast.unparse(b) in ("ABC", "BaseModel", "object") for b in cls.bases):
                    continue
                idx = None
                for i, st in enumerate(fn.body):
                    if isinstance(st, (ast.Expr, ast.Return)) and st.value is not None and isinstance(st.value, ast.Call) \
                            and ast.unparse(st.value.func) == "super().apply_timestep":
                        idx = i
                        break
                if idx is None:
                    bad.append(f"{rel}:{cls.name}:super-call-not-top-level")
                    continue
                for st in fn.body[:idx]:
                    if any(isinstance(x, (ast.Return, ast.Raise)) for x in ast.walk(st)):
                        bad.append(f"{rel}:{cls.name}:exit-before-super")
                        break
    return sorted(bad)


def tick_overrides() -> List[str]:
    """Every `apply_timestep` defined in a class under simulator/system, with whether it reaches `super().apply_timestep`.
    (An override that does not would freeze the fix/install countdowns of that class: F-C14 data-manipulation-bot.)"""
    out = []
    for path in sorted((SRC / "simulator" / "system").rglob("*.py")):
        rel = str(path.relative_to(SRC))
        tree = ast.parse(path.read_text())
        for cls in [n for n in ast.walk(tree) if isinstance(n, ast.ClassDef)]:
            for fn in cls.body:
                if isinstance(fn, ast.FunctionDef) and fn.name == "apply_timestep":
                    calls_super = any(isinstance(c, ast.Call) and ast.unparse(c.func) == "super().apply_timestep" for c in ast.walk(fn))
                    out.append(f"{rel}:{cls.name}:{'super' if calls_super else 'NO-SUPER'}")
    return sorted(out)


def node_tick_order() -> List[str]:
    """Order of the health-relevant blocks inside `Node.apply_timestep`'s `if operating_state == ON:` block."""
    node = class_def(parse(BASE), "Node")
    fn = find_method(node, "apply_timestep")
    on_block = None
    for st in fn.body:
        if isinstance(st, ast.If) and ast.unparse(st.test) == "self.operating_state == NodeOperatingState.ON":
            on_block = st
    if on_block is None:
        raise ValueError("Node.apply_timestep: no `if self.operating_state == NodeOperatingState.ON` block")
    order = []
    for st in on_block.body:
        src = ast.unparse(st)
        if isinstance(st, ast.If) and "node_scan_countdown" in ast.unparse(st.test):
            order.append("node-scan")
            # fan-out order inside
            inner = [s for s in ast.walk(st) if isinstance(s, ast.Call)]
            fan = []
            for s in ast.walk(st):
                if isinstance(s, ast.Call):
                    t = ast.unparse(s)
                    if t.endswith(".scan()") or "scan(instant_scan=True)" in t:
                        fan.append(t)
            order.append("fan-out:" + "|".join(fan))
        elif isinstance(st, ast.If) and "red_scan_countdown" in ast.unparse(st.test):
            order.append("red-scan")
        elif isinstance(st, ast.For) and "apply_timestep" in src:
            order.append("tick:" + ast.unparse(st.iter))
        elif isinstance(st, ast.Expr) and "apply_timestep" in src:
            order.append("tick:" + src.split(".apply_timestep")[0])
        else:
            raise ValueError(f"Node.apply_timestep ON block: unrecognised statement {src[:60]}")
    return order


def folder_tick_order() -> List[str]:
    fn = find_method(class_def(parse(FOLDER), "Folder"), "apply_timestep")
    out = []
    for st in fn.body:
        if isinstance(st, ast.Expr) and isinstance(st.value, ast.Call):
            t = ast.unparse(st.value.func)
            if t.startswith("self._"):
                out.append(t[len("self."):])
    return out


# ------------------------------------------------------------------------------------------ what the agent is shown for a folder
OBS = "game/agent/observations/file_system_observations.py"
GAME = "game/game.py"
FILESYSTEM = "simulator/file_system/file_system.py"


def _pos_neg(test: ast.expr) -> Tuple[str, str]:
    """a test and its negation in one normal form (`not X` <-> `X`), so that swapping the branches of an `if` gives the same rows"""
    if isinstance(test, ast.UnaryOp) and isinstance(test.op, ast.Not):
        x = _flat(ast.unparse(test.operand))
        return f"not ({x})", x
    x = _flat(ast.unparse(test))
    return (f"({x})" if isinstance(test, ast.BoolOp) else x), f"not ({x})"


def decision_rows(fn: ast.FunctionDef) -> List[Tuple[str, str, str]]:
    """the function as a guarded-effect table: one row (effect, guard, value) per assignment / return / loop-free call statement,
    the guard being the conjunction (sorted) of the enclosing tests and of the negated tests of earlier always-exiting branches.
    Independent of the order of `if` branches and of guard-clause vs nested style; strict: loops and try blocks are refused."""
    rows: List[Tuple[str, str, str]] = []

    def walk(body, guards):
        guards = list(guards)
        for st in body:
            g = " && ".join(sorted(guards))
            if isinstance(st, ast.Expr) and isinstance(st.value, ast.Constant):
                continue
            if isinstance(st, ast.If):
                pos, neg = _pos_neg(st.test)
                walk(st.body, guards + [pos])
                walk(st.orelse, guards + [neg])
                if _always_exits(st.body) and not _always_exits(st.orelse):
                    guards.append(neg)
                elif st.orelse and _always_exits(st.orelse) and not _always_exits(st.body):
                    guards.append(pos)
            elif isinstance(st, ast.Assign) and len(st.targets) == 1:
                rows.append(("set " + _flat(ast.unparse(st.targets[0])), g, _flat(ast.unparse(st.value))))
            elif isinstance(st, ast.Return):
                rows.append(("return", g, _flat(ast.unparse(st.value)) if st.value is not None else "None"))
            elif isinstance(st, ast.Expr):
                rows.append(("do", g, _flat(ast.unparse(st.value))))
            else:
                raise ValueError(f"{fn.name}: statement shape not recognised: {_flat(ast.unparse(st))[:80]}")
    walk(fn.body, [])
    return sorted(rows)


OBS_ATOMS = {"folder_state is NOT_PRESENT_IN_STATE": "absent", "self.file_system_requires_scan": "rq",
             "folder_state['scanned_this_step']": "scanned", "self._cached_uuid is None": "idNone",
             "folder_state.get('uuid') == self._cached_uuid": "idSame", "folder_state['uuid'] == self._cached_uuid": "idSame",
             "self._cached_uuid == folder_state.get('uuid')": "idSame", "self._cached_uuid is not None": "!idNone",
             "folder_state is not NOT_PRESENT_IN_STATE": "!absent", "self.files": "files"}
OBS_BITS = ("absent", "rq", "scanned", "idNone", "idSame")


def observe_truth():
    """`FolderObservation.observe` EXECUTED symbolically (pure ast) for every valuation of its five Boolean inputs - folder absent
    from the state dictionary, requires_scan, the folder's scanned_this_step, no uuid cached yet, cached uuid equals the folder's -:
    what is returned, which expression becomes the reported health, whether the cache / the cached uuid are written. A SEMANTIC
    table: any rewrite of the control flow with the same meaning (swapped branches, De Morgan, guard clauses, helper locals) gives
    the same rows. Strict: an unknown test atom, a loop or a non-Boolean `if` test is refused."""
    fn = find_method(class_def(parse(OBS), "FolderObservation"), "observe")

    class Ret(Exception):
        pass

    def run(val: Dict[str, bool]):
        env: Dict[str, object] = {}
        raw: Dict[str, str] = {}

        def ev(e):
            """Boolean value of `e`, or None when it is not a Boolean over the atoms"""
            if isinstance(e, ast.BoolOp):
                vs = [ev(x) for x in e.values]
                if any(v is None for v in vs):
                    return None
                return all(vs) if isinstance(e.op, ast.And) else any(vs)
            if isinstance(e, ast.UnaryOp) and isinstance(e.op, ast.Not):
                v = ev(e.operand)
                return None if v is None else not v
            if isinstance(e, ast.Name) and isinstance(env.get(e.id), bool):
                return env[e.id]
            key = OBS_ATOMS.get(_flat(ast.unparse(e)))
            if key is None:
                return None
            return (not val[key[1:]]) if key.startswith("!") else val[key]

        out = {"ret": None}

        def block(body):
            for st in body:
                if isinstance(st, ast.Expr) and isinstance(st.value, ast.Constant):
                    continue
                if isinstance(st, ast.If):
                    t = ev(st.test)
                    if t is None:
                        raise ValueError(f"FolderObservation.observe: test not over the known atoms: {_flat(ast.unparse(st.test))}")
                    block(st.body if t else st.orelse)
                elif isinstance(st, ast.Assign) and len(st.targets) == 1:
                    tgt = _flat(ast.unparse(st.targets[0]))
                    raw[tgt] = _flat(ast.unparse(st.value))
                    v = ev(st.value)
                    if v is None:
                        v = st.value
                        # a local that merely names another local (obs['health_status'] = health_status)
                        if isinstance(v, ast.Name) and v.id in env:
                            v = env[v.id]
                    env[tgt] = v
                elif isinstance(st, ast.Return):
                    out["ret"] = _flat(ast.unparse(st.value)) if st.value is not None else "None"
                    raise Ret()
                else:
                    raise ValueError(f"FolderObservation.observe: statement shape not recognised: {_flat(ast.unparse(st))[:80]}")
        try:
            block(fn.body)
        except Ret:
            pass

        def show(x):
            return "-" if x is None else (_flat(ast.unparse(x)) if isinstance(x, ast.AST) else str(x))
        health = env.get("obs['health_status']")
        caches = raw.get("self.cached_obs") == "obs" and out["ret"] == "obs"
        uuid = show(env.get("self._cached_uuid"))
        return (out["ret"], show(health), caches, uuid)

    rows = []
    for k in range(2 ** len(OBS_BITS)):
        val = {b: bool((k >> (len(OBS_BITS) - 1 - i)) & 1) for i, b in enumerate(OBS_BITS)}
        val["files"] = False
        rows.append(([val[b] for b in OBS_BITS], run(val)))
    return rows


def pre_chain() -> List[Tuple[str, str, str, str]]:
    """rows (scope, receiver.pre_timestep, loop it sits in, guard): every call of a `pre_timestep` inside the `pre_timestep`
    methods on the path game -> simulation -> network -> node -> file system -> folder"""
    wanted = [(GAME, "PrimaiteGame"), ("simulator/sim_container.py", "Simulation"), ("simulator/network/container.py", "Network"),
              (BASE, "Node"), (FILESYSTEM, "FileSystem"), (FOLDER, "Folder")]
    rows = []
    for rel, cls in wanted:
        fn = find_method(class_def(parse(rel), cls), "pre_timestep")

        def walk(body, loops, guards):
            guards = list(guards)
            for st in body:
                if isinstance(st, ast.If):
                    pos, neg = _pos_neg(st.test)
                    walk(st.body, loops, guards + [pos])
                    walk(st.orelse, loops, guards + [neg])
                    if _always_exits(st.body):
                        guards.append(neg)
                elif isinstance(st, ast.For):
                    walk(st.body, loops + [f"for {_flat(ast.unparse(st.target))} in {_flat(ast.unparse(st.iter))}"], guards)
                elif isinstance(st, (ast.While, ast.Try, ast.With)):
                    raise ValueError(f"{cls}.pre_timestep: statement shape not recognised")
                else:
                    for c in ast.walk(st):
                        if isinstance(c, ast.Call) and isinstance(c.func, ast.Attribute) and c.func.attr == "pre_timestep":
                            rows.append((f"{cls}.pre_timestep", _flat(ast.unparse(c.func)), "; ".join(loops), " && ".join(sorted(guards))))
        walk(fn.body, [], [])
    return rows


def game_step_order() -> List[str]:
    """the order, inside `PrimaiteGame.step`, of the four phases that matter for an observation, with the guard each sits under;
    and what `advance_timestep` / `pre_timestep` hand to the simulation"""
    cls = class_def(parse(GAME), "PrimaiteGame")
    phases = ("pre_timestep", "apply_agent_actions", "advance_timestep", "update_agents")
    out = []

    def walk(body, guards):
        for st in body:
            if isinstance(st, ast.If):
                pos, neg = _pos_neg(st.test)
                walk(st.body, guards + [pos])
                walk(st.orelse, guards + [neg])
                continue
            for c in ast.walk(st):
                if (isinstance(c, ast.Call) and isinstance(c.func, ast.Attribute) and c.func.attr in phases
                        and isinstance(c.func.value, ast.Name) and c.func.value.id == "self"):
                    out.append(c.func.attr + ("" if not guards else " [" + " && ".join(guards) + "]"))
    walk(find_method(cls, "step").body, [])
    for meth, callee in (("advance_timestep", "apply_timestep"), ("pre_timestep", "pre_timestep")):
        fn = find_method(cls, meth)
        calls = [_flat(ast.unparse(c.func)) for st in fn.body for c in ast.walk(st)
                 if isinstance(c, ast.Call) and isinstance(c.func, ast.Attribute) and c.func.attr == callee]
        if isinstance(fn.body[-1], ast.If) or any(isinstance(st, (ast.If, ast.For, ast.While, ast.Try)) for st in fn.body):
            raise ValueError(f"PrimaiteGame.{meth}: compound statement, re-examine")
        out.append(f"{meth} -> " + ",".join(calls))
    return out


def state_keys() -> List[Tuple[str, str, str]]:
    """(scope, key, expression) of the state-dictionary entries a folder observation reads"""
    rows = []
    for rel, cls, keys in ((ITEM, "FileSystemItemABC", ("health_status", "visible_status")), (FOLDER, "Folder", ("scanned_this_step",)),
                           (FILESYSTEM, "FileSystem", ("folders",))):
        fn = find_method(class_def(parse(rel), cls), "describe_state")
        for r in decision_rows(fn):
            for k in keys:
                if r[0] == f"set state['{k}']":
                    rows.append((f"{cls}.describe_state", k, r[2] + ("" if not r[1] else f" [{r[1]}]")))
    return rows


def emit() -> str:
    sw_enum = enum_members(SOFTWARE, "SoftwareHealthState")
    fs_enum = enum_members(ITEM, "FileSystemItemHealthStatus")
    sw_cls = class_def(parse(SOFTWARE), "Software")
    cfg = next(n for n in sw_cls.body if isinstance(n, ast.ClassDef) and n.name == "ConfigSchema")
    fix_dur = int_default(cfg, "fixing_duration")
    start_health = field_default(cfg, "starting_health_state").split(".")[-1]
    sw_actual0 = field_default(sw_cls, "health_state_actual").split(".")[-1]
    sw_visible0 = field_default(sw_cls, "health_state_visible").split(".")[-1]
    # fix(): accepted states + what it loads
    fix = find_method(sw_cls, "fix")
    test = next((st for st in fix.body if isinstance(st, ast.If)), None)
    if not (test and isinstance(test.test, ast.Compare) and isinstance(test.test.ops[0], ast.In)
            and ast.unparse(test.test.left) == "self.health_state_actual" and isinstance(test.test.comparators[0], ast.Tuple)):
        raise ValueError("Software.fix: guard `self.health_state_actual in (…)` not found")
    order = {k: v for k, v in sw_enum}
    fix_accepts = sorted((ast.unparse(e).split(".")[-1] for e in test.test.comparators[0].elts), key=lambda k: order[k])
    fix_load = load_expr(fix, "_fixing_countdown")
    fix_idiom = countdown_idiom(find_method(sw_cls, "_update_fix_status"), "_fixing_countdown")
    sw_tick = find_method(sw_cls, "apply_timestep")
    sw_tick_guard = next((ast.unparse(st.test) for st in sw_tick.body if isinstance(st, ast.If)), None)
    scan_body = [ast.unparse(st) for st in find_method(sw_cls, "scan").body if not isinstance(st, ast.Expr)]
    # application install idiom
    app_cls = class_def(parse(APPLICATION), "Application")
    install_idiom = countdown_idiom(find_method(app_cls, "apply_timestep"), "install_countdown")
    # guard tables
    base_guards = guard_table(SOFTWARE, "Software", {})
    svc_guards = guard_table(SERVICE, "Service", base_guards)
    app_guards = guard_table(APPLICATION, "Application", base_guards)
    # folder
    fo = class_def(parse(FOLDER), "Folder")
    item = class_def(parse(ITEM), "FileSystemItemABC")
    f_scan_idiom = countdown_idiom(find_method(fo, "_scan_timestep"), "scan_countdown")
    f_rest_idiom = countdown_idiom(find_method(fo, "_restoring_timestep"), "restore_countdown")
    f_scan_load = load_expr(find_method(fo, "scan"), "scan_countdown")
    f_rest_load = load_expr(find_method(fo, "restore"), "restore_countdown")
    # node
    node = class_def(parse(BASE), "Node")
    ncfg = next(n for n in node.body if isinstance(n, ast.ClassDef) and n.name == "ConfigSchema")
    n_idiom = countdown_idiom(find_method(node, "apply_timestep"), "node_scan_countdown")
    n_load = load_expr(find_method(node, "scan"), "node_scan_countdown")
    r_idiom = countdown_idiom(find_method(node, "apply_timestep"), "red_scan_countdown")
    r_load = load_expr(find_method(node, "reveal_to_red"), "red_scan_countdown")

    def pairs(xs):
        return llist([f"({lstr(a)}, {b})" for a, b in xs])

    def guards(t):
        return llist([f"({lstr(k)}, {lstr(v) if v else lstr('-')})" for k, v in sorted(t.items())])

    def triple(t):
        return f"({lstr(t[0])}, {lstr(t[1])}, {lstr(t[2])})"

    def pair(t):
        return f"({lstr(t[0])}, {lstr(t[1])})"

    return f"""namespace Primaite.Gen.Health
def swHealth : List (String × Nat) := {pairs(sw_enum)}
def fsHealth : List (String × Nat) := {pairs(fs_enum)}
/-- Software.ConfigSchema.fixing_duration / starting_health_state; class defaults of actual / visible -/
def fixingDurationDefault : Int := {fix_dur}
def startingHealthDefault : String := {lstr(start_health)}
def swActualDefault : String := {lstr(sw_actual0)}
def swVisibleDefault : String := {lstr(sw_visible0)}
/-- `Software.fix` accepts these actual states -/
def fixAccepts : List String := {llist([lstr(x) for x in fix_accepts])}
/-- (guard, value) of the assignment to `_fixing_countdown` in `fix` -/
def fixLoad : String × String := {pair(fix_load)}
/-- (guard on the countdown, order, completion comparator against 0) -/
def fixIdiom : String × String × String := {triple(fix_idiom)}
def installIdiom : String × String × String := {triple(install_idiom)}
def swTickGuard : String := {lstr(sw_tick_guard or "none")}
def swScanBody : List String := {llist([lstr(x) for x in scan_body])}
/-- effective request-name → required operating state ("-" = no validator) -/
def serviceGuards : List (String × String) := {guards(svc_guards)}
def applicationGuards : List (String × String) := {guards(app_guards)}
/-- FileSystemItemABC defaults -/
def itemHealthDefault : String := {lstr(field_default(item, "health_status").split(".")[-1])}
def itemVisibleDefault : String := {lstr(field_default(item, "visible_health_status").split(".")[-1])}
def folderScanDurationDefault : Int := {int_default(fo, "scan_duration")}
def folderRestoreDurationDefault : Int := {int_default(fo, "restore_duration")}
def folderScanCountdownDefault : Int := {int_default(fo, "scan_countdown")}
def folderRestoreCountdownDefault : Int := {int_default(fo, "restore_countdown")}
def folderScanIdiom : String × String × String := {triple(f_scan_idiom)}
def folderRestoreIdiom : String × String × String := {triple(f_rest_idiom)}
def folderScanLoad : String × String := {pair(f_scan_load)}
def folderRestoreLoad : String × String := {pair(f_rest_load)}
def folderTickOrder : List String := {llist([lstr(x) for x in folder_tick_order()])}
def nodeScanDurationDefault : Int := {int_default(ncfg, "node_scan_duration")}
def nodeScanCountdownDefault : Int := {int_default(node, "node_scan_countdown")}
def nodeScanIdiom : String × String × String := {triple(n_idiom)}
def nodeScanLoad : String × String := {pair(n_load)}
/-- the reveal-to-red scan of the node (same block of `apply_timestep`, same duration) -/
def redScanCountdownDefault : Int := {int_default(node, "red_scan_countdown")}
def redScanIdiom : String × String × String := {triple(r_idiom)}
def redScanLoad : String × String := {pair(r_load)}
/-- blocks of `Node.apply_timestep` under `operating_state == ON`, in order -/
def nodeTickOrder : List String := {llist([lstr(x) for x in node_tick_order()])}
/-- every `apply_timestep` override under simulator/system and whether it reaches super() -/
def tickOverrides : List String := {llist([lstr(x) for x in tick_overrides()])}
def tickOverridesWithoutSuper : List String := {llist([lstr(x) for x in tick_overrides() if x.endswith("NO-SUPER")])}
/-- every writer of a health attribute under src/primaite -/
def writers : List String := [
  {(",{}  ".format(chr(10))).join(lstr(w) for w in writers())}]
/-- `apply_timestep` overrides in which `super().apply_timestep(…)` is not reached on every path (early exit in front of it,
or the call nested in a compound statement) -/
def tickOverridesConditional : List String := {llist([lstr(x) for x in tick_overrides_conditional()])}
/-- top-level statements of every `apply_timestep` between the simulation and a health item, and of `_update_fix_status` -/
def tickBodies : List (String × List String) := [
  {(",{}  ".format(chr(10))).join("(" + lstr(k) + ", " + llist([lstr(x) for x in v]) + ")" for k, v in tick_bodies())}]
/-- one way a health / visibility / countdown field is written somewhere under src/primaite:
kind = assign | aug<Op> | default (class level) | call (set_health_state) | kwarg | copy (model_dump into a constructor) | setattr;
guard = the enclosing tests inside the function (negated early-exit tests included), joined by && -/
structure W where
  file : String
  scope : String
  field : String
  kind : String
  target : String
  value : String
  guard : String
deriving DecidableEq, Repr
/-- the complete inventory, sorted -/
def inventory : List W := [
  {(",{}  ".format(chr(10))).join("⟨" + ", ".join(lstr(c) for c in r) + "⟩" for r in inventory())}]
/-- a call site of one of the methods that write those fields -/
structure T where
  file : String
  scope : String
  call : String
deriving DecidableEq, Repr
/-- `FolderObservation.observe` as a guarded-effect table (effect, guard, value) -/
def folderObserve : List (String × String × String) := [
  {(",{}  ".format(chr(10))).join("(" + ", ".join(lstr(c) for c in r) + ")" for r in decision_rows(find_method(class_def(parse(OBS), "FolderObservation"), "observe")))}]
/-- `FolderObservation.observe` executed symbolically for every valuation of (absent, requires_scan, scanned_this_step, no uuid
cached, cached uuid = the folder's): (valuation, returned, reported health, cache written?, cached uuid written) -/
def folderObserveTruth : List (List Bool × String × String × Bool × String) := [
  {(",{}  ".format(chr(10))).join("([" + ", ".join("true" if x else "false" for x in a) + "], " + lstr(b[0]) + ", " + lstr(b[1]) + ", " + ("true" if b[2] else "false") + ", " + lstr(b[3]) + ")" for a, b in observe_truth())}]
/-- every `pre_timestep` call on the path game -> folder: (scope, call, enclosing loops, guard) -/
def preChain : List (String × String × String × String) := [
  {(",{}  ".format(chr(10))).join("(" + ", ".join(lstr(c) for c in r) + ")" for r in pre_chain())}]
/-- order of the phases of `PrimaiteGame.step`, and what the game hands to the simulation -/
def gameStepOrder : List String := {llist([lstr(x) for x in game_step_order()])}
/-- the state-dictionary entries a folder observation reads -/
def stateKeys : List (String × String × String) := [
  {(",{}  ".format(chr(10))).join("(" + ", ".join(lstr(c) for c in r) + ")" for r in state_keys())}]
def triggerMethods : List String := {llist([lstr(x) for x in TRIGGER_METHODS])}
def triggers : List T := [
  {(",{}  ".format(chr(10))).join("⟨" + ", ".join(lstr(c) for c in r) + "⟩" for r in triggers())}]
end Primaite.Gen.Health
"""
