"""E9c (C01, totality): `SoftwareManager.uninstall` translated STATEMENT BY STATEMENT into the statement language of
lean/PrimaiteModel/Model/EpisodeRegs.lean.  Pure ast.

Every statement of the method body is recognised SEMANTICALLY (names of loop variables, the side of `==` the parameter stands on,
logging calls, `del`, a trailing `return` do not matter) and mapped to one constructor; a statement that is not recognised raises
(strict), so a new statement can never be skipped silently.  What the constructors mean - in particular WHICH of them can raise
(`d[k]`, `d.pop(k)` without default, `remove_request`) - is fixed by the interpreter `EpisodeRegs.exec`; the theorems of
Props/C01Regs.lean are about the translated body `Gen.EpisodeRegs.uninstallBody`.
"""
from __future__ import annotations

import ast
from typing import List, Optional

from harness.extract.util import class_def, find_method, parse

GEN_NAME = "EpisodeRegs"
SRC = "simulator/system/core/software_manager.py"
PARAM = "software_name"
OBJ = "software"
OBJREG = {"self.node.applications": "applications", "self.node.services": "services"}
ROUTEREG = {"self.node._application_request_manager": "app", "self.node._service_request_manager": "svc"}
PORTMAP = "self.port_protocol_mapping"
CLASSMAP = "self._software_class_to_name_map"


def _u(e: ast.AST) -> str:
    return ast.unparse(e)


def _is_log(st: ast.stmt) -> bool:
    return isinstance(st, ast.Expr) and isinstance(st.value, ast.Call) and _u(st.value.func).startswith(("self.sys_log.", "self.node.sys_log.", "_LOGGER."))


def _default_none(call: ast.Call) -> Optional[bool]:
    """pop(k) -> False, pop(k, None) -> True, anything else -> None (not recognised)"""
    if len(call.args) == 1 and not call.keywords:
        return False
    if len(call.args) == 2 and not call.keywords:
        return True        # any default: the pop cannot raise
    return None


def _scan_pop(st: ast.For) -> Optional[str]:
    """`for K, V in <D>.items(): if <V.name | V> == software_name: <D>.pop(K); break`"""
    if st.orelse or not (isinstance(st.iter, ast.Call) and isinstance(st.iter.func, ast.Attribute) and st.iter.func.attr == "items" and not st.iter.args):
        return None
    d = _u(st.iter.func.value)
    if not (isinstance(st.target, ast.Tuple) and len(st.target.elts) == 2 and all(isinstance(e, ast.Name) for e in st.target.elts)):
        return None
    k, v = (e.id for e in st.target.elts)
    if len(st.body) != 1 or not isinstance(st.body[0], ast.If) or st.body[0].orelse:
        return None
    cond, body = st.body[0].test, st.body[0].body
    if not (isinstance(cond, ast.Compare) and len(cond.ops) == 1 and isinstance(cond.ops[0], ast.Eq)):
        return None
    sides = {_u(cond.left), _u(cond.comparators[0])}
    if len(body) != 2 or not isinstance(body[1], ast.Break) or not isinstance(body[0], ast.Expr) or _u(body[0].value) != f"{d}.pop({k})":
        return None
    if d == PORTMAP and sides == {f"{v}.name", PARAM}:
        return "scanPopPort"
    if d == CLASSMAP and sides == {v, PARAM}:
        return "scanPopClass"
    return None


def _act(st: ast.stmt) -> Optional[str]:
    """One statement that acts on the popped object -> an `Act` constructor (Lean syntax), or None."""
    if _is_log(st) or isinstance(st, ast.Delete) and all(isinstance(t, ast.Name) for t in st.targets):
        return ".noop"
    if isinstance(st, ast.Assign) and _u(st.targets[0]) == f"{OBJ}.parent" and _u(st.value) == "None":
        return ".noop"
    if isinstance(st, ast.For):
        r = _scan_pop(st)
        return f".{r}" if r else None
    if isinstance(st, ast.Expr) and isinstance(st.value, ast.Call) and isinstance(st.value.func, ast.Attribute):
        call = st.value
        recv, meth = _u(call.func.value), call.func.attr
        if recv == OBJ and meth == "uninstall" and not call.args and not call.keywords:
            return ".noop"
        if meth == "pop":
            dflt = _default_none(call)
            if dflt is None:
                return None
            key = _u(call.args[0])
            suffix = "Default" if dflt else ""
            if recv in OBJREG and key == f"{OBJ}.uuid":
                return f"(.popByUuid{suffix} .{OBJREG[recv]})"
            if recv == PORTMAP and key == f"({OBJ}.port, {OBJ}.protocol)":
                return f".popPortKey{suffix}"
            if recv == CLASSMAP and key in (f"type({OBJ})", f"{OBJ}.__class__"):
                return f".popClassKey{suffix}"
            return None
        if meth == "remove_request" and recv in ROUTEREG and len(call.args) == 1 and not call.keywords:
            arg = _u(call.args[0])
            ref = {PARAM: ".param", f"{OBJ}.name": ".objName"}.get(arg)
            return f"(.removeRoute .{ROUTEREG[recv]} {ref})" if ref else None
    return None


def _acts(stmts: List[ast.stmt], where: str) -> List[str]:
    out = []
    for st in stmts:
        a = _act(st)
        if a is None:
            raise ValueError(f"SoftwareManager.uninstall: unrecognised statement in {where}: {_u(st)[:120]}")
        out.append(a)
    return out


def _isinstance_of(test: ast.expr) -> Optional[str]:
    if isinstance(test, ast.Call) and _u(test.func) == "isinstance" and len(test.args) == 2 and _u(test.args[0]) == OBJ:
        return _u(test.args[1])
    return None


def translate_uninstall() -> List[str]:
    fn = find_method(class_def(parse(SRC), "SoftwareManager"), "uninstall")
    if [a.arg for a in fn.args.args] != ["self", PARAM]:
        raise ValueError("SoftwareManager.uninstall: signature changed")
    body = list(fn.body)
    if body and isinstance(body[0], ast.Expr) and isinstance(body[0].value, ast.Constant) and isinstance(body[0].value.value, str):
        body = body[1:]
    out: List[str] = []
    for st in body:
        src = _u(st)
        if isinstance(st, ast.If) and _u(st.test) == f"{PARAM} not in self.software" and not st.orelse and \
                isinstance(st.body[-1], ast.Return) and st.body[-1].value is None and all(_is_log(x) for x in st.body[:-1]):
            out.append(".guardInstalled")
        elif src == f"self.software[{PARAM}].uninstall()":
            out.append(".lookupUninstall")
        elif src == f"{OBJ} = self.software.pop({PARAM})":
            out.append(".popSoftware")
        elif isinstance(st, ast.If) and _isinstance_of(st.test) == "Application":
            app = _acts(st.body, "the Application branch")
            svc: List[str] = []
            if st.orelse:
                if not (len(st.orelse) == 1 and isinstance(st.orelse[0], ast.If) and _isinstance_of(st.orelse[0].test) == "Service" and not st.orelse[0].orelse):
                    raise ValueError(f"SoftwareManager.uninstall: unrecognised else-branch of the isinstance chain: {_u(st.orelse[0])[:120]}")
                svc = _acts(st.orelse[0].body, "the Service branch")
            out.append(f"(.kindChain [{', '.join(app)}] [{', '.join(svc)}])")
        elif isinstance(st, ast.Return) and st.value is None:
            out.append(".ret")
        else:
            a = _act(st)
            if a is None:
                raise ValueError(f"SoftwareManager.uninstall: unrecognised statement: {src[:160]}")
            out.append(f"(.act {a})")
    return out


def emit() -> str:
    stmts = translate_uninstall()
    L = ["import PrimaiteModel.Model.EpisodeRegs", "namespace Primaite.Gen.EpisodeRegs", "open Primaite.EpisodeRegs", "",
         f"/-- `SoftwareManager.uninstall` ({SRC}), one constructor per statement, in source order -/",
         "def uninstallBody : List Stmt := [\n  " + ",\n  ".join(stmts) + "]", "",
         "end Primaite.Gen.EpisodeRegs"]
    return "\n".join(L) + "\n"


# ------------------------------------------------------------------------------------------------ SoftwareManager.install
NEW = "software"
WRITE_TARGETS = ("self.node.applications[software.uuid]", "self.node.services[software.uuid]", "self.software[software.name]",
                 "self._software_class_to_name_map[software_class]", "self.port_protocol_mapping[software.port, software.protocol]",
                 "self.port_protocol_mapping[(software.port, software.protocol)]")


def _add_request_cannot_raise() -> bool:
    fn = find_method(class_def(parse("simulator/core.py"), "RequestManager"), "add_request")
    return not any(isinstance(n, (ast.Raise, ast.Assert)) for n in ast.walk(fn))


def _install_write(st: ast.stmt) -> bool:
    """a statement of `install` that cannot raise: dict item assignment, attribute assignment, logging, `add_request`, the lifecycle
    calls `software.start()` / `software.install()` (their totality is C13's subject)"""
    if _is_log(st):
        return True
    if isinstance(st, ast.Assign) and len(st.targets) == 1:
        t = _u(st.targets[0])
        if t in WRITE_TARGETS and _u(st.value) in (NEW, f"{NEW}.name"):
            return True
        if t in (f"{NEW}.parent", f"{NEW}.software_manager", f"{NEW}.operating_state") and not any(isinstance(n, ast.Call) for n in ast.walk(st.value)):
            return True
        return False
    if isinstance(st, ast.Expr) and isinstance(st.value, ast.Call) and isinstance(st.value.func, ast.Attribute):
        recv, meth = _u(st.value.func.value), st.value.func.attr
        if recv in ROUTEREG and meth == "add_request":
            return True
        if recv == NEW and meth in ("start", "install") and not st.value.args and not st.value.keywords:
            return True
    return False


def translate_install() -> List[str]:
    fn = find_method(class_def(parse(SRC), "SoftwareManager"), "install")
    body = list(fn.body)
    if body and isinstance(body[0], ast.Expr) and isinstance(body[0].value, ast.Constant) and isinstance(body[0].value.value, str):
        body = body[1:]
    if not _add_request_cannot_raise():
        raise ValueError("RequestManager.add_request can raise now: SoftwareManager.install is no longer total by construction")
    out: List[str] = []
    for st in body:
        src = _u(st)
        if isinstance(st, ast.If) and _u(st.test) == "software_class in self._software_class_to_name_map and software_config is None" \
                and not st.orelse and isinstance(st.body[-1], ast.Return) and st.body[-1].value is None and all(_is_log(x) for x in st.body[:-1]):
            out.append(".guardRefused")
        elif isinstance(st, ast.If) and _u(st.test) == "software_config is None" and len(st.body) == 1 and len(st.orelse) == 1 and \
                all(isinstance(x, ast.Assign) and _u(x.targets[0]) == NEW and isinstance(x.value, ast.Call) and _u(x.value.func) == "software_class"
                    for x in (st.body[0], st.orelse[0])):
            out.append(".construct")
        elif isinstance(st, ast.If) and _u(st.test) == f"{NEW}.name in self.software" and not st.orelse and \
                _u(st.body[-1]) == f"self.uninstall({NEW}.name)" and all(_is_log(x) for x in st.body[:-1]):
            out.append(".evictIfInstalled")
        elif isinstance(st, ast.If) and _isinstance_of(st.test) in ("Application", "Service"):
            branches = [st.body]
            o = st.orelse
            while o:
                if len(o) == 1 and isinstance(o[0], ast.If) and _isinstance_of(o[0].test) in ("Application", "Service"):
                    branches.append(o[0].body)
                    o = o[0].orelse
                else:
                    raise ValueError(f"SoftwareManager.install: unrecognised else-branch: {_u(o[0])[:120]}")
            for b in branches:
                for x in b:
                    if not _install_write(x):
                        raise ValueError(f"SoftwareManager.install: statement that may raise inside an isinstance branch: {_u(x)[:120]}")
            out.append(".write")
        elif _install_write(st):
            out.append(".write")
        elif isinstance(st, ast.Return) and st.value is None:
            out.append(".ret")
        else:
            raise ValueError(f"SoftwareManager.install: unrecognised statement (may raise): {src[:160]}")
    return out


_emit_uninstall = emit


def emit() -> str:      # noqa: F811
    text = _emit_uninstall()
    inst = translate_install()
    add = ["/-- `SoftwareManager.install`: one constructor per statement; `.write` = a statement recognised as unable to raise (dict item /",
           "attribute assignment, logging, `add_request` - whose body has no `raise` -, `software.start()` / `software.install()`) -/",
           "def installBody : List IStmt := [" + ", ".join(inst) + "]", ""]
    return text.replace("end Primaite.Gen.EpisodeRegs", "\n".join(add) + "\nend Primaite.Gen.EpisodeRegs")
