"""Expected normalised sources (docstrings, annotations and logging calls removed, re-printed by ast.unparse) of the
functions whose control flow Model/RewardGraph.lean, Model/Reward.lean and Model/RewardState.lean transcribe by hand.
(The reward components' `calculate` methods, `access_from_nested_dict`, `RewardFunction.update`, `update_agents`, `setup_reward_sharing`, `topological_sort` and `graph_has_cycle` are NOT here: they are translated statement by statement by reward_calc.py and
proved equivalent to their models for all inputs.)"""

SHAPES = {
    'rf_init': '''def __init__(self, **kwargs):
    super().__init__(**kwargs)
    for rew_config in self.config.reward_components:
        rew_class = AbstractReward._registry[rew_config.type]
        rew_instance = rew_class(config=rew_config.options)
        self.register_component(component=rew_instance, weight=rew_config.weight)''',
    'register_component': '''def register_component(self, component, weight=1.0):
    self.reward_components.append((component, weight))''',
    'update_reward': '''def update_reward(self, state):
    return self.reward_function.update(state=state, last_action_response=self.history[-1])''',
    'save_reward_to_history': '''def save_reward_to_history(self):
    self.history[-1].reward = self.reward_function.current_reward''',
}
