"""Expected normalised sources (docstrings, annotations and logging calls removed, re-printed by ast.unparse) of the
functions whose control flow Model/RewardGraph.lean and Model/Reward.lean transcribe by hand."""

SHAPES = {
    'topological_sort': '''def topological_sort(graph):
    visited = set()
    stack = []

    def dfs(node):
        if node in visited:
            return
        visited.add(node)
        for neighbour in graph.get(node, []):
            dfs(neighbour)
        stack.append(node)
    for node in graph:
        dfs(node)
    return stack''',
    'graph_has_cycle': '''def graph_has_cycle(graph):
    visited = set()
    currently_visiting = set()

    def depth_first_search(node):
        if node in currently_visiting:
            return True
        if node in visited:
            return False
        visited.add(node)
        currently_visiting.add(node)
        for neighbour in graph.get(node, []):
            if depth_first_search(neighbour):
                return True
        currently_visiting.remove(node)
        return False
    for node in graph:
        if depth_first_search(node):
            return True
    return False''',
    'rf_init': '''def __init__(self, **kwargs):
    super().__init__(**kwargs)
    for rew_config in self.config.reward_components:
        rew_class = AbstractReward._registry[rew_config.type]
        rew_instance = rew_class(config=rew_config.options)
        self.register_component(component=rew_instance, weight=rew_config.weight)''',
    'register_component': '''def register_component(self, component, weight=1.0):
    self.reward_components.append((component, weight))''',
    'update': '''def update(self, state, last_action_response):
    total = 0.0
    for comp_and_weight in self.reward_components:
        comp = comp_and_weight[0]
        weight = comp_and_weight[1]
        total += weight * comp.calculate(state=state, last_action_response=last_action_response)
    self.current_reward = total
    return self.current_reward''',
    'update_agents': '''def update_agents(self, state):
    for agent_name in self._reward_calculation_order:
        agent = self.agents[agent_name]
        if self.step_counter > 0:
            agent.update_reward(state=state)
            agent.save_reward_to_history()
        agent.update_observation(state=state)
        agent.reward_function.total_reward += agent.reward_function.current_reward''',
    'setup_reward_sharing': '''def setup_reward_sharing(self):
    graph = {}
    for name, agent in self.agents.items():
        graph[name] = set()
        for comp, weight in agent.reward_function.reward_components:
            if isinstance(comp, SharedReward):
                graph[name].add(comp.config.agent_name)
                comp.callback = lambda agent_name: self.agents[agent_name].reward_function.current_reward
    if graph_has_cycle(graph):
        raise RuntimeError(('Detected cycle in agent reward sharing. Check the agent reward function ', 'configuration: reward sharing can only go one way.'))
    self._reward_calculation_order = topological_sort(graph)''',
    'green': '''def calculate(self, state, last_action_response):
    request_attempted = last_action_response.request == ['network', 'node', self.config.node_hostname, 'application', 'database-client', 'execute']
    if request_attempted:
        last_action_response.reward_info = {'connection_attempt_status': last_action_response.response.status}
        self.reward = 1.0 if last_action_response.response.status == 'success' else -1.0
    elif not self.config.sticky:
        last_action_response.reward_info = {'connection_attempt_status': 'n/a'}
        self.reward = 0.0
    else:
        last_action_response.reward_info = {'connection_attempt_status': 'n/a'}
        pass
    return self.reward''',
    'w404': '''def calculate(self, state, last_action_response):
    self.location_in_state = ['network', 'nodes', self.config.node_hostname, 'services', self.config.service_name]
    web_service_state = access_from_nested_dict(state, self.location_in_state)
    if web_service_state is NOT_PRESENT_IN_STATE:
        return 0.0
    codes = web_service_state.get('response_codes_this_timestep')
    if codes:

        def status2rew(status):
            return 1.0 if status == 200 else -1.0 if status == 404 else 0.0
        self.reward = sum(map(status2rew, codes)) / len(codes)
    elif not self.config.sticky:
        self.reward = 0.0
    else:
        pass
    return self.reward''',
    'shared': '''def calculate(self, state, last_action_response):
    return self.callback(self.config.agent_name)''',
    'ap': '''def calculate(self, state, last_action_response):
    if last_action_response.action == 'do-nothing':
        return self.config.do_nothing_penalty
    else:
        return self.config.action_penalty''',
    'dfi': '''def calculate(self, state, last_action_response):
    self.location_in_state = ['network', 'nodes', self.config.node_hostname, 'file_system', 'folders', self.config.folder_name, 'files', self.config.file_name]
    database_file_state = access_from_nested_dict(state, self.location_in_state)
    if database_file_state is NOT_PRESENT_IN_STATE:
        return 0.0
    health_status = database_file_state['health_status']
    if health_status == 2:
        return -1
    elif health_status == 1:
        return 1
    else:
        return 0''',
}

WEBPAGE_FIXED = '''def calculate(self, state, last_action_response):
    self.location_in_state = ['network', 'nodes', self.config.node_hostname, 'applications', 'web-browser']
    web_browser_state = access_from_nested_dict(state, self.location_in_state)
    if web_browser_state is NOT_PRESENT_IN_STATE:
        self.reward = 0.0
    request_attempted = last_action_response.request == ['network', 'node', self.config.node_hostname, 'application', 'web-browser', 'execute']
    if not request_attempted:
        if not self.config.sticky:
            self.reward = 0.0
        return self.reward
    if last_action_response.response.status != 'success':
        self.reward = -1.0
    elif web_browser_state is NOT_PRESENT_IN_STATE or not web_browser_state['history']:
        self.reward = 0.0
    else:
        outcome = web_browser_state['history'][-1]['outcome']
        if outcome == 'PENDING':
            self.reward = 0.0
        elif outcome == 200:
            self.reward = 1.0
        else:
            self.reward = -1.0
    return self.reward'''

WEBPAGE_AS_WRITTEN = '''def calculate(self, state, last_action_response):
    self.location_in_state = ['network', 'nodes', self.config.node_hostname, 'applications', 'web-browser']
    web_browser_state = access_from_nested_dict(state, self.location_in_state)
    if web_browser_state is NOT_PRESENT_IN_STATE:
        self.reward = 0.0
    request_attempted = last_action_response.request == ['network', 'node', self.config.node_hostname, 'application', 'web-browser', 'execute']
    if not request_attempted and self.config.sticky:
        return self.reward
    if last_action_response.response.status != 'success':
        self.reward = -1.0
    elif web_browser_state is NOT_PRESENT_IN_STATE or not web_browser_state['history']:
        self.reward = 0.0
    else:
        outcome = web_browser_state['history'][-1]['outcome']
        if outcome == 'PENDING':
            self.reward = 0.0
        elif outcome == 200:
            self.reward = 1.0
        else:
            self.reward = -1.0
    return self.reward'''
