"""C18: the bodies of the seven methods that admit, account and send a frame, translated STATEMENT BY STATEMENT into terms of the
little language of lean/PrimaiteModel/Model/LinkBody.lean (continuation-passing: what follows an `if` is copied behind both of its
branches; a branch that returns ends there).  `Props/C18Body.lean` proves the terms equal to the model for every state, so a
rewrite that keeps the meaning re-proves and a change of meaning has no proof.

Vocabulary (anything else makes that one body `unrecognised`: named in `bodyProblems`, its term a stub, its theorem fails):
  numbers   self.current_load | self.bandwidth_load[KEY] -> load ; self.bandwidth | self.get_frequency_max_capacity_mbps(<name>) -> cap ;
            frame.size_Mbits -> size ; 0 / 0.0 -> zero ; a local ; a + b ; a - b
  truths    self.is_up ; self.enabled ; KEY not in self.bandwidth_load ; a <= b ; a < b ; not / and / or ; True / False
  statements  x = <number> ; load = / += / -= <number> ; frame.set_sent_timestamp() ; if / else ; return ;
            if [not] <link|airspace>.can_transmit_frame(...) ; if [not] receiver.receive_frame(frame) ;
            <link>.transmit_frame(...) / airspace.transmit(...) as a statement ; the receiver loop of AirSpace.transmit ;
  ignored   logging, `super().send_frame(frame)`, `self.pcap.capture_outbound(frame)` (what they do to the frame: C18_gen_size_window),
            the choice of the receiving end in Link.transmit_frame, locals that only name a key (`hz = sender….frequency_hz`)
KEY is whatever indexes the budget; WHICH key it is, is `Gen.Link.airKeys` / `C18_gen_air_keys` (harness/extract/link.py)."""
import ast
from typing import Dict, List

from harness.extract.link import AIR, BASE, SWITCH, _body, _inline_aliases, _u
from harness.extract.util import class_def, find_method, parse

GEN_NAME = "LinkBody"


class Unrecognised(Exception):
    pass


SKIP_EXACT = {"super().send_frame(frame)", "self.pcap.capture_outbound(frame)", "receiver = self.endpoint_a"}
RECEIVER_PICK = "if receiver == sender_nic:\n    receiver = self.endpoint_b"
LOOP_TEST = "wireless_interface != sender_network_interface and wireless_interface.enabled"


def _is_log(s: ast.stmt) -> bool:
    if not (isinstance(s, ast.Expr) and isinstance(s.value, ast.Call)):
        return False
    f = _u(s.value.func)
    return f.startswith("_LOGGER.") or ".sys_log." in f


class Tr:
    def __init__(self, fn: ast.FunctionDef = None):
        self.vars: Dict[str, int] = {}
        # an OPTIONAL parameter (`name: Optional[float] = None`) is translated, not specialised to its default: `.arg` / `.argNone` /
        # `.setArg`; a caller that hands it on is `.ifCanWith`.  Whether any call site passes one: `canArgPassed` / `sendArgPassed`.
        self.param = None
        if fn is not None:
            a = fn.args
            pos = a.posonlyargs + a.args
            opt = [x.arg for x, d in zip(pos[len(pos) - len(a.defaults):], a.defaults)]
            opt += [x.arg for x, d in zip(a.kwonlyargs, a.kw_defaults) if d is not None]
            if len(opt) > 1 or a.vararg or a.kwarg:
                raise Unrecognised(f"parameters {opt + [x.arg for x in (a.vararg, a.kwarg) if x]}")
            defaults = list(a.defaults) + [d for d in a.kw_defaults if d is not None]
            if opt:
                if not (isinstance(defaults[0], ast.Constant) and defaults[0].value is None):
                    raise Unrecognised(f"parameter {opt[0]} with default {_u(defaults[0])}")
                self.param = opt[0]

    def ne(self, e: ast.AST) -> str:
        s = _u(e)
        if self.param is not None and isinstance(e, ast.Name) and e.id == self.param:
            return ".arg"
        if s == "self.current_load" or (isinstance(e, ast.Subscript) and _u(e.value) == "self.bandwidth_load"):
            return ".load"
        if s == "self.bandwidth" or (isinstance(e, ast.Call) and _u(e.func) == "self.get_frequency_max_capacity_mbps"
                                     and len(e.args) == 1 and _u(e.args[0]).endswith(".name")):
            return ".cap"
        if s == "frame.size_Mbits":
            return ".size"
        if isinstance(e, ast.Constant) and not isinstance(e.value, bool) and e.value in (0, 0.0):
            return ".zero"
        if isinstance(e, ast.Name) and e.id in self.vars:
            return f"(.var {self.vars[e.id]})"
        if isinstance(e, ast.BinOp) and isinstance(e.op, (ast.Add, ast.Sub)):
            return f"(.{'add' if isinstance(e.op, ast.Add) else 'sub'} {self.ne(e.left)} {self.ne(e.right)})"
        raise Unrecognised(f"number {s}")

    def be(self, e: ast.AST) -> str:
        s = _u(e)
        if isinstance(e, ast.Constant) and isinstance(e.value, bool):
            return ".tt" if e.value else ".ff"
        if s == "self.is_up":
            return ".isUp"
        if s == "self.enabled":
            return ".enabled"
        if isinstance(e, ast.UnaryOp) and isinstance(e.op, ast.Not):
            return f"(.not {self.be(e.operand)})"
        if isinstance(e, ast.BoolOp):
            op = "and" if isinstance(e.op, ast.And) else "or"
            out = self.be(e.values[-1])
            for v in reversed(e.values[:-1]):
                out = f"(.{op} {self.be(v)} {out})"
            return out
        if (isinstance(e, ast.Compare) and len(e.ops) == 1 and isinstance(e.ops[0], (ast.Is, ast.IsNot, ast.Eq, ast.NotEq))
                and self.param is not None and _u(e.left) == self.param and _u(e.comparators[0]) == "None"):
            return ".argNone" if isinstance(e.ops[0], (ast.Is, ast.Eq)) else "(.not .argNone)"
        if isinstance(e, ast.Compare) and len(e.ops) == 1:
            if isinstance(e.ops[0], ast.NotIn) and _u(e.comparators[0]) == "self.bandwidth_load":
                return ".absent"
            if isinstance(e.ops[0], ast.In) and _u(e.comparators[0]) == "self.bandwidth_load":
                return "(.not .absent)"
            if isinstance(e.ops[0], (ast.LtE, ast.Lt)):
                return f"(.{'le' if isinstance(e.ops[0], ast.LtE) else 'lt'} {self.ne(e.left)} {self.ne(e.comparators[0])})"
            if isinstance(e.ops[0], (ast.GtE, ast.Gt)):
                return f"(.{'le' if isinstance(e.ops[0], ast.GtE) else 'lt'} {self.ne(e.comparators[0])} {self.ne(e.left)})"
        raise Unrecognised(f"truth value {s}")

    @staticmethod
    def _extras(e: ast.Call) -> List[ast.AST]:
        """what a call hands over beside the frame and the sender itself"""
        vals = list(e.args) + [k.value for k in e.keywords]
        return [v for v in vals if _u(v) not in ("frame", "self")]

    def _call_kind(self, e: ast.AST):
        """('can' | 'deliver' | 'tx', negated[, handed size]) for the effectful calls, else None"""
        neg = False
        while isinstance(e, ast.UnaryOp) and isinstance(e.op, ast.Not):
            neg, e = not neg, e.operand
        if isinstance(e, ast.Call) and isinstance(e.func, ast.Attribute):
            f = _u(e.func)
            if f in ("self._connected_link.can_transmit_frame", "self.airspace.can_transmit_frame"):
                ex = self._extras(e)
                if len(ex) > 1:
                    raise Unrecognised(f"call {_u(e)}")
                return ("can", neg, self.ne(ex[0])) if ex else ("can", neg)
            if f == "receiver.receive_frame":
                return "deliver", neg
            if f in ("self._connected_link.transmit_frame", "self.airspace.transmit"):
                if self._extras(e):
                    raise Unrecognised(f"call {_u(e)}")
                return "tx", neg
        return None

    def prog(self, stmts: List[ast.stmt]) -> str:
        if not stmts:
            return ".retNone"
        s, rest = stmts[0], stmts[1:]
        src = _u(s)
        if _is_log(s) or src in SKIP_EXACT or src == RECEIVER_PICK or isinstance(s, ast.Pass):
            return self.prog(rest)
        if isinstance(s, ast.Return):
            return ".retNone" if s.value is None else f"(.ret {self.be(s.value)})"
        if src == "frame.set_sent_timestamp()":
            return f"(.stamp {self.prog(rest)})"
        if isinstance(s, ast.Expr) and self._call_kind(s.value) == ("tx", False):
            return f"(.transmit {self.prog(rest)})"
        if isinstance(s, ast.If):
            ck = self._call_kind(s.test)
            t, e = self.prog(list(s.body) + rest), self.prog(list(s.orelse) + rest)
            if ck is not None and ck[0] in ("can", "deliver"):
                if ck[1]:
                    t, e = e, t
                if len(ck) == 3:
                    return f"(.ifCanWith {ck[2]} {t} {e})"
                return f"(.{'ifCan' if ck[0] == 'can' else 'deliver'} {t} {e})"
            return f"(.ite {self.be(s.test)} {t} {e})"
        if isinstance(s, ast.For):
            if (len(s.body) == 1 and isinstance(s.body[0], ast.If) and not s.body[0].orelse and not s.orelse
                    and _u(s.body[0].test) == LOOP_TEST
                    and [_u(x) for x in s.body[0].body] == ["wireless_interface.receive_frame(frame)"]
                    and isinstance(s.iter, ast.Call) and _u(s.iter.func) == "self.wireless_interfaces_by_frequency.get"):
                return f"(.deliverAll {self.prog(rest)})"
            raise Unrecognised(f"loop {src[:80]}")
        tgt = None
        if isinstance(s, ast.Assign) and len(s.targets) == 1:
            tgt, val = s.targets[0], self.ne(s.value) if not isinstance(s.targets[0], ast.Name) else None
        elif isinstance(s, ast.AugAssign) and isinstance(s.op, (ast.Add, ast.Sub)):
            tgt = s.target
            val = f"(.{'add' if isinstance(s.op, ast.Add) else 'sub'} .load {self.ne(s.value)})"
        if tgt is not None:
            is_load = _u(tgt) == "self.current_load" or (isinstance(tgt, ast.Subscript) and _u(tgt.value) == "self.bandwidth_load")
            if is_load:
                return f"(.setLoad {val} {self.prog(rest)})"
            if isinstance(tgt, ast.Name) and isinstance(s, ast.Assign) and tgt.id == self.param:
                return f"(.setArg {self.ne(s.value)} {self.prog(rest)})"
            if isinstance(tgt, ast.Name) and isinstance(s, ast.Assign):
                v = self.ne(s.value)
                if tgt.id not in self.vars:
                    self.vars[tgt.id] = len(self.vars)
                return f"(.letN {self.vars[tgt.id]} {v} {self.prog(rest)})"
        raise Unrecognised(f"statement {src[:100]}")


BODIES = [
    ("linkCanTransmit", BASE, "Link", "can_transmit_frame", False),
    ("linkTransmit", BASE, "Link", "transmit_frame", False),
    ("wiredSend", BASE, "WiredNetworkInterface", "send_frame", False),
    ("switchSend", SWITCH, "SwitchPort", "send_frame", False),
    ("airCanTransmit", AIR, "AirSpace", "can_transmit_frame", True),
    ("airTransmit", AIR, "AirSpace", "transmit", True),
    ("wirelessSend", AIR, "WirelessNetworkInterface", "send_frame", False),
]


def translate():
    out, problems = [], []
    for name, rel, cls, meth, inline in BODIES:
        try:
            fn = find_method(class_def(parse(rel), cls), meth)
            stmts = _body(fn)
            if inline:
                stmts = _inline_aliases(stmts)
            term = Tr(fn).prog(stmts)
        except Exception as e:  # this body only: the others stay tied
            problems.append(f"{cls}.{meth}: {type(e).__name__}: {e}".replace('"', "'").replace("\n", " "))
            term = ".retNone"
        out.append((name, f"{cls}.{meth}", term))
    return out, problems


def arg_passing_sites():
    """every call in src/primaite of a wired `can_transmit_frame` / of any `send_frame` that hands over more than the frame (and the
    sender): (sites of can_transmit_frame, sites of send_frame)"""
    from harness.lib.core import SRC
    can, send = [], []
    for path in sorted((SRC / "simulator").rglob("*.py")):
        try:
            tree = ast.parse(path.read_text())
        except Exception:
            continue
        for node in ast.walk(tree):
            if isinstance(node, ast.Call) and isinstance(node.func, ast.Attribute):
                n = len(node.args) + len(node.keywords)
                if node.func.attr == "can_transmit_frame" and "airspace" not in _u(node.func.value) and n > 1:
                    can.append(f"{path.name}:{_u(node)[:80]}")
                if node.func.attr == "send_frame" and n > 1:
                    send.append(f"{path.name}:{_u(node)[:80]}")
    return can, send


def emit() -> str:
    bodies, problems = translate()
    try:
        can_sites, send_sites = arg_passing_sites()
    except Exception as e:
        problems.append(f"call sites: {type(e).__name__}: {e}".replace('"', "'"))
        can_sites, send_sites = ["?"], ["?"]
    defs = "\n".join(f"/-- `{what}`, statement by statement -/\ndef {name} : Prog := {term}" for name, what, term in bodies)
    pl = "[" + ", ".join(f'"{p}"' for p in problems) + "]"
    return f"""import PrimaiteModel.Model.LinkBody
namespace Primaite.Gen.LinkBody
open Primaite.Link.Body
{defs}
/-- bodies the translator could not read (their term above is a stub) -/
def bodyProblems : List String := {pl}
/-- does any call site hand `Link.can_transmit_frame` / a `send_frame` more than the frame?  (An optional parameter that no caller
passes is read at its default; one that a caller does pass is quantified over.) -/
def canArgPassed : Bool := {"true" if can_sites else "false"}
def sendArgPassed : Bool := {"true" if send_sites else "false"}
def argPassingSites : List String := {"[" + ", ".join(f'"{x}"' for x in can_sites + send_sites).replace(chr(10), " ") + "]"}
end Primaite.Gen.LinkBody
"""
