"""E10b: the SHARED-STATE INVENTORY of src/primaite, regenerated on every run (pure `ast`).

What is listed (everything that lives longer than one environment instance):
  * class-level attributes: `ClassVar[...]` declarations; un-annotated or annotated class-body assignments of a mutable value
    in classes that are not pydantic models; (pydantic fields are per-instance: listed separately, see below)
  * module-level names bound to a mutable value (dict/list/set displays, comprehensions, constructor calls)
  * runtime write sites (inside a function body):  `ClassName.attr = …`, `cls.attr = …`, `ClassName.attr[k] = …`,
    `self.attr[k] = …` / `self.attr.append(…)` where `attr` is a class-level attribute of the enclosing class,
    `GLOBAL.attr = …`, `GLOBAL[k] = …`, `GLOBAL.append(…)`, and every `global` statement
  * uses of the process-global random generators: `random.*`, `numpy.random.*` / `np.random.*`, names imported
    `from random import …`
  * pydantic fields whose default is a mutable display, or an alias of a class-level/module-level object
  * for every entry that has a runtime writer: the functions that read it

Functions are named `<module path>:<Class>.<function>`; sites inside `__init_subclass__` / `__pydantic_init_subclass__`
run while a class statement is executed, i.e. at import time, and are listed as import-time writes.
The extractor is strict: a write-site shape it cannot attribute raises."""
from __future__ import annotations

import ast
import re
from pathlib import Path
from typing import Dict, List, Optional, Set, Tuple

from harness.lib.core import SRC

GEN_NAME = "SharedState"

SKIP_DIRS = {"notebooks", "_package_data", "setup"}
MUTATORS = {"append", "extend", "insert", "remove", "pop", "clear", "update", "add", "discard", "setdefault", "popitem", "sort", "reverse"}
PYDANTIC_ROOTS = {"BaseModel", "SimComponent"}
ENUM_ROOTS = {"Enum", "IntEnum", "StrEnum", "Flag", "IntFlag"}
IMPORT_TIME_FUNCS = {"__init_subclass__", "__pydantic_init_subclass__"}
RNG_SEEDERS = {"seed"}
# F-11 repair: the decorator `own_generator_state` saves / restores the STATE of the generators; neither is a draw
RNG_STATE_CALLS = {"getstate", "setstate", "get_state", "set_state"}


def is_draw(call: str) -> bool:
    return call.split(".")[-1] not in RNG_SEEDERS | RNG_STATE_CALLS
LOCAL_GENERATOR_FACTORIES = {"default_rng", "Generator", "RandomState", "SeedSequence", "PCG64"}


def _files() -> List[Path]:
    out = []
    for f in sorted(SRC.rglob("*.py")):
        rel = f.relative_to(SRC)
        if any(p in SKIP_DIRS for p in rel.parts):
            continue
        out.append(f)
    return out


def _walk_same_scope(node: ast.AST):
    """ast.walk that does not enter nested function / class definitions or lambdas"""
    stack = [node]
    while stack:
        n = stack.pop()
        yield n
        for c in ast.iter_child_nodes(n):
            if not isinstance(c, (ast.FunctionDef, ast.AsyncFunctionDef, ast.ClassDef, ast.Lambda)):
                stack.append(c)


def _modname(f: Path) -> str:
    rel = f.relative_to(SRC).with_suffix("")
    parts = list(rel.parts)
    if parts[-1] == "__init__":
        parts = parts[:-1]
    return ".".join(parts) if parts else "primaite"


MEMO_DECORATORS = {"lru_cache", "cache"}
IMMUTABLE_CALLS = {"tuple", "frozenset", "str", "int", "float", "bool", "bytes", "len", "sum", "min", "max", "abs", "round", "hash", "repr",
                   "IPv4Address", "IPv4Network", "ip_address", "ip_network"}


def _immutable_expr(e: Optional[ast.AST]) -> bool:
    """syntactically an immutable value: constants, tuples of such, f-strings, comparisons / arithmetic / boolean tests, calls of the
    immutable constructors; ANYTHING else (list / dict / set displays and comprehensions, other calls, names) counts as mutable"""
    if e is None or isinstance(e, (ast.Constant, ast.JoinedStr, ast.Compare)):
        return True
    if isinstance(e, ast.Tuple):
        return all(_immutable_expr(x) for x in e.elts)
    if isinstance(e, (ast.BinOp,)):
        return _immutable_expr(e.left) and _immutable_expr(e.right)
    if isinstance(e, ast.UnaryOp):
        return _immutable_expr(e.operand)
    if isinstance(e, ast.BoolOp):
        return all(_immutable_expr(x) for x in e.values)
    if isinstance(e, ast.IfExp):
        return _immutable_expr(e.body) and _immutable_expr(e.orelse)
    if isinstance(e, ast.Call):
        nm = e.func.id if isinstance(e.func, ast.Name) else e.func.attr if isinstance(e.func, ast.Attribute) else ""
        return nm in IMMUTABLE_CALLS
    return False


def _is_mutable_value(v: Optional[ast.AST]) -> Optional[str]:
    """kind of mutable value, or None for something immutable / not a value."""
    if v is None:
        return None
    if isinstance(v, (ast.Dict, ast.List, ast.Set, ast.DictComp, ast.ListComp, ast.SetComp)):
        return "display"
    if isinstance(v, ast.Call):
        fn = ast.unparse(v.func)
        if fn in ("TypeVar", "namedtuple", "NewType", "Literal", "Annotated", "re.compile", "frozenset", "tuple", "Field", "PrivateAttr",
                  "ConfigDict", "BeforeValidator", "AfterValidator", "PlainSerializer", "typer.Typer", "property"):
            return None
        return "call:" + fn
    return None


class _Mod:
    def __init__(self, f: Path):
        self.path = f
        self.name = _modname(f)
        self.tree = ast.parse(f.read_text())


def _class_table(mods: List[_Mod]):
    """class name -> list of (module, ClassDef, qual); base-name closure for 'is pydantic' / 'is enum'."""
    classes: Dict[str, List[Tuple[_Mod, ast.ClassDef, str]]] = {}

    def visit(m: _Mod, body, prefix: str):
        for n in body:
            if isinstance(n, ast.ClassDef):
                q = prefix + n.name
                classes.setdefault(n.name, []).append((m, n, q))
                visit(m, n.body, q + ".")
            elif isinstance(n, (ast.FunctionDef, ast.AsyncFunctionDef, ast.If, ast.Try, ast.With)):
                for sub in ast.iter_child_nodes(n):
                    if isinstance(sub, ast.ClassDef):
                        q = prefix + sub.name
                        classes.setdefault(sub.name, []).append((m, sub, q))
                        visit(m, sub.body, q + ".")
    for m in mods:
        visit(m, m.tree.body, "")
    return classes


def _base_names(c: ast.ClassDef) -> List[str]:
    out = []
    for b in c.bases:
        s = ast.unparse(b)
        out.append(s.split("[")[0].split(".")[-1].strip('"'))
    return out


def _reaches(classes, cname: str, roots: Set[str], seen=None) -> bool:
    seen = seen or set()
    if cname in roots:
        return True
    if cname in seen:
        return False
    seen.add(cname)
    for (_, c, _) in classes.get(cname, []):
        for b in _base_names(c):
            if _reaches(classes, b, roots, seen):
                return True
    return False


def _ancestors(classes, cname: str, acc=None) -> List[str]:
    acc = acc if acc is not None else []
    for (_, c, _) in classes.get(cname, []):
        for b in _base_names(c):
            if b not in acc:
                acc.append(b)
                _ancestors(classes, b, acc)
    return acc


class Inventory:
    def __init__(self):
        self.entries: Dict[str, dict] = {}          # name -> {kind, mutable, import_writes[], writers set, readers set}
        self.rng: List[Tuple[str, str, str]] = []    # (generator, function, call)
        self.global_stmts: List[Tuple[str, str]] = []
        self.pyd_defaults: List[Tuple[str, str]] = []
        self.reach: List[dict] = []                  # static call graph before the write (see reach_before_write)
        self.dynamic_writes: List[Tuple[str, str]] = []   # setattr / __dict__ writes on a class-like receiver with a non-literal name
        self.callgraph = None
        self.memo: List[Tuple[str, str, bool, List[str]]] = []   # (function, decorator, every return expression immutable, the return expressions)
        self.cached_props: List[str] = []                         # functools.cached_property: per INSTANCE (stored in the instance dict)
        self.handed_out: List[Tuple[str, str, str, str]] = []     # (run-time written container, function, how, return expression)
        self.stored: List[Tuple[str, str, bool, str]] = []        # (run-time written container, function, stored value immutable, expression)

    def entry(self, name: str, kind: str, mutable: bool, how: str):
        e = self.entries.setdefault(name, {"kind": kind, "mutable": mutable, "import_writes": [], "writers": set(), "readers": set(),
                                           "uncond_writers": set(), "calls_before_write": {}})
        e["import_writes"].append(how)
        e["mutable"] = e["mutable"] or mutable
        return e


def build() -> Inventory:
    mods = [_Mod(f) for f in _files()]
    classes = _class_table(mods)
    inv = Inventory()
    class_attr_owner: Dict[Tuple[str, str], str] = {}   # (class name, attr) -> entry name
    attr_names: Dict[str, List[str]] = {}                # attr -> entry names (for reader attribution)
    module_globals: Dict[Tuple[str, str], str] = {}      # (module, NAME) -> entry name
    global_names: Dict[str, List[str]] = {}              # NAME -> entry names (imported under the same name elsewhere)

    # ---- pass 1: declarations
    for cname, defs in classes.items():
        for (m, c, q) in defs:
            is_pyd = _reaches(classes, cname, PYDANTIC_ROOTS)
            is_enum = _reaches(classes, cname, ENUM_ROOTS)
            if is_enum:
                continue
            for st in c.body:
                tgt = val = ann = None
                if isinstance(st, ast.AnnAssign) and isinstance(st.target, ast.Name):
                    tgt, val, ann = st.target.id, st.value, ast.unparse(st.annotation)
                elif isinstance(st, ast.Assign) and len(st.targets) == 1 and isinstance(st.targets[0], ast.Name):
                    tgt, val = st.targets[0].id, st.value
                else:
                    continue
                if tgt in ("model_config", "__slots__", "__all__"):
                    continue
                name = f"{m.name}:{q}.{tgt}"
                mk = _is_mutable_value(val)
                if ann is not None and ("ClassVar" in ann or (is_pyd and "Final" in ann)):  # pydantic treats Final[...] = v as a class variable
                    mutable = mk is not None or any(t in ann for t in ("Dict", "List", "Set", "dict", "list", "set")) or (
                        val is not None and not isinstance(val, ast.Constant))
                    inv.entry(name, "classvar", bool(mutable), "class-body")
                    class_attr_owner[(cname, tgt)] = name
                    attr_names.setdefault(tgt, []).append(name)
                elif is_pyd and ann is not None:
                    # a pydantic field: per-instance. Record mutable / aliasing defaults (copied per instance by pydantic)
                    if mk == "display":
                        inv.pyd_defaults.append((f"{m.name}:{q}.{tgt}", "mutable-display"))
                    elif (isinstance(val, ast.Attribute) or (isinstance(val, ast.Name) and val.id not in ("None", "True", "False"))) and not \
                            _reaches(classes, ast.unparse(val).split(".")[-2 if isinstance(val, ast.Attribute) else -1], ENUM_ROOTS):
                        inv.pyd_defaults.append((f"{m.name}:{q}.{tgt}", "alias:" + ast.unparse(val)))
                elif mk is not None and not (is_pyd and ann is None and tgt.startswith("__")):
                    inv.entry(name, "class-mutable", True, "class-body")
                    class_attr_owner[(cname, tgt)] = name
                    attr_names.setdefault(tgt, []).append(name)
    for m in mods:
        for st in m.tree.body:
            tgt = val = None
            if isinstance(st, ast.Assign) and len(st.targets) == 1 and isinstance(st.targets[0], ast.Name):
                tgt, val = st.targets[0].id, st.value
            elif isinstance(st, ast.AnnAssign) and isinstance(st.target, ast.Name):
                tgt, val = st.target.id, st.value
            if tgt is None or tgt == "__all__":
                continue
            mk = _is_mutable_value(val)
            if mk is None:
                continue
            kind = "module-logger" if mk in ("call:getLogger", "call:logging.getLogger") else "module-mutable"
            name = f"{m.name}:{tgt}"
            inv.entry(name, kind, True, "module")
            module_globals[(m.name, tgt)] = name
            global_names.setdefault(tgt, []).append(name)

    def owner_of(cname: str, attr: str) -> Optional[str]:
        if (cname, attr) in class_attr_owner:
            return class_attr_owner[(cname, attr)]
        for b in _ancestors(classes, cname):
            if (b, attr) in class_attr_owner:
                return class_attr_owner[(b, attr)]
        return None

    # ---- pass 2: sites inside functions
    for m in mods:
        # names imported `from random import x`
        from_random: Dict[str, str] = {}
        for n in ast.walk(m.tree):
            if isinstance(n, ast.ImportFrom) and n.module in ("random", "numpy.random"):
                for a in n.names:
                    from_random[a.asname or a.name] = f"{n.module}.{a.name}"

        def global_entry(name_id: str) -> Optional[str]:
            if (m.name, name_id) in module_globals:
                return module_globals[(m.name, name_id)]
            cands = [e for e in global_names.get(name_id, []) if inv.entries[e]["kind"] != "module-logger"]
            # imported under the same name from another module
            if cands and name_id.isupper():
                return cands[0]
            return None

        def walk_func(fn, qual: str, cls_stack: List[str]):
            fq = f"{m.name}:{qual}"
            import_time = fn.name in IMPORT_TIME_FUNCS
            encl = cls_stack[-1] if cls_stack else None

            # statements that run whenever the function runs to completion: direct children of the body that are not preceded by a
            # statement containing `return` (a write nested in if / for / while / try / with / match is CONDITIONAL)
            uncond: List[ast.stmt] = []
            for st in fn.body:
                uncond.append(st)
                if any(isinstance(x, (ast.Return, ast.Raise)) for x in _walk_same_scope(st)):
                    break

            def calls_before(site: ast.stmt) -> List[str]:
                out: List[str] = []
                for st in uncond:
                    if st is site:
                        break
                    for x in _walk_same_scope(st):
                        if isinstance(x, ast.Call):
                            c = ast.unparse(x.func)
                            c = re.sub(r"\(.*\)", "()", c, flags=re.S)
                            if c not in out:
                                out.append(c)
                return out

            def record_write(entry_name: str, site: Optional[ast.AST] = None):
                e = inv.entries[entry_name]
                if import_time:
                    e["import_writes"].append(f"{fq}")
                else:
                    e["writers"].add(fq)
                    top = next((st for st in uncond if st is site or (isinstance(st, ast.Expr) and st.value is site)), None)
                    if top is not None:
                        e["uncond_writers"].add(fq)
                        e["calls_before_write"].setdefault(fq, calls_before(top))

            def target_entry(t: ast.AST) -> Optional[str]:
                """entry written when `t` (an Attribute/Subscript/Name chain) is the target of a store / mutator call."""
                # strip subscripts: X.attr[k] -> X.attr
                base = t
                while isinstance(base, ast.Subscript):
                    base = base.value
                if isinstance(base, ast.Attribute) and isinstance(base.value, ast.Name):
                    root, attr = base.value.id, base.attr
                    if root == "cls" and encl:
                        o = owner_of(encl, attr)
                        if o:
                            return o
                        if base is t:  # `cls.new_attr = …` creates a class attribute
                            name = f"{m.name}:{'.'.join(cls_stack)}.{attr}"
                            inv.entry(name, "class-assigned-in-function", True, "none")
                            inv.entries[name]["import_writes"].remove("none")
                            class_attr_owner[(encl, attr)] = name
                            attr_names.setdefault(attr, []).append(name)
                            return name
                        return None
                    if root == "self" and encl:
                        if base is t:
                            return None  # `self.attr = …` binds an instance attribute
                        return owner_of(encl, attr)  # `self.attr[k] = …` mutates the class-level object if attr is one
                    if root in classes:
                        o = owner_of(root, attr)
                        if o:
                            return o
                        if base is t:
                            name = f"{m.name}:{root}.{attr}"
                            inv.entry(name, "class-assigned-in-function", True, "none")
                            inv.entries[name]["import_writes"].remove("none")
                            class_attr_owner[(root, attr)] = name
                            attr_names.setdefault(attr, []).append(name)
                            return name
                        return None
                    g = global_entry(root)
                    if g:
                        return g
                    return None
                if isinstance(base, ast.Name) and base is not t:
                    return global_entry(base.id)  # GLOBAL[k] = …
                return None

            declared_global: Set[str] = set()
            for node in ast.walk(fn):
                if node is not fn and isinstance(node, (ast.FunctionDef, ast.AsyncFunctionDef, ast.ClassDef)):
                    continue  # nested defs are walked separately (their sites still belong to them)
                if isinstance(node, ast.Global):
                    for nm in node.names:
                        inv.global_stmts.append((fq, nm))
                        declared_global.add(nm)
                targets = []
                if isinstance(node, ast.Assign):
                    targets = node.targets
                elif isinstance(node, (ast.AugAssign, ast.AnnAssign)) and getattr(node, "value", None) is not None:
                    targets = [node.target]
                elif isinstance(node, ast.Delete):
                    targets = node.targets
                for t in targets:
                    for tt in (t.elts if isinstance(t, (ast.Tuple, ast.List)) else [t]):
                        if isinstance(tt, ast.Name) and tt.id in declared_global:
                            g = global_entry(tt.id)
                            if g is None:
                                raise ValueError(f"{fq}: `global {tt.id}` rebinding of a name that is not in the inventory")
                            record_write(g, node)
                            continue
                        en = target_entry(tt)
                        if en:
                            record_write(en, node)
                # `setattr(Class, "attr", v)` / `object.__setattr__(cls, "attr", v)` / `type.__setattr__(…)`: a write through the back door
                if isinstance(node, ast.Call) and len(node.args) >= 2 and (
                        (isinstance(node.func, ast.Name) and node.func.id in ("setattr", "delattr")) or
                        (isinstance(node.func, ast.Attribute) and node.func.attr in ("__setattr__", "__delattr__")
                         and isinstance(node.func.value, ast.Name) and node.func.value.id in ("object", "type") and len(node.args) >= 2)):
                    recv, nm = node.args[0], node.args[1]
                    class_like = isinstance(recv, ast.Name) and (recv.id == "cls" or recv.id in classes or global_entry(recv.id) is not None)
                    if class_like:
                        if isinstance(nm, ast.Constant) and isinstance(nm.value, str):
                            en = target_entry(ast.Attribute(value=recv, attr=nm.value, ctx=ast.Store()))
                            if en:
                                record_write(en, node)
                        else:
                            inv.dynamic_writes.append((fq, ast.unparse(node)[:80]))
                if isinstance(node, ast.Call) and isinstance(node.func, ast.Attribute):
                    f = node.func
                    if f.attr in MUTATORS:
                        en = target_entry(ast.Subscript(value=f.value, slice=ast.Constant(0), ctx=ast.Store()))
                        if en:
                            record_write(en, node)
                    # global RNG use
                    root = ast.unparse(f.value)
                    if root == "random":
                        inv.rng.append(("random", fq, "random." + f.attr))
                    elif root in ("np.random", "numpy.random"):
                        if f.attr not in LOCAL_GENERATOR_FACTORIES:
                            inv.rng.append(("numpy.random", fq, "numpy.random." + f.attr))
                if isinstance(node, ast.Call) and isinstance(node.func, ast.Name) and node.func.id in from_random:
                    full = from_random[node.func.id]
                    gen = "numpy.random" if full.startswith("numpy") else "random"
                    if full.split(".")[-1] not in LOCAL_GENERATOR_FACTORIES:
                        inv.rng.append((gen, fq, full))

        def visit(body, qual_prefix: str, cls_stack: List[str]):
            for n in body:
                if isinstance(n, ast.ClassDef):
                    visit(n.body, qual_prefix + n.name + ".", cls_stack + [n.name])
                elif isinstance(n, (ast.FunctionDef, ast.AsyncFunctionDef)):
                    walk_func(n, qual_prefix + n.name, cls_stack)
                    visit(n.body, qual_prefix + n.name + ".", cls_stack)
                elif isinstance(n, (ast.If, ast.Try, ast.With, ast.For, ast.While)):
                    visit([x for x in ast.iter_child_nodes(n) if isinstance(x, ast.stmt)], qual_prefix, cls_stack)
                else:
                    # lambdas at class / module level (pydantic default factories) may draw from the global RNG
                    for sub in ast.walk(n):
                        if isinstance(sub, ast.Lambda):
                            fake = ast.FunctionDef(name="<lambda>", args=sub.args, body=[ast.Expr(sub.body)], decorator_list=[], lineno=sub.lineno)
                            tgt = ""
                            if isinstance(n, ast.AnnAssign) and isinstance(n.target, ast.Name):
                                tgt = n.target.id + "."
                            elif isinstance(n, ast.Assign) and isinstance(n.targets[0], ast.Name):
                                tgt = n.targets[0].id + "."
                            walk_func(fake, qual_prefix + tgt + "<lambda>", cls_stack)
        visit(m.tree.body, "", [])

    # ---- pass 3: readers of everything that has a runtime writer
    written = {n for n, e in inv.entries.items() if e["writers"]}
    w_attrs: Dict[str, List[str]] = {}
    w_globals: Dict[str, List[str]] = {}
    for n in written:
        tail = n.split(":")[1]
        if inv.entries[n]["kind"].startswith("module"):
            w_globals.setdefault(tail, []).append(n)
        else:
            w_attrs.setdefault(tail.split(".")[-1], []).append(n)
    for m in mods:
        def visit_r(body, qual_prefix: str, cls_stack: List[str]):
            for n in body:
                if isinstance(n, ast.ClassDef):
                    visit_r(n.body, qual_prefix + n.name + ".", cls_stack + [n.name])
                elif isinstance(n, (ast.FunctionDef, ast.AsyncFunctionDef)):
                    fq = f"{m.name}:{qual_prefix}{n.name}"
                    encl = cls_stack[-1] if cls_stack else None
                    for node in ast.walk(n):
                        if isinstance(node, ast.Attribute) and isinstance(node.ctx, ast.Load) and node.attr in w_attrs:
                            root = node.value.id if isinstance(node.value, ast.Name) else None
                            if root in ("self", "cls") and encl:
                                o = owner_of(encl, node.attr)
                                hit = [o] if o in w_attrs[node.attr] else []
                            elif root in classes:
                                o = owner_of(root, node.attr)
                                hit = [o] if o in w_attrs[node.attr] else []
                            else:
                                hit = w_attrs[node.attr]  # receiver of unknown type: attribute-name match (over-approximation)
                            for en in hit:
                                inv.entries[en]["readers"].add(fq)
                        if isinstance(node, ast.Name) and isinstance(node.ctx, ast.Load) and node.id in w_globals:
                            for en in w_globals[node.id]:
                                inv.entries[en]["readers"].add(fq)
                elif isinstance(n, (ast.If, ast.Try, ast.With, ast.For, ast.While)):
                    visit_r([x for x in ast.iter_child_nodes(n) if isinstance(x, ast.stmt)], qual_prefix, cls_stack)
        visit_r(m.tree.body, "", [])
    # ---- pass 3b: MEMOISATION DECORATORS are process-global mutable state: every function decorated with functools.lru_cache / cache (any
    # import spelling, called or bare) is an inventory entry — a cache written and read by its callers at run time. Its return expressions
    # are classified syntactically: immutable (tuple / frozenset / str / int / … / constants) or not (anything else counts as mutable).
    memo_names: Dict[str, str] = {}
    for m in mods:
        alias = {}
        for n in ast.walk(m.tree):
            if isinstance(n, ast.ImportFrom) and n.module == "functools":
                for a in n.names:
                    alias[a.asname or a.name] = a.name

        def visit_m(body, prefix: str):
            for n in body:
                if isinstance(n, ast.ClassDef):
                    visit_m(n.body, prefix + n.name + ".")
                elif isinstance(n, (ast.FunctionDef, ast.AsyncFunctionDef)):
                    for d in n.decorator_list:
                        core = d.func if isinstance(d, ast.Call) else d
                        nm = core.attr if isinstance(core, ast.Attribute) else core.id if isinstance(core, ast.Name) else ""
                        nm = alias.get(nm, nm)
                        if nm in MEMO_DECORATORS:
                            q = f"{m.name}:{prefix}{n.name}"
                            rets = [r.value for r in _walk_same_scope(n) if isinstance(r, ast.Return)]
                            imm = bool(rets) and all(_immutable_expr(r) for r in rets)
                            inv.memo.append((q, nm, imm, [ast.unparse(r)[:60] if r is not None else "None" for r in rets]))
                            memo_names[n.name] = q
                        elif nm == "cached_property":
                            inv.cached_props.append(f"{m.name}:{prefix}{n.name}")
                    visit_m(n.body, prefix + n.name + ".")
                elif isinstance(n, (ast.If, ast.Try, ast.With, ast.For, ast.While)):
                    visit_m([x for x in ast.iter_child_nodes(n) if isinstance(x, ast.stmt)], prefix)
        visit_m(m.tree.body, "")
    if memo_names:
        for m in mods:
            def visit_c(body, prefix: str):
                for n in body:
                    if isinstance(n, ast.ClassDef):
                        visit_c(n.body, prefix + n.name + ".")
                    elif isinstance(n, (ast.FunctionDef, ast.AsyncFunctionDef)):
                        fq = f"{m.name}:{prefix}{n.name}"
                        for x in ast.walk(n):
                            if isinstance(x, ast.Call):
                                nm = x.func.id if isinstance(x.func, ast.Name) else x.func.attr if isinstance(x.func, ast.Attribute) else ""
                                if nm in memo_names and fq != memo_names[nm]:
                                    e = inv.entry(memo_names[nm] + ".<memo cache>", "memo-cache", True, "decorator")
                                    e["writers"].add(fq)
                                    e["readers"].add(fq)
                        visit_c(n.body, prefix + n.name + ".")
                    elif isinstance(n, (ast.If, ast.Try, ast.With, ast.For, ast.While)):
                        visit_c([x for x in ast.iter_child_nodes(n) if isinstance(x, ast.stmt)], prefix)
            visit_c(m.tree.body, "")
    # ---- pass 3c: CACHES BEHIND HELPERS: a function that returns a module-level / class-level container that is written at run time, or an
    # element of it (`return CACHE`, `return CACHE[k]`, `CACHE.get(k)`, `CACHE.setdefault(k, …)`, also through a local name bound to one of
    # these), hands a process-wide object to its caller. Harmless only if what is stored is immutable: every run-time store into the
    # container (`CACHE[k] = v`, `.setdefault(k, v)`, `.append(v)`, `.update(…)`) is classified syntactically like a memoised return value.
    runtime_containers = {n: e for n, e in inv.entries.items() if e["writers"] and e["kind"] in ("module-mutable", "class-mutable", "classvar",
                                                                                                   "class-assigned-in-function")}
    if runtime_containers:
        short: Dict[str, List[str]] = {}
        for n in runtime_containers:
            short.setdefault(n.split(":")[1].split(".")[-1], []).append(n)

        encl_box: List[Optional[str]] = [None]

        def names_entry(x: ast.AST) -> List[str]:
            """entries that the expression `x` denotes (NAME, Class.NAME, cls.NAME / self.NAME of the enclosing class or an ancestor)"""
            if isinstance(x, ast.Name):
                return [n for n in short.get(x.id, []) if inv.entries[n]["kind"] == "module-mutable"]
            if isinstance(x, ast.Attribute) and isinstance(x.value, ast.Name):
                recv = x.value.id
                if recv in ("cls", "self"):
                    o = owner_of(encl_box[0], x.attr) if encl_box[0] else None
                    return [o] if o in runtime_containers else []
                if recv in classes:
                    o = owner_of(recv, x.attr)
                    return [o] if o in runtime_containers else []
            return []

        def element_of(x: ast.AST) -> List[Tuple[str, str]]:
            """(entry, how) if `x` evaluates to the container itself or to something stored in it"""
            hit = [(n, "container-itself") for n in names_entry(x)]
            if isinstance(x, ast.Subscript):
                hit += [(n, "element") for n in names_entry(x.value)]
            if isinstance(x, ast.Call) and isinstance(x.func, ast.Attribute) and x.func.attr in ("get", "setdefault", "pop", "copy", "values", "items"):
                how = "shallow-copy" if x.func.attr == "copy" else "element"
                hit += [(n, how) for n in names_entry(x.func.value)]
            return hit
        for m in mods:
            def visit_h(body, prefix: str, encl: Optional[str] = None):
                for n in body:
                    if isinstance(n, ast.ClassDef):
                        visit_h(n.body, prefix + n.name + ".", n.name)
                    elif isinstance(n, (ast.FunctionDef, ast.AsyncFunctionDef)):
                        fq = f"{m.name}:{prefix}{n.name}"
                        encl_box[0] = encl
                        local: Dict[str, List[Tuple[str, str]]] = {}
                        for x in _walk_same_scope(n):
                            if isinstance(x, ast.Assign) and len(x.targets) == 1 and isinstance(x.targets[0], ast.Name):
                                h = element_of(x.value)
                                if h:
                                    local[x.targets[0].id] = h
                            # run-time stores: is the stored value immutable?
                            if isinstance(x, ast.Assign):
                                for t in x.targets:
                                    if isinstance(t, ast.Subscript):
                                        for en in names_entry(t.value):
                                            inv.stored.append((en, fq, _immutable_expr(x.value), ast.unparse(x.value)[:60]))
                            if isinstance(x, ast.Call) and isinstance(x.func, ast.Attribute) and x.func.attr in ("setdefault", "append", "add", "insert") and x.args:
                                for en in names_entry(x.func.value):
                                    v = x.args[-1]
                                    inv.stored.append((en, fq, _immutable_expr(v), ast.unparse(v)[:60]))
                        for x in _walk_same_scope(n):
                            if isinstance(x, ast.Return) and x.value is not None:
                                h = element_of(x.value) + (local.get(x.value.id, []) if isinstance(x.value, ast.Name) else [])
                                for (en, how) in h:
                                    inv.handed_out.append((en, fq, how, ast.unparse(x.value)[:60]))
                        visit_h(n.body, prefix + n.name + ".", encl)
                    elif isinstance(n, (ast.If, ast.Try, ast.With, ast.For, ast.While)):
                        visit_h([x for x in ast.iter_child_nodes(n) if isinstance(x, ast.stmt)], prefix, encl)
            visit_h(m.tree.body, "")
    # ---- pass 4: static call graph: what can run before from_config's write; which writers run whenever from_config runs
    inv.reach = reach_before_write(inv, mods, classes)
    always = inv.callgraph.unconditional_closure(ANCHOR) if inv.callgraph is not None else set()
    for e in inv.entries.values():
        e["anchored_writers"] = {w for w in e["uncond_writers"] if w in always}
    return inv



# ------------------------------------------------------------------------------------------------ static call graph (bounded, syntactic)
IMMEDIATE_CALLERS = {"sorted", "map", "filter", "min", "max", "any", "all", "next", "sum", "list", "tuple", "set", "dict"}
CTOR_METHODS = ("__init__", "__new__", "__post_init__", "model_post_init")


class CallGraph:
    """Which functions of the package can run when a statement runs — by NAME, with these refinements:
      * `Foo(...)` for a package class runs `__init__` / `model_post_init` / validators of Foo and its ancestors and the default
        expressions of their class-body fields (default_factory lambdas included), and fixes the type of `self` inside them;
      * `self.m()` / `cls.m()` resolves through the MRO of that self type when it is known, else to `m` of the enclosing class, its
        ancestors and descendants; `super().m()` to the next definition; `Class.m()` through Class's MRO; `f()` to a nested def of the
        caller, else module-level `f`, else every `f`; `x.m()` on any other receiver to every function named `m` that is defined in the
        caller's module or in a package module the caller's module imports, transitively (IMPORT-SCOPED name resolution: an object of a
        class defined in a module outside the caller's import closure is not seen — a stated limit of the syntactic analysis);
        `self.a()` where the class annotates `self.a: T` with a package class T to `T.__call__` (and descendants');
      * reading an attribute whose name is a `@property` of the package counts as calling every property of that name;
      * bodies of lambdas and nested defs are DEFERRED (registered callbacks run later), except lambdas handed to builtins that call them
        at once. Names that no package function / class carries resolve to nothing (builtins, third-party).
    Not seen (dynamic only): callables stored in containers / attributes and invoked later in the same operation, `getattr`, dunder
    protocol methods (`__eq__`, `__hash__`, `__iter__`, …), third-party code calling back, exceptions."""

    def __init__(self, mods: List[_Mod], classes):
        self.classes = classes
        self.funcs: Dict[str, List[Tuple[str, ast.AST, Optional[str]]]] = {}
        self.byqual: Dict[str, Tuple[ast.AST, Optional[str]]] = {}
        self.props: Set[str] = set()
        self.attr_types: Dict[Tuple[str, str], str] = {}   # (class, self attribute) -> annotated package class
        self.visible: Dict[str, Set[str]] = {}             # module -> itself + the package modules it imports (directly)
        self.class_module: Dict[str, str] = {}
        for m in mods:
            vis = {m.name}
            for n in ast.walk(m.tree):
                if isinstance(n, ast.ImportFrom) and n.module and (n.module == "primaite" or n.module.startswith("primaite.")):
                    base = n.module[len("primaite."):] if n.module != "primaite" else "primaite"
                    vis.add(base)
                    for a in n.names:       # `from primaite.simulator import core` imports a module
                        vis.add((base + "." if base != "primaite" else "") + a.name)
                elif isinstance(n, ast.Import):
                    for a in n.names:
                        if a.name.startswith("primaite."):
                            vis.add(a.name[len("primaite."):])
            self.visible[m.name] = vis
        # transitively: an object handed over by an imported module may be of a class that module imports
        known = set(self.visible)
        changed = True
        while changed:
            changed = False
            for mname, vis in self.visible.items():
                add = set()
                for v in vis:
                    add |= self.visible.get(v, set()) - vis
                if add:
                    vis |= add
                    changed = True
        for mname in self.visible:
            self.visible[mname] &= known | {mname}
        for cname, defs in classes.items():
            for (m, _, _) in defs:
                self.class_module.setdefault(cname, m.name)

        def visit(m: _Mod, body, prefix: str, cls: Optional[str]):
            for n in body:
                if isinstance(n, ast.ClassDef):
                    visit(m, n.body, prefix + n.name + ".", n.name)
                elif isinstance(n, (ast.FunctionDef, ast.AsyncFunctionDef)):
                    q = f"{m.name}:{prefix}{n.name}"
                    self.funcs.setdefault(n.name, []).append((q, n, cls))
                    self.byqual[q] = (n, cls)
                    if any(ast.unparse(d) in ("property", "cached_property", "functools.cached_property") or ast.unparse(d).endswith(".setter")
                           for d in n.decorator_list):
                        self.props.add(n.name)
                    if cls:
                        for x in ast.walk(n):
                            if isinstance(x, ast.AnnAssign) and isinstance(x.target, ast.Attribute) and isinstance(x.target.value, ast.Name) \
                                    and x.target.value.id == "self":
                                t = ast.unparse(x.annotation).split("[")[0].split(".")[-1].strip("'\"")
                                if t in classes:
                                    self.attr_types[(cls, x.target.attr)] = t
                    visit(m, n.body, prefix + n.name + ".", cls)
                elif isinstance(n, (ast.If, ast.Try, ast.With, ast.For, ast.While)):
                    visit(m, [x for x in ast.iter_child_nodes(n) if isinstance(x, ast.stmt)], prefix, cls)
        for m in mods:
            visit(m, m.tree.body, "", None)

    # -- syntax
    def walk_now(self, node: ast.AST, include_lambdas: bool = False):
        stack = [node]
        while stack:
            n = stack.pop()
            yield n
            for c in ast.iter_child_nodes(n):
                if isinstance(c, (ast.FunctionDef, ast.AsyncFunctionDef, ast.ClassDef)):
                    continue
                if isinstance(c, ast.Lambda) and not include_lambdas:
                    if isinstance(n, ast.Call) and isinstance(n.func, ast.Name) and n.func.id in IMMEDIATE_CALLERS:
                        stack.append(c)
                    continue
                stack.append(c)

    def callees(self, node: ast.AST, include_lambdas: bool = False) -> List[Tuple[str, str, Optional[str]]]:
        res = []
        for x in self.walk_now(node, include_lambdas):
            if isinstance(x, ast.Call):
                f = x.func
                if isinstance(f, ast.Name):
                    res.append(("name", f.id, None))
                elif isinstance(f, ast.Attribute):
                    recv = None
                    if isinstance(f.value, ast.Name):
                        recv = f.value.id
                    elif isinstance(f.value, ast.Call) and isinstance(f.value.func, ast.Name) and f.value.func.id == "super":
                        recv = "super"
                    res.append(("attr", f.attr, recv))
            elif isinstance(x, ast.Attribute) and x.attr in self.props:     # load: the getter; store: the setter
                res.append(("prop", x.attr, x.value.id if isinstance(x.value, ast.Name) else None))
        return res

    # -- classes
    def mro(self, c: str) -> List[str]:
        return [c] + _ancestors(self.classes, c)

    def descendants(self, c: str) -> Set[str]:
        return {d for d in self.classes if c in _ancestors(self.classes, d)}

    def ctor(self, cname: str):
        out = []
        for c in self.mro(cname):
            for (m, cd, q) in self.classes.get(c, []):
                for st in cd.body:
                    if isinstance(st, (ast.FunctionDef, ast.AsyncFunctionDef)):
                        if st.name in CTOR_METHODS or any("validator" in ast.unparse(d) for d in st.decorator_list):
                            out.append((f"{m.name}:{q}.{st.name}", cname))
                    elif isinstance(st, (ast.Assign, ast.AnnAssign)) and getattr(st, "value", None) is not None:
                        out.append((("expr", st.value, c), cname))
        return out

    @staticmethod
    def _defining(cands, order):
        for c in order:
            hit = [q for (q, _, cc) in cands if cc == c]
            if hit:
                return hit
        return []

    def resolve(self, kind: str, name: str, recv: Optional[str], encl: Optional[str], selftype: Optional[str], qual: Optional[str]):
        if kind == "name" and name in self.classes:
            return self.ctor(name)
        if kind == "name" and name == "cls" and encl:
            return self.ctor(selftype or encl)
        cands = self.funcs.get(name, [])
        if not cands:
            if kind == "attr" and recv == "self" and encl:
                for c in self.mro(selftype or encl):
                    t = self.attr_types.get((c, name))
                    if t:
                        callers = [q for (q, _, cc) in self.funcs.get("__call__", []) if cc in set(self.mro(t)) | self.descendants(t)]
                        return [(q, None) for q in callers]
            return []
        if kind == "name" and qual:
            nested = [q for (q, _, _) in cands if q.startswith(qual + ".")]
            if nested:
                return [(q, selftype) for q in nested]
        if recv in ("self", "cls") and encl:
            if selftype:
                hit = self._defining(cands, self.mro(selftype))
                if hit:
                    return [(q, selftype) for q in hit]
            fam = set(self.mro(encl)) | self.descendants(encl)
            hit = [q for (q, _, c) in cands if c in fam]
            if hit:
                return [(q, None) for q in hit]
        if recv == "super" and encl:
            order = self.mro(selftype) if selftype else self.mro(encl)
            if encl in order:
                order = order[order.index(encl) + 1:]
            return [(q, selftype) for q in self._defining(cands, order)]
        if kind == "attr" and recv in self.classes:
            hit = self._defining(cands, self.mro(recv))
            if hit:
                return [(q, recv) for q in hit]
        if kind == "name":
            hit = [q for (q, _, c) in cands if c is None]
            return [(q, None) for q in (hit or [q for (q, _, _) in cands])]
        caller_mod = qual.split(":")[0] if qual else self.class_module.get(encl or "", None)
        vis = self.visible.get(caller_mod) if caller_mod else None
        if vis is None:
            return [(q, None) for (q, _, _) in cands]
        return [(q, None) for (q, _, _) in cands if q.split(":")[0] in vis]

    def closure(self, start: List[Tuple[str, str, Optional[str]]], encl: Optional[str], qual: Optional[str], max_depth: int = 12,
                max_funcs: int = 400) -> Tuple[Dict[Tuple[str, Optional[str]], int], bool]:
        """function contexts (qualified name, self type) reachable from the given call sites; `truncated` when a bound was hit"""
        seen: Dict[Tuple[str, Optional[str]], int] = {}
        frontier: List[Tuple[Tuple[str, Optional[str]], int]] = []

        def push(item, st, depth):
            if isinstance(item, tuple) and item[0] == "expr":
                for (k, nm, rv) in self.callees(item[1], include_lambdas=True):
                    for (r, st2) in self.resolve(k, nm, rv, item[2], st, None):
                        push(r, st2, depth)
                return
            key = (item, st)
            if key in seen:
                return
            seen[key] = depth
            frontier.append((key, depth))
        for (k, nm, rv) in start:
            for (r, st) in self.resolve(k, nm, rv, encl, None, qual):
                push(r, st, 1)
        truncated = False
        while frontier:
            (q, st), d = frontier.pop(0)
            if len(seen) > max_funcs:
                truncated = True
                break
            if d >= max_depth:
                truncated = True
                continue
            node, c = self.byqual[q]
            for (k, nm, rv) in self.callees(node):
                for (r, st2) in self.resolve(k, nm, rv, c, st, q):
                    push(r, st2, d + 1)
        return seen, truncated

    # -- statements that run whenever the function runs to completion
    @staticmethod
    def unconditional_statements(fn: ast.AST) -> List[ast.stmt]:
        """direct children of the body up to (and including) the first statement that contains a `return` or a `raise` in its own scope"""
        out = []
        for st in fn.body:
            out.append(st)
            if any(isinstance(x, (ast.Return, ast.Raise)) for x in _walk_same_scope(st)):
                break
        return out

    def unconditional_closure(self, anchor: str, max_depth: int = 3) -> Set[str]:
        """functions that run whenever `anchor` runs to completion: called (by a resolvable name that has exactly ONE definition in that
        context) from an unconditional top-level statement, transitively"""
        out = {anchor}
        frontier = [(anchor, None, 0)]
        while frontier:
            q, st, d = frontier.pop(0)
            if d >= max_depth or q not in self.byqual:
                continue
            node, c = self.byqual[q]
            for stmt in self.unconditional_statements(node):
                if not isinstance(stmt, (ast.Expr, ast.Assign, ast.AnnAssign, ast.AugAssign)):
                    continue      # a call nested in if / for / while / try / with is conditional
                for x in self.walk_now(stmt):
                    if isinstance(x, (ast.IfExp, ast.BoolOp)):
                        break     # short-circuit / conditional expression: its calls are conditional
                else:
                    for (k, nm, rv) in self.callees(stmt):
                        if k == "prop":
                            continue
                        r = [t for t in self.resolve(k, nm, rv, c, st, q) if isinstance(t[0], str)]
                        if k == "name" and nm in self.classes:
                            continue   # a constructor: its methods write instance state, not the class
                        if len(r) == 1 and r[0][0] not in out:
                            out.add(r[0][0])
                            frontier.append((r[0][0], r[0][1], d + 1))
        return out


def readers_reachable_from(inv: "Inventory", roots: List[str], entry: str) -> Tuple[List[str], bool]:
    if entry == GENERATORS:
        return drawers_reachable_from(inv, roots)
    """non-writer readers of `entry` statically reachable from the given functions (used by the rig for functions that were ENTERED before
    the write on a monitored run but are not in the static closure: third-party callbacks, validators handed to pydantic, …)"""
    cg = inv.callgraph
    e = inv.entries[entry]
    seen: Dict[Tuple[str, Optional[str]], int] = {}
    trunc = False
    for r in roots:
        if r not in cg.byqual:
            continue
        node, c = cg.byqual[r]
        s2, t2 = cg.closure(cg.callees(node), c, r)
        seen.update(s2)
        trunc = trunc or t2
    reached = {k[0] for k in seen} | set(roots)
    return sorted(f for f in reached if f in e["readers"] and f not in e["writers"]), trunc


def drawers_reachable_from(inv: "Inventory", roots: List[str]) -> Tuple[List[str], bool]:
    """functions that draw from a process-global generator, statically reachable from the given functions"""
    cg = inv.callgraph
    drawers = {f for (_, f, c) in inv.rng if is_draw(c)}
    seen: Dict[Tuple[str, Optional[str]], int] = {}
    trunc = False
    for r in roots:
        if r not in cg.byqual:
            continue
        node, c = cg.byqual[r]
        s2, t2 = cg.closure(cg.callees(node), c, r)
        seen.update(s2)
        trunc = trunc or t2
    reached = {k[0] for k in seen} | set(roots)
    return sorted(f for f in reached if f in drawers), trunc


GENERATORS = "<process-global generators>"
ANCHOR = "game.game:PrimaiteGame.from_config"
ENV_CLASS = ("session.environment", "PrimaiteGymEnv")


def _prefix_calls(cg: CallGraph, fn: ast.AST, stop) -> Tuple[List[Tuple[str, str, Optional[str]]], List[str]]:
    """call sites in the top-level statements of `fn` before the statement for which `stop(stmt)` holds, plus the calls in that statement's
    own sub-expressions other than the outermost call (e.g. the scheduler call inside `self.game = from_config(self.episode_scheduler(…))`)"""
    items, names = [], []
    for st in fn.body:
        if stop(st):
            v = getattr(st, "value", None)
            if isinstance(v, ast.Call):
                for a in list(v.args) + [k.value for k in v.keywords]:
                    items += cg.callees(a)
            break
        items += cg.callees(st)
    for (k, nm, rv) in items:
        t = (rv + "." if rv else "") + nm
        if t not in names:
            names.append(t)
    return items, names


def reach_before_write(inv: "Inventory", mods: List[_Mod], classes) -> List[dict]:
    """For every readable run-time written global written unconditionally by from_config: the functions statically reachable from the calls
    that each environment operation makes BEFORE that write (from_config's own prefix; `reset` and `__init__` up to `self.game = …`)."""
    cg = CallGraph(mods, classes)
    inv.callgraph = cg
    rows = []
    if ANCHOR not in cg.byqual:
        return rows
    fc, fc_cls = cg.byqual[ANCHOR]
    env_q = f"{ENV_CLASS[0]}:{ENV_CLASS[1]}"
    for name, e in sorted(inv.entries.items()):
        if ANCHOR not in e["uncond_writers"]:
            continue
        attr = name.split(".")[-1]

        def is_write(st, attr=attr):
            tg = st.targets if isinstance(st, ast.Assign) else [st.target] if isinstance(st, (ast.AnnAssign, ast.AugAssign)) else []
            return any(isinstance(t, ast.Attribute) and t.attr == attr and isinstance(t.value, ast.Name) and t.value.id in classes for t in tg)

        def is_game(st):
            tg = st.targets if isinstance(st, ast.Assign) else [st.target] if isinstance(st, ast.AnnAssign) else []
            return any(ast.unparse(t) == "self.game" for t in tg)
        for op, q, cls, stop in (("from_config", ANCHOR, fc_cls, is_write), ("reset", env_q + ".reset", ENV_CLASS[1], is_game),
                                 ("__init__", env_q + ".__init__", ENV_CLASS[1], is_game)):
            if q not in cg.byqual:
                raise ValueError(f"call graph: {q} not found")
            items, names = _prefix_calls(cg, cg.byqual[q][0], stop)
            seen, trunc = cg.closure(items, cls, q)
            reached = sorted({k[0] for k in seen})
            rows.append({"entry": name, "op": op, "calls": names, "reached": reached, "truncated": trunc,
                         "readers": sorted(f for f in reached if f in e["readers"])})
    # the process-global GENERATORS are re-written (seeded) before they are read as well: nothing that `reset` / `__init__` call BEFORE the
    # statement that calls `set_random_seed` may draw from them
    drawers = {f for (_, f, c) in inv.rng if c.split(".")[-1] not in RNG_SEEDERS}

    def seeds(st):
        return any(isinstance(x, ast.Call) and ast.unparse(x.func).split(".")[-1] == "set_random_seed" for x in ast.walk(st))
    for op in ("reset", "__init__"):
        q = f"{env_q}.{op}"
        if q not in cg.byqual:
            raise ValueError(f"call graph: {q} not found")
        fn = cg.byqual[q][0]
        if not any(seeds(st) for st in fn.body):
            raise ValueError(f"{q}: no top-level statement calls set_random_seed")
        items, names = [], []
        for st in fn.body:
            if seeds(st):
                # the sub-expressions of the seeding statement that are evaluated before the call itself (its test, its arguments)
                for x in ast.walk(st):
                    if isinstance(x, ast.Call) and ast.unparse(x.func).split(".")[-1] == "set_random_seed":
                        for a in list(x.args) + [k.value for k in x.keywords]:
                            items += cg.callees(a)
                if isinstance(st, ast.If):
                    items += cg.callees(st.test)
                break
            items += cg.callees(st)
        for (k, nm, rv) in items:
            t = (rv + "." if rv else "") + nm
            if t not in names:
                names.append(t)
        seen, trunc = cg.closure(items, ENV_CLASS[1], q)
        reached = sorted({k[0] for k in seen})
        rows.append({"entry": GENERATORS, "op": op, "calls": names, "reached": reached, "truncated": trunc,
                     "readers": sorted(f for f in reached if f in drawers)})
    return rows


def _s(x: str) -> str:
    return '"' + x.replace("\\", "\\\\").replace('"', "'") + '"'


def _l(xs) -> str:
    return "[" + ", ".join(_s(x) for x in xs) + "]"


def emit() -> str:
    inv = build()
    names = sorted(inv.entries)
    runtime = [n for n in names if inv.entries[n]["writers"]]
    # the functions that touch a runtime-written global or a global generator, numbered (keeps the Lean obligations cheap:
    # the committed role table is matched against this list once, everything else is arithmetic on indices)
    fns = set()
    for n in runtime:
        fns |= inv.entries[n]["writers"] | inv.entries[n]["readers"]
    for _, f, _ in inv.rng:
        fns.add(f)
    fns = sorted(fns)
    fid = {f: i for i, f in enumerate(fns)}

    def ids(xs) -> str:
        return "[" + ", ".join(str(fid[x]) for x in sorted(xs)) + "]"
    lines = ["namespace Primaite.Gen.SharedState", "",
             "/-- functions touching a runtime-written global or a process-global random generator; referred to by index below -/",
             "def fns : List String := ["]
    lines.append(",\n".join(f"  {_s(f)}" for f in fns) + "]")
    lines += ["", "structure Entry where", "  name : String", "  kind : String", "  mutableValue : Bool",
              "  importWrites : List String", "  writers : List Nat", "  readers : List Nat",
              "  /-- writers with a write site that is a top-level statement of the function, not after a `return` (UNCONDITIONAL write) -/",
              "  uncondWriters : List Nat",
              "  /-- unconditional writers that run WHENEVER `PrimaiteGame.from_config` runs to completion: from_config itself or a helper it calls",
              "  from an unconditional top-level statement (transitively, depth 3) -/",
              "  anchoredWriters : List Nat", "  deriving Repr, DecidableEq", "",
              "/-- every class-level attribute and module-level mutable object, with the functions (indices into `fns`) that write it",
              "at run time and, for those that are written at run time, the functions that read it -/",
              "def entries : List Entry := ["]
    rows = []
    for n in names:
        e = inv.entries[n]
        if e["kind"] == "module-logger":
            continue
        readers = e["readers"] if e["writers"] else []
        rows.append(f"  ⟨{_s(n)}, {_s(e['kind'])}, {'true' if e['mutable'] else 'false'}, {_l(sorted(set(e['import_writes'])))}, "
                    f"{ids(e['writers'])}, {ids(readers)}, {ids(e['uncond_writers'])}, {ids(e.get('anchored_writers', set()))}⟩")
    lines.append(",\n".join(rows) + "]")
    loggers = [n for n in names if inv.entries[n]["kind"] == "module-logger"]
    bad_loggers = [n for n in loggers if inv.entries[n]["writers"]]
    lines += ["", "/-- module-level `getLogger(__name__)` objects (sinks) -/", f"def moduleLoggers : Nat := {len(loggers)}",
              f"def moduleLoggersWritten : List String := {_l(bad_loggers)}", "",
              "/-- uses of the process-global generators: (generator, function index, call) -/",
              "def rngUses : List (String × Nat × String) := ["]
    lines.append(",\n".join(f"  ({_s(g)}, {fid[f]}, {_s(c)})" for g, f, c in sorted(set(inv.rng))) + "]")
    lines += ["", "/-- for every unconditional run-time write (entry, writer function): the calls the function makes in the statements BEFORE the write",
              "(as written, and the last identifier of each: the name of the function / method called) -/",
              "def callsBeforeWrite : List (String × String × List String × List String) := ["]

    def last_ident(c: str) -> str:
        return re.sub(r"\(\)", "", c).split(".")[-1]
    lines.append(",\n".join(f"  ({_s(n)}, {_s(f)}, {_l(c)}, {_l([last_ident(x) for x in c])})" for n in runtime
                            for f, c in sorted(inv.entries[n]["calls_before_write"].items())) + "]")
    lines += ["", "/-- static call graph (by name; self type followed through constructors; lambdas deferred; see harness/extract/sharedstate.py):",
              "for each global that from_config writes unconditionally and each environment operation, the calls made BEFORE the write (as written),",
              "the number of package functions reachable from them, the reachable functions that READ the global (indices into `fns`), and whether",
              "a bound of the search was hit -/",
              "def reachBeforeWrite : List (String × String × List String × Nat × List Nat × Bool) := ["]
    lines.append(",\n".join(f"  ({_s(r['entry'])}, {_s(r['op'])}, {_l(r['calls'])}, {len(r['reached'])}, {ids(r['readers'])}, {'true' if r['truncated'] else 'false'})"
                            for r in inv.reach) + "]")
    # F-11 repair: `__init__` / `reset` / `step` of the environment classes run on the environment's OWN saved generator state (decorator
    # `own_generator_state`); every OTHER method of those classes (close, action_masks, _get_obs, the properties, …) runs on whatever the
    # process-wide generators hold - so none of them may reach a function that draws from one
    true_drawers = {f for (_, f, c) in inv.rng if is_draw(c)}
    cg = inv.callgraph
    unowned = []
    for q in sorted(cg.byqual):
        if q.startswith("session.environment:PrimaiteGymEnv.") or q.startswith("session.ray_envs:PrimaiteRayMARLEnv."):
            node, c = cg.byqual[q]
            if q.count(".") != 2 or not isinstance(node, (ast.FunctionDef, ast.AsyncFunctionDef)):
                continue        # nested functions belong to their method
            if any(ast.unparse(d).split(".")[-1] == "own_generator_state" for d in node.decorator_list):
                continue
            seen, trunc = cg.closure(cg.callees(node), c, q)
            reached = {k[0] for k in seen}
            unowned.append((q, sorted(reached & true_drawers), len(reached), trunc))
    lines += ["", "/-- methods of PrimaiteGymEnv / PrimaiteRayMARLEnv that are NOT decorated with `own_generator_state` (they run on whatever the",
              "process-wide generators hold): (method, the drawing functions statically reachable from it (indices into `fns`), number of package",
              "functions reachable, whether a bound of the search was hit) -/",
              "def drawersFromUnownedMethods : List (String × List Nat × Nat × Bool) := ["]
    lines.append(",\n".join(f"  ({_s(q)}, {ids(d)}, {n}, {'true' if t else 'false'})" for q, d, n, t in unowned) + "]")
    lines += ["", "/-- functions decorated with functools.lru_cache / functools.cache (process-global caches): (function, decorator, whether EVERY return",
              "expression is syntactically immutable, the return expressions) -/",
              "def memoFunctions : List (String × String × Bool × List String) := [" +
              ", ".join(f"({_s(q)}, {_s(d)}, {'true' if imm else 'false'}, {_l(r)})" for q, d, imm, r in sorted(inv.memo)) + "]",
              "/-- functools.cached_property sites (cached per INSTANCE, in the instance's own dict) -/",
              "def cachedProperties : List String := " + _l(sorted(inv.cached_props))]
    lines += ["", "/-- functions that RETURN a run-time written module-level / class-level container or an element of it: (entry, function, how, expr) -/",
              "def handedOut : List (String × String × String × String) := [" +
              ", ".join(f"({_s(a)}, {_s(b)}, {_s(c)}, {_s(d)})" for a, b, c, d in sorted(set(inv.handed_out))) + "]",
              "/-- run-time stores into such a container: (entry, function, the stored value is syntactically immutable, expr) -/",
              "def storedValues : List (String × String × Bool × String) := [" +
              ", ".join(f"({_s(a)}, {_s(b)}, {'true' if c else 'false'}, {_s(d)})" for a, b, c, d in sorted(set(inv.stored))) + "]"]
    lines += ["", "/-- `setattr(<class>, <non-literal name>, …)` sites: writes the inventory cannot attribute -/",
              "def dynamicClassWrites : List (String × String) := [" + ", ".join(f"({_s(f)}, {_s(c)})" for f, c in sorted(set(inv.dynamic_writes))) + "]"]
    lines += ["", "/-- the last identifier (function / method name) of every entry of `fns`, same order -/",
              "def fnIdents : List String := " + _l([f.split(":")[-1].split(".")[-1] for f in fns])]
    lines += ["", "def globalStatements : List (String × String) := [" + ", ".join(f"({_s(f)}, {_s(n)})" for f, n in sorted(set(inv.global_stmts))) + "]",
              "", "/-- pydantic fields with a mutable or aliasing default (copied per instance by pydantic; asserted by the rig) -/",
              "def pydanticMutableDefaults : List (String × String) := ["]
    lines.append(",\n".join(f"  ({_s(f)}, {_s(k)})" for f, k in sorted(set(inv.pyd_defaults))) + "]")
    lines += ["", "end Primaite.Gen.SharedState", ""]
    return "\n".join(lines)


if __name__ == "__main__":
    print(emit())
