"""Translator tie for C17: status codes, guard tables, health sets, comparison operators and defaults of the database
core, read from the source with `ast` (never imports primaite). Strict: an unrecognised shape raises."""
import ast
from typing import Dict, List, Optional

from harness.extract.util import class_def, find_method, parse

GEN_NAME = "Database"

DB = "simulator/system/services/database/database_service.py"
SW = "simulator/system/software.py"
SVC = "simulator/system/services/service.py"


def u(n: ast.AST) -> str:
    return ast.unparse(n)


def _int_assigns(fn: ast.AST, name: str) -> List[int]:
    out = []
    for n in ast.walk(fn):
        if isinstance(n, ast.Assign) and len(n.targets) == 1 and u(n.targets[0]) == name:
            if not (isinstance(n.value, ast.Constant) and isinstance(n.value.value, int)):
                raise ValueError(f"{name} assigned a non-literal: {u(n.value)}")
            out.append(n.value.value)
    return out


def _enum_members(tree: ast.AST, cls: str) -> Dict[str, int]:
    c = class_def(tree, cls)
    out = {}
    for st in c.body:
        if isinstance(st, ast.Assign) and isinstance(st.value, ast.Constant) and isinstance(st.value.value, int):
            out[u(st.targets[0])] = st.value.value
    if not out:
        raise ValueError(f"enum {cls} has no literal members")
    return out


def _attr_names(node: ast.AST, prefix: str) -> List[str]:
    """[SoftwareHealthState.GOOD, ...] → ['GOOD', ...]"""
    if not isinstance(node, (ast.List, ast.Tuple)):
        raise ValueError(f"expected a list/tuple of {prefix} members, got {u(node)}")
    out = []
    for e in node.elts:
        s = u(e)
        if not s.startswith(prefix + "."):
            raise ValueError(f"unexpected member {s}")
        out.append(s.split(".", 1)[1])
    return out


def _status_of_return(ret: ast.Return) -> int:
    if not isinstance(ret.value, ast.Dict):
        raise ValueError(f"return is not a dict literal: {u(ret)}")
    for k, v in zip(ret.value.keys, ret.value.values):
        if isinstance(k, ast.Constant) and k.value == "status_code":
            if isinstance(v, ast.Constant) and isinstance(v.value, int):
                return v.value
            raise ValueError(f"status_code not literal: {u(v)}")
    raise ValueError("no status_code in returned dict")


def _first_return(body: List[ast.stmt]) -> ast.Return:
    for st in body:
        if isinstance(st, ast.Return):
            return st
    raise ValueError("no return in block")


def _process_connect(fn: ast.FunctionDef) -> dict:
    top_if = [s for s in fn.body if isinstance(s, ast.If)]
    if len(top_if) != 1 or u(top_if[0].test) != "self.operating_state == ServiceOperatingState.RUNNING":
        raise ValueError("_process_connect: outer guard is not `operating_state == RUNNING`")
    outer = top_if[0]
    default = _int_assigns(ast.Module(body=[s for s in fn.body if isinstance(s, ast.Assign)], type_ignores=[]), "status_code")
    not_running = _int_assigns(ast.Module(body=outer.orelse, type_ignores=[]), "status_code")
    unavailable = [s.value.value for s in outer.body if isinstance(s, ast.Assign) and u(s.targets[0]) == "status_code"]
    ifs = [s for s in outer.body if isinstance(s, ast.If)]
    accept_if = next((s for s in ifs if isinstance(s.test, ast.Compare) and isinstance(s.test.ops[0], ast.In)
                      and u(s.test.left) == "self.health_state_actual"), None)
    if accept_if is None:
        raise ValueError("_process_connect: no `health_state_actual in [...]` test")
    accept = _attr_names(accept_if.test.comparators[0], "SoftwareHealthState")
    pw_if = [s for s in accept_if.body if isinstance(s, ast.If)]
    if len(pw_if) != 1 or not isinstance(pw_if[0].test, ast.Compare) or len(pw_if[0].test.ops) != 1:
        raise ValueError("_process_connect: password test not found")
    t = pw_if[0].test
    if {u(t.left), u(t.comparators[0])} != {"self.config.db_password", "password"}:
        raise ValueError(f"_process_connect: password test compares {u(t)}")
    pw_op = {ast.Eq: "==", ast.Is: "is", ast.NotEq: "!="}.get(type(t.ops[0]))
    if pw_op is None:
        raise ValueError("password operator unrecognised")
    ok = [s.value.value for s in pw_if[0].body if isinstance(s, ast.Assign) and u(s.targets[0]) == "status_code"]
    add_if = [s for s in pw_if[0].body if isinstance(s, ast.If)]
    if len(add_if) != 1 or not u(add_if[0].test).startswith("not self.add_connection("):
        raise ValueError("_process_connect: `if not self.add_connection(...)` not found")
    # the id must be generated before add_connection is attempted
    gen_before = any(isinstance(s, ast.Assign) and u(s.value) == "self._generate_connection_id()" for s in pw_if[0].body[:pw_if[0].body.index(add_if[0])])
    add_failed = _int_assigns(ast.Module(body=add_if[0].body, type_ignores=[]), "status_code")
    unauth = _int_assigns(ast.Module(body=pw_if[0].orelse, type_ignores=[]), "status_code")
    for name, v in (("default", default), ("not_running", not_running), ("unavailable", unavailable), ("ok", ok),
                    ("add_failed", add_failed), ("unauth", unauth)):
        if len(v) != 1:
            raise ValueError(f"_process_connect: {name} status assigned {len(v)} times")
    ret = _first_return(fn.body)
    resp = next((u(v) for k, v in zip(ret.value.keys, ret.value.values) if isinstance(k, ast.Constant) and k.value == "response"), None)
    if resp != "status_code == 200":
        raise ValueError(f"_process_connect: response field is {resp}")
    return {"default": default[0], "not_running": not_running[0], "unavailable": unavailable[0], "ok": ok[0], "add_failed": add_failed[0],
            "unauth": unauth[0], "accept": accept, "pw_op": pw_op, "gen_before": gen_before}


def _process_sql(fn: ast.FunctionDef) -> dict:
    ifs = [s for s in fn.body if isinstance(s, ast.If)]
    if len(ifs) != 3:
        raise ValueError(f"_process_sql: expected 3 top-level ifs, found {len(ifs)}")
    if u(ifs[0].test) != "not self.db_file":
        raise ValueError("_process_sql: first guard is not `not self.db_file`")
    if u(ifs[1].test) != "self.health_state_actual is not SoftwareHealthState.GOOD":
        raise ValueError(f"_process_sql: second guard is {u(ifs[1].test)}")
    out = {"missing": _status_of_return(_first_return(ifs[0].body)), "unhealthy": _status_of_return(_first_return(ifs[1].body))}
    # the elif chain on `query == "<literal>"`
    chain = {}
    node: Optional[ast.stmt] = ifs[2]
    final_else = None
    while isinstance(node, ast.If):
        t = node.test
        if not (isinstance(t, ast.Compare) and u(t.left) == "query" and isinstance(t.ops[0], ast.Eq) and isinstance(t.comparators[0], ast.Constant)):
            raise ValueError(f"_process_sql: unexpected test {u(t)}")
        chain[t.comparators[0].value] = node.body
        if len(node.orelse) == 1 and isinstance(node.orelse[0], ast.If):
            node = node.orelse[0]
        else:
            final_else = node.orelse
            node = None
    for need in ("SELECT", "DELETE", "ENCRYPT", "INSERT", "SELECT * FROM pg_stat_activity"):
        if need not in chain:
            raise ValueError(f"_process_sql: no branch for {need}")
    out["order"] = list(chain)
    # SELECT: if CORRUPT → a ; elif GOOD → b ; else c
    sel = [s for s in chain["SELECT"] if isinstance(s, ast.If)]
    if len(sel) != 1:
        raise ValueError("_process_sql: SELECT branch shape")
    s0 = sel[0]
    if u(s0.test) != "self.db_file.health_status == FileSystemItemHealthStatus.CORRUPT":
        raise ValueError("SELECT first test")
    s1 = s0.orelse[0]
    if not isinstance(s1, ast.If) or u(s1.test) != "self.db_file.health_status == FileSystemItemHealthStatus.GOOD":
        raise ValueError("SELECT second test")
    out["select_corrupt"] = _status_of_return(_first_return(s0.body))
    out["select_good"] = _status_of_return(_first_return(s1.body))
    out["select_else"] = _status_of_return(_first_return(s1.orelse))

    def sets(body, what):
        v = [u(s.value).split(".")[-1] for s in body if isinstance(s, ast.Assign) and u(s.targets[0]) == "self.db_file.health_status"]
        if len(v) != 1:
            raise ValueError(f"_process_sql: {what} sets db_file.health_status {len(v)} times")
        return v[0]
    out["delete_sets"] = sets(chain["DELETE"], "DELETE")
    out["delete"] = _status_of_return(_first_return(chain["DELETE"]))
    out["encrypt_sets"] = sets(chain["ENCRYPT"], "ENCRYPT")
    out["encrypt"] = _status_of_return(_first_return(chain["ENCRYPT"]))
    for name in ("INSERT", "SELECT * FROM pg_stat_activity"):
        inner = [s for s in chain[name] if isinstance(s, ast.If)]
        if len(inner) != 1 or u(inner[0].test) != "self.health_state_actual == SoftwareHealthState.GOOD":
            raise ValueError(f"_process_sql: {name} branch shape")
        out["insert" if name == "INSERT" else "pgstat"] = _status_of_return(_first_return(inner[0].body))
    out["unknown"] = _status_of_return(_first_return(final_else))
    # no other statement may write the file's health
    writes = [n for n in ast.walk(fn) if isinstance(n, ast.Assign) and u(n.targets[0]) == "self.db_file.health_status"]
    if len(writes) != 2:
        raise ValueError(f"_process_sql writes db_file.health_status {len(writes)} times")
    return out


GUARD_FIRST = [True]


def _receive(fn: ast.FunctionDef) -> dict:
    stmts = [s for s in fn.body if not (isinstance(s, ast.Expr) and isinstance(s.value, ast.Constant))]
    # result default, then the _can_perform_action guard before anything else
    if not (isinstance(stmts[0], ast.Assign) and u(stmts[0].targets[0]) == "result"):
        raise ValueError("receive: first statement is not the default result")
    default = _status_of_return(ast.Return(value=stmts[0].value))
    g = stmts[1]
    if not (isinstance(g, ast.If) and u(g.test) == "not self._can_perform_action()" and isinstance(g.body[0], ast.Return)
            and u(g.body[0].value) == "False"):
        # (second shift, blind change C17-h) not an extractor failure: the TABLE says so, `C17_gen_sql` is then refuted on its own;
        # the meaning of the guard that IS there is the translated dispatcher's business (database_tr.py, C17_tr_receive,
        # C17_gen_receive_not_running)
        GUARD_FIRST[0] = False
        if not isinstance(g, ast.If):
            raise ValueError("receive: second statement is not a guard")
    else:
        GUARD_FIRST[0] = True
    main = stmts[2]
    if not isinstance(main, ast.If):
        raise ValueError("receive: payload dispatch not found")
    branches = {}
    node = main.body[0]
    while isinstance(node, ast.If):
        t = node.test
        if not (isinstance(t, ast.Compare) and u(t.left) == "payload['type']" and isinstance(t.comparators[0], ast.Constant)):
            raise ValueError(f"receive: unexpected dispatch test {u(t)}")
        branches[t.comparators[0].value] = node.body
        node = node.orelse[0] if node.orelse else None
    if set(branches) != {"connect_request", "disconnect", "sql"}:
        raise ValueError(f"receive: payload types {sorted(branches)}")
    sql_if = branches["sql"][0]
    if not (isinstance(sql_if, ast.If) and u(sql_if.test) == "payload.get('connection_id') in self.connections"):
        raise ValueError(f"receive: sql gate is {u(sql_if.test)}")
    if "self._process_sql(" not in u(sql_if.body[0]):
        raise ValueError("receive: gated branch does not call _process_sql")
    unknown = _status_of_return(ast.Return(value=sql_if.orelse[0].value))
    disc = branches["disconnect"][0]
    if not (isinstance(disc, ast.If) and u(disc.test) == "payload['connection_id'] in self.connections"):
        raise ValueError("receive: disconnect gate")
    owner_if = next((s for s in disc.body if isinstance(s, ast.If)), None)
    if owner_if is None or u(owner_if.test) != "connected_ip_address == frame.ip.src_ip_address":
        raise ValueError("receive: disconnect owner test")
    if "self.terminate_connection(" not in u(owner_if.body[-1]) or any("terminate_connection" in u(s) for s in owner_if.orelse):
        raise ValueError("receive: terminate_connection placement")
    return {"default": default, "sql_unknown": unknown}


SOFT: list = []   # shapes of TRANSLATED methods the table extractor did not recognise (not an error; see emit)


def emit() -> str:
    db_tree, sw_tree, svc_tree = parse(DB), parse(SW), parse(SVC)
    dbs = class_def(db_tree, "DatabaseService")
    pc = _process_connect(find_method(dbs, "_process_connect"))
    # `_process_sql` is TRANSLATED statement by statement (database_tr.py) and proved equal to the model (C17_tr_process_sql) and to the
    # property's sentences branch by branch (C17_gen_process_sql_*): a shape this table reader does not recognise (second shift: the
    # seeded change C17-g took `C17_gen_connect` … `C17_gen_fresh_instance_defaults` down with it) falls back to the committed values
    # and is recorded (see SOFT below); a change of meaning breaks the translated theorems, and only those.
    try:
        ps = _process_sql(find_method(dbs, "_process_sql"))
        ps_soft = None
    except (ValueError, IndexError, AttributeError, KeyError) as e:
        ps = {'missing': 404, 'unhealthy': 500, 'order': ['SELECT', 'DELETE', 'ENCRYPT', 'INSERT', 'SELECT * FROM pg_stat_activity'],
              'select_corrupt': 200, 'select_good': 200, 'select_else': 404, 'delete_sets': 'COMPROMISED', 'delete': 200,
              'encrypt_sets': 'CORRUPT', 'encrypt': 200, 'insert': 200, 'pgstat': 200, 'unknown': 500}
        ps_soft = f"_process_sql: table shape not recognised ({e})"
    rc = _receive(find_method(dbs, "receive"))
    # apply_timestep / _update_fix_status / Software._update_fix_status / Service.apply_timestep / Software.fix / the method guards of
    # service.py: since round 7 these methods are TRANSLATED statement by statement (database_tick_tr.py) and proved equal to the
    # model (C17_tr_tick_svc, C17_tr_lifecycle).  The shape tests below only feed the (redundant) tables of C17_gen_lifecycle; a shape
    # they do not recognise is therefore NOT an error any more (a behaviour-preserving rewrite must not break the tables) - the table
    # entry falls back to the committed value and the fact is recorded in SOFT (reported in the evidence); a change of MEANING breaks
    # the translated theorems.
    SOFT.clear()

    def soft(what: str):
        SOFT.append(what)
    if ps_soft:
        soft(ps_soft)
    at = find_method(dbs, "apply_timestep")
    bt = next((n for n in ast.walk(at) if isinstance(n, ast.If) and isinstance(n.test, ast.Compare) and u(n.test.left) == "timestep"), None)
    if bt is None or not isinstance(bt.test.ops[0], ast.Eq) or u(bt.body[0]) != "self.backup_database()":
        soft("apply_timestep: `if timestep == k: self.backup_database()` not recognised")
        backup_at = 1
    else:
        backup_at = bt.test.comparators[0].value
    ufs = find_method(dbs, "_update_fix_status")
    body = [s for s in ufs.body if not (isinstance(s, ast.Expr) and isinstance(s.value, ast.Constant))]
    if not (len(body) >= 2 and u(body[0]) == "super()._update_fix_status()" and isinstance(body[1], ast.If)
            and u(body[1].test) == "self._fixing_countdown is None" and u(body[1].body[0]) == "self.restore_backup()"):
        soft("_update_fix_status: restore-after-fix shape not recognised")
    # (the guards of backup_database / restore_backup are no longer shape-checked here: both methods are translated statement by
    # statement - helpers inlined - by database_tr.py and proved equal to the model, C17_tr_backup / C17_tr_restore)
    # software.py
    sw = class_def(sw_tree, "Software")
    io = class_def(sw_tree, "IOSoftware")
    health = _enum_members(sw_tree, "SoftwareHealthState")
    fix = find_method(sw, "fix")
    fix_if = next((s for s in fix.body if isinstance(s, ast.If)), None)
    if not (fix_if is not None and isinstance(fix_if.test, ast.Compare) and isinstance(fix_if.test.ops[0], ast.In)
            and u(fix_if.test.left) == "self.health_state_actual"
            and "self._fixing_countdown = self.config.fixing_duration" in u(fix_if) and "SoftwareHealthState.FIXING" in u(fix_if)):
        soft("Software.fix: shape not recognised")
        fix_accepts = ["COMPROMISED", "GOOD"]
    else:
        fix_accepts = _attr_names(fix_if.test.comparators[0], "SoftwareHealthState")
    uf = find_method(sw, "_update_fix_status")
    ub = [s for s in uf.body if not (isinstance(s, ast.Expr) and isinstance(s.value, ast.Constant))]
    if not (len(ub) >= 2 and isinstance(ub[0], ast.AugAssign) and isinstance(ub[0].op, ast.Sub) and u(ub[0].value) == "1"
            and isinstance(ub[1], ast.If) and u(ub[1].test) == "self._fixing_countdown <= 0"
            and "SoftwareHealthState.GOOD" in u(ub[1]) and "self._fixing_countdown = None" in u(ub[1])):
        soft("Software._update_fix_status: decrement-then-test `<= 0` not recognised")
    sat = find_method(sw, "apply_timestep")
    if not any(isinstance(x, ast.If) and u(x.test) == "self.health_state_actual == SoftwareHealthState.FIXING"
               and u(x.body[0]) == "self._update_fix_status()" for x in sat.body):
        soft("Software.apply_timestep: FIXING guard not recognised")
    cfg = class_def(sw, "ConfigSchema")
    fixing_duration = next(s.value.value for s in cfg.body if isinstance(s, ast.AnnAssign) and u(s.target) == "fixing_duration")
    max_sessions = next(s.value.value for s in io.body if isinstance(s, ast.AnnAssign) and u(s.target) == "max_sessions")
    add = find_method(io, "add_connection")
    cap_if = next(s for s in add.body if isinstance(s, ast.If))
    ct = cap_if.test
    if not (isinstance(ct, ast.Compare) and u(ct.left) == "len(self._connections)" and u(ct.comparators[0]) == "self.max_sessions"):
        raise ValueError(f"add_connection: capacity test is {u(ct)}")
    cap_op = {ast.GtE: ">=", ast.Gt: ">", ast.Eq: "=="}.get(type(ct.ops[0]))
    if cap_op is None:
        raise ValueError("add_connection: capacity operator")
    cap_sets = [u(n.args[0]).split(".")[-1] for n in ast.walk(ast.Module(body=cap_if.body, type_ignores=[]))
                if isinstance(n, ast.Call) and u(n.func) == "self.set_health_state"]
    if cap_sets != ["OVERWHELMED"] or not any(isinstance(s, ast.Return) and u(s.value) == "False" for s in cap_if.body):
        raise ValueError("add_connection: at-capacity branch")
    # service.py: validators of the request manager, method guards
    svc = class_def(svc_tree, "Service")
    irm = find_method(svc, "_init_request_manager")
    vnames = {}
    for s in irm.body:
        if isinstance(s, ast.Assign) and "Service._StateValidator(" in u(s.value):
            st = next(k.value for k in s.value.keywords if k.arg == "state")
            vnames[u(s.targets[0])] = u(st).split(".")[-1]
    validators = []
    for n in ast.walk(irm):
        if isinstance(n, ast.Call) and u(n.func) == "rm.add_request":
            name = n.args[0].value
            rt = n.args[1]
            v = next((u(k.value) for k in rt.keywords if k.arg == "validator"), None)
            validators.append((name, vnames[v] if v else "-"))
    ostate = _enum_members(svc_tree, "ServiceOperatingState")
    can = find_method(svc, "_can_perform_action")
    if "self.operating_state is not ServiceOperatingState.RUNNING" not in u(can) or "super()._can_perform_action()" not in u(can):
        raise ValueError("Service._can_perform_action shape")
    guards = []
    committed = {"stop": ["RUNNING", "PAUSED"], "pause": ["RUNNING"], "resume": ["PAUSED"], "restart": ["RUNNING", "PAUSED"],
                 "enable": ["DISABLED"], "start": ["STOPPED"]}
    for m, tgt in (("stop", "STOPPED"), ("pause", "PAUSED"), ("resume", "RUNNING"), ("restart", "RESTARTING"), ("enable", "STOPPED"), ("start", "RUNNING")):
        f = find_method(svc, m)
        gi = [s for s in f.body if isinstance(s, ast.If) and u(s.test).startswith("self.operating_state")]
        src = None
        if len(gi) == 1 and isinstance(gi[0].test, ast.Compare) and f"self.operating_state = ServiceOperatingState.{tgt}" in u(gi[0]):
            t = gi[0].test
            if isinstance(t.ops[0], ast.In):
                src = _attr_names(t.comparators[0], "ServiceOperatingState")
            elif isinstance(t.ops[0], ast.Eq):
                src = [u(t.comparators[0]).split(".")[-1]]
        if src is None:
            soft(f"Service.{m}: guard shape not recognised")
            src = committed[m]
        guards.append((m, src, tgt))
    restart_duration = next(s.value.value for s in svc.body if isinstance(s, ast.AnnAssign) and u(s.target) == "restart_duration")
    sat2 = find_method(svc, "apply_timestep")
    ri = next((s for s in sat2.body if isinstance(s, ast.If)), None)
    if not (ri is not None and u(ri.test) == "self.operating_state == ServiceOperatingState.RESTARTING" and len(ri.body) >= 2
            and isinstance(ri.body[0], ast.If) and u(ri.body[0].test) == "self.restart_countdown <= 0" and isinstance(ri.body[1], ast.AugAssign)):
        soft("Service.apply_timestep: test-then-decrement not recognised")

    def strs(xs):
        return "[" + ", ".join(f'"{x}"' for x in xs) + "]"
    L = ["namespace Primaite.Gen.Database",
         "/-- `_process_connect` status codes, in the order the code decides them -/",
         f"def connectDefault : Nat := {pc['default']}",
         f"def connectNotRunning : Nat := {pc['not_running']}",
         f"def connectUnavailable : Nat := {pc['unavailable']}",
         f"def connectUnauthorised : Nat := {pc['unauth']}",
         f"def connectAddFailed : Nat := {pc['add_failed']}",
         f"def connectOk : Nat := {pc['ok']}",
         f"def connectHealthAccept : List String := {strs(pc['accept'])}",
         f"def connectPasswordOp : String := \"{pc['pw_op']}\"",
         f"def connectIdGeneratedBeforeAdd : Bool := {'true' if pc['gen_before'] else 'false'}",
         "/-- `receive`: the `_can_perform_action` guard is the first statement; sql is gated on membership in `connections` -/",
         f"def receiveGuardFirst : Bool := {'true' if GUARD_FIRST[0] else 'false'}",
         f"def receiveDefault : Nat := {rc['default']}",
         f"def sqlUnknownConnection : Nat := {rc['sql_unknown']}",
         "/-- `_process_sql` -/",
         f"def sqlMissingFile : Nat := {ps['missing']}",
         f"def sqlUnhealthy : Nat := {ps['unhealthy']}",
         f"def selectCorrupt : Nat := {ps['select_corrupt']}",
         f"def selectGood : Nat := {ps['select_good']}",
         f"def selectElse : Nat := {ps['select_else']}",
         f"def deleteStatus : Nat := {ps['delete']}",
         f"def deleteSets : String := \"{ps['delete_sets']}\"",
         f"def encryptStatus : Nat := {ps['encrypt']}",
         f"def encryptSets : String := \"{ps['encrypt_sets']}\"",
         f"def insertStatus : Nat := {ps['insert']}",
         f"def pgstatStatus : Nat := {ps['pgstat']}",
         f"def unknownQueryStatus : Nat := {ps['unknown']}",
         f"def sqlBranchOrder : List String := {strs(ps['order'])}",
         "/-- software.py -/",
         f"def capacityOp : String := \"{cap_op}\"",
         f"def fixAccepts : List String := {strs(fix_accepts)}",
         f"def fixingDurationDefault : Nat := {fixing_duration}",
         f"def maxSessionsDefault : Nat := {max_sessions}",
         f"def healthValues : List (String × Nat) := [{', '.join(f'(\"{k}\", {v})' for k, v in health.items())}]",
         "/-- service.py -/",
         f"def restartDurationDefault : Nat := {restart_duration}",
         f"def svcStateValues : List (String × Nat) := [{', '.join(f'(\"{k}\", {v})' for k, v in ostate.items())}]",
         f"def requestValidators : List (String × String) := [{', '.join(f'(\"{a}\", \"{b}\")' for a, b in validators)}]",
         f"def methodGuards : List (String × List String × String) := [{', '.join(f'(\"{m}\", {strs(src)}, \"{tgt}\")' for m, src, tgt in guards)}]",
         "/-- database_service.py: automatic backup / restore after fix -/",
         f"def backupAtTimestep : Nat := {backup_at}",
         "def restoreWhenFixCompletes : Bool := true",
         "end Primaite.Gen.Database", ""]
    return "\n".join(L)
