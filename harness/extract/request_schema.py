"""E4 — the schematic request tree, regenerated from the source (pure `ast`).

Reads every class under src/primaite/simulator, resolves `_init_request_manager` along the class hierarchy (C3
linearisation over the classes found by ast, following `rm = super()._init_request_manager()`), and every dynamic
`add_request` / `remove_request` site.  Result, per CLASS:

* the literal keys of its own manager and of each auxiliary manager it creates (`self._x = RequestManager()`), each with
  kind leaf / sub-manager (which manager) and the validator attached to the edge (a list of named atoms; [] = allow-all);
* the DYNAMIC levels: an auxiliary manager that receives keys at run time (node hostname, service name, application name,
  NIC number, folder name, file name), with the key's Python type and the classes a key of that level can lead to;
* the name literal under which every shipped Service / Application class registers itself (`kwargs["name"] = ...` /
  `self.name = ...` in `__init__`) and its `discriminator`.

Strict: any statement of an `_init_request_manager`, any `add_request` shape, any validator expression that is not
recognised raises `ValueError` (= broken tie).
"""
from __future__ import annotations

import ast
from collections import OrderedDict
from typing import Dict, List, Optional, Tuple

from harness.lib.core import SRC

GEN_NAME = "RequestSchema"

# validator classes -> atom name (state validators take the state member as argument)
VALIDATOR_ATOMS = {
    ("Node", "_NodeIsOnValidator"): "nodeIsOn",
    ("Node", "_NodeIsOffValidator"): "nodeIsOff",
    ("NetworkInterface", "_EnabledValidator"): "nicEnabled",
    ("NetworkInterface", "_DisabledValidator"): "nicDisabled",
    ("Service", "_StateValidator"): "serviceState",
    ("Application", "_StateValidator"): "appState",
    ("FileSystem", "_FolderExistsValidator"): "folderExists",
    ("FileSystem", "_FolderNotDeletedValidator"): "folderNotDeleted",
    ("FileSystem", "_FileExistsValidator"): "fsFileExists",
    ("Folder", "_FileExistsValidator"): "folderFileExists",
    ("Folder", "_FileNotDeletedValidator"): "fileNotDeleted",
    (None, "GroupMembershipValidator"): "groupMember",
}
STATE_ENUMS = {"serviceState": "ServiceOperatingState", "appState": "ApplicationOperatingState"}

# run-time component variable -> level kind (the variable whose `._request_manager` becomes the new edge's target)
DYN_VARS = {"node": "node", "application_instance": "application", "network_interface": "nic", "folder": "folder",
            "file": "file"}
# recognised key expressions at dynamic sites -> python type of the key
DYN_KEYS = {"node.config.hostname": "str", "software.name": "str", "application_name": "str", "new_nic_num": "int",
            "network_interface_num": "int", "folder.name": "str", "file.name": "str"}
# root class of every level kind (keys of that level lead to the root manager of a subclass of it)
LEVEL_ROOT = {"node": "Node", "service": "Service", "application": "Application", "nic": "NetworkInterface",
              "folder": "Folder", "file": "File"}
# slot kinds of action templates (E5) that restrict the node level to a sub-hierarchy
SLOT_ROOT = {"node": "Node", "router": "Router", "firewall": "Firewall", "service": "Service",
             "application": "Application", "nic": "NetworkInterface", "folder": "Folder", "file": "File"}
# template fields that select one of the literal keys of a static level
CHOICE_FIELDS = {"firewall_port_name": ("Firewall", "ports"), "firewall_port_direction": ("Firewall", "directions")}
# component kinds whose ROOT manager carries permission rules of its own (Model/Schema.lean `Root` / `gate`)
GATE_ROOTS = {"Node": "node", "NetworkInterface": "nic", "Service": "service", "Application": "application",
              "FileSystem": "fileSystem", "Folder": "folder", "DomainController": "domain"}
GATE_AUX = {"Node._os_request_manager": "nodeOs", "FileSystem._delete_manager": "fsDelete"}
SLOT_LEVEL = {"node": "node", "router": "node", "firewall": "node", "service": "service", "application": "application",
              "nic": "nic", "folder": "folder", "file": "file"}


class Cls:
    def __init__(self, name: str, node: ast.ClassDef, rel: str):
        self.name, self.node, self.rel = name, node, rel
        self.bases = [b.id if isinstance(b, ast.Name) else (b.attr if isinstance(b, ast.Attribute) else None) for b in node.bases]
        self.discriminator = None
        for kw in node.keywords:
            if kw.arg == "discriminator":
                if not (isinstance(kw.value, ast.Constant) and isinstance(kw.value.value, str)):
                    raise ValueError(f"{name}: discriminator is not a string literal")
                self.discriminator = kw.value.value

    def method(self, name: str) -> Optional[ast.FunctionDef]:
        for n in self.node.body:
            if isinstance(n, ast.FunctionDef) and n.name == name:
                return n
        return None

    def field_type(self, attr: str) -> Optional[str]:
        for n in self.node.body:
            if isinstance(n, ast.AnnAssign) and isinstance(n.target, ast.Name) and n.target.id == attr:
                return ast.unparse(n.annotation)
        return None


def load_classes() -> Dict[str, Cls]:
    out: Dict[str, Cls] = {}
    for f in sorted((SRC / "simulator").rglob("*.py")):
        rel = str(f.relative_to(SRC))
        tree = ast.parse(f.read_text())
        for n in tree.body:  # top-level classes only (validators are nested classes and are looked up separately)
            if isinstance(n, ast.ClassDef):
                if n.name in out:
                    # the tree ships two `WirelessAccessPoint` classes with identical bases; keep the first, they add no requests
                    if [ast.unparse(b) for b in n.bases] != [ast.unparse(b) for b in out[n.name].node.bases] \
                            or any(isinstance(m, ast.FunctionDef) and m.name == "_init_request_manager" for m in n.body):
                        raise ValueError(f"two different classes named {n.name} ({out[n.name].rel}, {rel})")
                    continue
                out[n.name] = Cls(n.name, n, rel)
    return out


def mro(classes: Dict[str, Cls], name: str, _memo: Dict[str, List[str]] = None) -> List[str]:
    """C3 linearisation restricted to the classes defined under simulator/ (BaseModel, ABC, ... are ignored)."""
    memo = _memo if _memo is not None else {}
    if name in memo:
        return memo[name]
    c = classes[name]
    parents = [b for b in c.bases if b in classes]
    seqs = [list(mro(classes, p, memo)) for p in parents] + [list(parents)]
    res = [name]
    while any(seqs):
        seqs = [s for s in seqs if s]
        for s in seqs:
            cand = s[0]
            if not any(cand in t[1:] for t in seqs):
                break
        else:
            raise ValueError(f"inconsistent hierarchy at {name}")
        res.append(cand)
        for s in seqs:
            if s and s[0] == cand:
                del s[0]
        seqs = [s for s in seqs if s]
    memo[name] = res
    return res


def is_subclass(classes, name: str, root: str) -> bool:
    return name in classes and root in mro(classes, name)


# ------------------------------------------------------------------------------------------- one _init_request_manager
class InitInfo:
    def __init__(self):
        self.calls_super = False
        self.aux: List[str] = []                      # attributes assigned `RequestManager()` here, in order
        self.ops: List[Tuple[str, str, tuple, list]] = []   # (manager 'rm'|attr, key, target, validator atoms)


def _kwargs(call: ast.Call, names: List[str]) -> Dict[str, ast.expr]:
    out = {}
    for i, a in enumerate(call.args):
        if i >= len(names):
            raise ValueError("too many positional arguments: " + ast.unparse(call)[:120])
        out[names[i]] = a
    for k in call.keywords:
        if k.arg not in names:
            raise ValueError(f"unexpected keyword {k.arg}: " + ast.unparse(call)[:120])
        out[k.arg] = k.value
    return out


def _validator_atoms(e: Optional[ast.expr], local_vals: Dict[str, list]) -> list:
    if e is None:
        return []
    if isinstance(e, ast.BinOp) and isinstance(e.op, ast.Add):
        return _validator_atoms(e.left, local_vals) + _validator_atoms(e.right, local_vals)
    src = ast.unparse(e)
    if src in local_vals:
        return list(local_vals[src])
    if isinstance(e, ast.Call):
        return [_validator_ctor(e)]
    raise ValueError("unrecognised validator expression: " + src[:160])


_CLASSES: Dict[str, "Cls"] = {}   # set by build(); lets a validator named through a subclass be traced to its defining class


def _defining_class(owner: str, nested: str) -> str:
    """`Router._NodeIsOnValidator` is `Node._NodeIsOnValidator`: the nearest class along the MRO that defines the nested class"""
    if owner not in _CLASSES:
        return owner
    for k in mro(_CLASSES, owner):
        if any(isinstance(n, ast.ClassDef) and n.name == nested for n in _CLASSES[k].node.body):
            return k
    return owner


def _validator_ctor(call: ast.Call) -> tuple:
    f = call.func
    if isinstance(f, ast.Attribute) and isinstance(f.value, ast.Name):
        key = (_defining_class(f.value.id, f.attr), f.attr)
    elif isinstance(f, ast.Name):
        key = (None, f.id)
    else:
        raise ValueError("unrecognised validator constructor: " + ast.unparse(call)[:160])
    if key not in VALIDATOR_ATOMS:
        raise ValueError("unknown validator class: " + ast.unparse(call)[:160])
    atom = VALIDATOR_ATOMS[key]
    if atom in STATE_ENUMS:
        st = {k.arg: k.value for k in call.keywords}.get("state")
        if not (isinstance(st, ast.Attribute) and isinstance(st.value, ast.Name) and st.value.id == STATE_ENUMS[atom]):
            raise ValueError("state validator without a literal state member: " + ast.unparse(call)[:160])
        return (atom, st.attr)
    return (atom,)


def parse_init(cls: Cls, fn: ast.FunctionDef) -> InitInfo:
    info = InitInfo()
    local_vals: Dict[str, list] = {}   # source text of a local/attribute holding a validator -> atoms
    local_defs: set = set()
    seen_add = False
    body = list(fn.body)
    for st in body:
        src = ast.unparse(st)
        if isinstance(st, ast.Expr) and isinstance(st.value, ast.Constant):
            continue  # docstring
        if isinstance(st, ast.FunctionDef):
            local_defs.add(st.name)
            continue
        if isinstance(st, ast.Return):
            if src == "return rm":
                continue
            if src == "return RequestManager()" and not info.ops and not info.calls_super:
                continue  # SimComponent: the empty base manager
            raise ValueError(f"{cls.name}._init_request_manager: unrecognised return: {src[:120]}")
        if isinstance(st, ast.Assign) and len(st.targets) == 1:
            tgt = ast.unparse(st.targets[0])
            val = st.value
            if tgt == "rm" and ast.unparse(val) == "super()._init_request_manager()":
                if seen_add:
                    raise ValueError(f"{cls.name}: super()._init_request_manager() after add_request")
                info.calls_super = True
                continue
            if ast.unparse(val) == "RequestManager()" and tgt.startswith("self.") and tgt.count(".") == 1:
                info.aux.append(tgt[5:])
                continue
            if isinstance(val, ast.Call) and (tgt.startswith("_") or tgt.startswith("self._")):
                local_vals[tgt] = [_validator_ctor(val)]
                continue
            raise ValueError(f"{cls.name}._init_request_manager: unrecognised assignment: {src[:160]}")
        call = None
        if isinstance(st, ast.Expr):
            v = st.value
            if isinstance(v, ast.Tuple) and len(v.elts) == 1:   # `rm.add_request(...),` (trailing comma in ftp_client)
                v = v.elts[0]
            if isinstance(v, ast.Call) and isinstance(v.func, ast.Attribute) and v.func.attr == "add_request":
                call = v
        if call is None:
            raise ValueError(f"{cls.name}._init_request_manager: unrecognised statement: {src[:160]}")
        seen_add = True
        mgr = ast.unparse(call.func.value)
        if mgr == "rm":
            if not info.calls_super:
                raise ValueError(f"{cls.name}: rm used before super()._init_request_manager()")
            mname = "rm"
        elif mgr.startswith("self.") and mgr[5:] in info.aux:
            mname = mgr[5:]
        else:
            raise ValueError(f"{cls.name}: add_request on a manager not created in this method: {mgr}")
        a = _kwargs(call, ["name", "request_type"])
        if set(a) != {"name", "request_type"}:
            raise ValueError(f"{cls.name}: add_request without name/request_type: {src[:160]}")
        if not (isinstance(a["name"], ast.Constant) and isinstance(a["name"].value, str)):
            raise ValueError(f"{cls.name}: non-literal key inside _init_request_manager: {src[:160]}")
        rt = a["request_type"]
        if not (isinstance(rt, ast.Call) and ast.unparse(rt.func) == "RequestType"):
            raise ValueError(f"{cls.name}: request_type is not RequestType(...): {src[:160]}")
        r = _kwargs(rt, ["func", "validator"])
        if "func" not in r:
            raise ValueError(f"{cls.name}: RequestType without func: {src[:160]}")
        func = r["func"]
        fsrc = ast.unparse(func)
        if isinstance(func, ast.Lambda):
            target = ("leaf",)
        elif isinstance(func, ast.Name) and func.id in local_defs:
            target = ("leaf",)
        elif fsrc.startswith("self.") and fsrc[5:] in info.aux:
            target = ("aux", fsrc[5:])
        elif fsrc.startswith("self.") and fsrc.endswith("._request_manager") and fsrc.count(".") == 2:
            target = ("comp", fsrc.split(".")[1])
        else:
            raise ValueError(f"{cls.name}: unclassifiable func in add_request: {fsrc[:160]}")
        info.ops.append((mname, a["name"].value, target, _validator_atoms(r.get("validator"), local_vals)))
    return info


# ------------------------------------------------------------------------------------------- dynamic sites
def dynamic_sites(classes: Dict[str, Cls], inits: Dict[str, InitInfo]):
    """Every add_request / remove_request call that is NOT a top-level statement of an `_init_request_manager`."""
    static_calls = set()
    for cname, c in classes.items():
        fn = c.method("_init_request_manager")
        if fn is None:
            continue
        for st in fn.body:
            if isinstance(st, ast.Expr):
                v = st.value
                if isinstance(v, ast.Tuple) and len(v.elts) == 1:
                    v = v.elts[0]
                if isinstance(v, ast.Call):
                    static_calls.add(id(v))
    aux_owner: Dict[str, List[str]] = {}
    for cname, info in inits.items():
        for a in info.aux:
            aux_owner.setdefault(a, []).append(cname)
    sites = []
    for cname, c in classes.items():
        if cname == "RequestManager":
            continue
        for fn in [n for n in ast.walk(c.node) if isinstance(n, ast.FunctionDef)]:
            for call in [n for n in ast.walk(fn) if isinstance(n, ast.Call) and isinstance(n.func, ast.Attribute)
                         and n.func.attr in ("add_request", "remove_request")]:
                if id(call) in static_calls:
                    continue
                if getattr(call, "_seen", False):
                    continue
                call._seen = True  # nested defs are walked twice (as part of the outer function as well)
                mgr = ast.unparse(call.func.value)
                if mgr.startswith("self.node."):
                    owner_hint, attr = "Node", mgr[len("self.node."):]
                elif mgr.startswith("self.") and mgr.count(".") == 1:
                    owner_hint, attr = cname, mgr[5:]
                else:
                    raise ValueError(f"{cname}.{fn.name}: dynamic {call.func.attr} on unrecognised manager {mgr}")
                owners = [o for o in aux_owner.get(attr, []) if o == owner_hint or is_subclass(classes, owner_hint, o)]
                if len(owners) != 1:
                    raise ValueError(f"{cname}.{fn.name}: cannot resolve the owner of manager {mgr} (candidates {owners})")
                owner = owners[0]
                if call.func.attr == "remove_request":
                    a = _kwargs(call, ["name"])
                    ksrc = ast.unparse(a["name"])
                    if ksrc not in DYN_KEYS:
                        raise ValueError(f"{cname}.{fn.name}: unrecognised key in remove_request: {ksrc}")
                    sites.append({"op": "remove", "owner": owner, "attr": attr, "key": ksrc, "keyty": DYN_KEYS[ksrc],
                                  "site": f"{cname}.{fn.name}"})
                    continue
                a = _kwargs(call, ["name", "request_type"])
                ksrc = ast.unparse(a["name"])
                if ksrc not in DYN_KEYS:
                    raise ValueError(f"{cname}.{fn.name}: unrecognised dynamic key expression: {ksrc}")
                rt = a["request_type"]
                if not (isinstance(rt, ast.Call) and ast.unparse(rt.func) == "RequestType"):
                    raise ValueError(f"{cname}.{fn.name}: request_type is not RequestType(...)")
                r = _kwargs(rt, ["func", "validator"])
                fsrc = ast.unparse(r["func"])
                if not (fsrc.endswith("._request_manager") and fsrc.count(".") == 1):
                    raise ValueError(f"{cname}.{fn.name}: dynamic edge does not lead to a component's manager: {fsrc}")
                var = fsrc.split(".")[0]
                if var == "software":
                    kind = {"_application_request_manager": "application", "_service_request_manager": "service"}.get(attr)
                    if kind is None:
                        raise ValueError(f"{cname}.{fn.name}: software added to unexpected manager {attr}")
                    # the enclosing branch must be the matching isinstance test
                    guard = _enclosing_isinstance(fn, call)
                    if guard != {"application": "Application", "service": "Service"}[kind]:
                        raise ValueError(f"{cname}.{fn.name}: software edge not under isinstance(software, {kind}) (found {guard})")
                elif var in DYN_VARS:
                    kind = DYN_VARS[var]
                else:
                    raise ValueError(f"{cname}.{fn.name}: unknown component variable {var}")
                vatoms = _validator_atoms(r.get("validator"), {})
                sites.append({"op": "add", "owner": owner, "attr": attr, "key": ksrc, "keyty": DYN_KEYS[ksrc], "kind": kind,
                              "validator": vatoms, "site": f"{cname}.{fn.name}"})
    return sites


def _enclosing_isinstance(fn: ast.FunctionDef, call: ast.Call) -> Optional[str]:
    for n in ast.walk(fn):
        if isinstance(n, ast.If) and any(call is x for b in n.body for x in ast.walk(b)):
            t = n.test
            if isinstance(t, ast.Call) and ast.unparse(t.func) == "isinstance" and ast.unparse(t.args[0]) == "software":
                return ast.unparse(t.args[1])
    return None


# ------------------------------------------------------------------------------------------- software names
def software_name(classes: Dict[str, Cls], name: str) -> Optional[str]:
    """The name under which instances of the class register: last `kwargs["name"] = lit` / `self.name = lit` in the
    nearest `__init__` along the MRO that sets one."""
    for cname in mro(classes, name):
        fn = classes[cname].method("__init__")
        if fn is None:
            continue
        found = None
        for st in ast.walk(fn):
            if isinstance(st, ast.Assign) and len(st.targets) == 1 and ast.unparse(st.targets[0]) in ("kwargs['name']", "self.name"):
                if not (isinstance(st.value, ast.Constant) and isinstance(st.value.value, str)):
                    raise ValueError(f"{cname}.__init__: software name is not a literal")
                found = st.value.value
        if found is not None:
            return found
    return None


# ------------------------------------------------------------------------------------------- validator predicates (E6, light)
def validator_sources(classes: Dict[str, Cls]) -> List[Tuple[str, str]]:
    out = []
    seen = set()
    for (owner, vname), atom in VALIDATOR_ATOMS.items():
        node = None
        if owner is None:
            node = classes[vname].node if vname in classes else None
        elif owner in classes:
            for n in classes[owner].node.body:
                if isinstance(n, ast.ClassDef) and n.name == vname:
                    node = n
        if node is None:
            raise ValueError(f"validator class {owner}.{vname} not found")
        if not any(ast.unparse(b).endswith("RequestPermissionValidator") for b in node.bases):
            raise ValueError(f"{owner}.{vname} is not a RequestPermissionValidator")
        call = next((m for m in node.body if isinstance(m, ast.FunctionDef) and m.name == "__call__"), None)
        if call is None:
            raise ValueError(f"{owner}.{vname} has no __call__")
        body = [s for s in call.body if not (isinstance(s, ast.Expr) and isinstance(s.value, ast.Constant))]
        out.append((atom, "; ".join(" ".join(ast.unparse(s).split()) for s in body)))
        seen.add(atom)
    # every validator class in the tree must be one we name (a new validator class = unrecognised shape)
    for c in classes.values():
        for n in ast.walk(c.node):
            if isinstance(n, ast.ClassDef) and any(ast.unparse(b).endswith("RequestPermissionValidator") for b in n.bases):
                if n.name in ("_CombinedValidator", "AllowAllValidator"):
                    continue
                if not any(v == n.name for (_, v) in VALIDATOR_ATOMS):
                    raise ValueError(f"validator class {n.name} is not in the extractor's table")
    return out


# ------------------------------------------------------------------------------------------- assemble
def build():
    classes = load_classes()
    _CLASSES.clear()
    _CLASSES.update(classes)
    inits: Dict[str, InitInfo] = {}
    for cname, c in classes.items():
        fn = c.method("_init_request_manager")
        if fn is not None and cname != "RequestManager":
            inits[cname] = parse_init(c, fn)
    if "SimComponent" not in inits:
        raise ValueError("SimComponent._init_request_manager not found")
    comps = [c for c in classes if is_subclass(classes, c, "SimComponent")]
    # resolved managers
    mgrs: "OrderedDict[str, dict]" = OrderedDict()

    def comp_class(cname: str, attr: str) -> str:
        for k in mro(classes, cname):
            t = classes[k].field_type(attr)
            if t is not None:
                t = t.strip("'\"")
                for wrap in ("Optional[", "ClassVar["):
                    if t.startswith(wrap) and t.endswith("]"):
                        t = t[len(wrap):-1]
                if t in classes and is_subclass(classes, t, "SimComponent"):
                    return t
                raise ValueError(f"{cname}.{attr}: annotated type {t} is not a SimComponent class")
        for k in mro(classes, cname):   # no annotation: accept `kwargs["attr"] = Cls()` in __init__ (Simulation.domain)
            fn = classes[k].method("__init__")
            for st in (ast.walk(fn) if fn else ()):
                if isinstance(st, ast.Assign) and ast.unparse(st.targets[0]) == f"kwargs['{attr}']" \
                        and isinstance(st.value, ast.Call) and isinstance(st.value.func, ast.Name) and not st.value.args \
                        and not st.value.keywords and is_subclass(classes, st.value.func.id, "SimComponent"):
                    return st.value.func.id
        raise ValueError(f"{cname}.{attr}: no annotated field; cannot tell whose manager it is")

    for cname in comps:
        chain = [k for k in reversed(mro(classes, cname)) if k in inits]
        # every class in the chain above the base must call super (otherwise earlier edges are dropped)
        edges: "OrderedDict[str, tuple]" = OrderedDict()
        for k in chain:
            info = inits[k]
            if not info.calls_super and k != "SimComponent":
                raise ValueError(f"{k}._init_request_manager does not start from super()._init_request_manager()")
            for (m, key, target, vat) in info.ops:
                if m != "rm":
                    continue
                edges[key] = (_resolve_target(k, target, cname, comp_class), vat)
        mgrs[cname] = {"kind": "static", "edges": edges}
    for cname, info in inits.items():
        for a in info.aux:
            edges = OrderedDict()
            for (m, key, target, vat) in info.ops:
                if m == a:
                    edges[key] = (_resolve_target(cname, target, cname, comp_class), vat)
            mgrs[f"{cname}.{a}"] = {"kind": "static", "edges": edges}
    # dynamic levels
    sites = dynamic_sites(classes, inits)
    by_mgr: Dict[str, list] = {}
    for s in sites:
        by_mgr.setdefault(f"{s['owner']}.{s['attr']}", []).append(s)
    for mname, ss in by_mgr.items():
        adds = [s for s in ss if s["op"] == "add"]
        if not adds:
            raise ValueError(f"{mname}: keys are removed but never added")
        kinds = {s["kind"] for s in adds}
        tys = {s["keyty"] for s in ss}
        vals = {tuple(map(tuple, s["validator"])) for s in adds}
        if len(kinds) != 1 or len(tys) != 1 or len(vals) != 1:
            raise ValueError(f"{mname}: dynamic sites disagree: kinds {kinds}, key types {tys}, validators {vals}")
        if mgrs[mname]["edges"]:
            raise ValueError(f"{mname}: manager mixes literal and dynamic keys")
        mgrs[mname] = {"kind": "dynamic", "level": kinds.pop(), "keyty": tys.pop(), "validator": [list(v) for v in vals.pop()],
                       "sites": sorted({s["site"] + ":" + s["op"] for s in ss})}
    names = []
    for c in comps:
        if is_subclass(classes, c, "Service") or is_subclass(classes, c, "Application"):
            names.append((c, software_name(classes, c), classes[c].discriminator))
    named = {c for c, n, _ in names if n is not None}

    def instantiable(c: str, root: str) -> bool:
        """classes that can actually occur as a component: software needs a name to register under (the abstract bases
        Service / Application / FTPServiceABC / AbstractC2 have none), a node class needs a discriminator (registered)"""
        if root in ("Service", "Application"):
            return c in named
        if root in ("Node", "Router", "Firewall"):
            return classes[c].discriminator is not None
        return True
    level_classes = {lv: [c for c in comps if is_subclass(classes, c, root) and instantiable(c, root)] for lv, root in LEVEL_ROOT.items()}
    slot_classes = {sk: [c for c in comps if is_subclass(classes, c, root) and instantiable(c, root)] for sk, root in SLOT_ROOT.items()}
    # literal choices (firewall port / direction): the keys Firewall's OWN _init_request_manager adds to its root manager that
    # lead to auxiliary managers, and the keys of those managers (which must agree)
    choices = {}
    for field, (cname, what) in CHOICE_FIELDS.items():
        info = inits.get(cname)
        if info is None:
            raise ValueError(f"{cname} has no _init_request_manager (needed for the choices of {field})")
        ports = [(key, target[1]) for (m, key, target, _) in info.ops if m == "rm" and target[0] == "aux"]
        if not ports:
            raise ValueError(f"{cname}: no literal port keys found")
        if what == "ports":
            choices[field] = [k for k, _ in ports]
        else:
            dirs = [[key for (m, key, _, _) in info.ops if m == aux] for _, aux in ports]
            if any(d != dirs[0] for d in dirs) or not dirs[0]:
                raise ValueError(f"{cname}: the port managers do not share one set of direction keys: {dirs}")
            choices[field] = dirs[0]
    root_of = [(c, GATE_ROOTS[r]) for c in comps for r in GATE_ROOTS if is_subclass(classes, c, r)]
    for aux, kind in GATE_AUX.items():   # auxiliary managers that carry rules of their own
        if aux not in mgrs:
            raise ValueError(f"auxiliary manager {aux} (gate kind {kind}) not found")
        root_of.append((aux, kind))
    return {"classes": classes, "root_of": root_of, "choices": choices, "mgrs": mgrs, "level_classes": level_classes, "slot_classes": slot_classes, "names": names,
            "sites": sites, "validators": validator_sources(classes),
            "discriminators": {c: classes[c].discriminator for c in comps if classes[c].discriminator}}


def _resolve_target(defining: str, target: tuple, concrete: str, comp_class) -> tuple:
    if target[0] == "leaf":
        return ("leaf",)
    if target[0] == "aux":
        return ("sub", f"{defining}.{target[1]}")
    return ("sub", comp_class(concrete, target[1]))


# ------------------------------------------------------------------------------------------- Lean
def lstr(s: str) -> str:
    return '"' + s.replace("\\", "\\\\").replace('"', '\\"') + '"'


def latom(a: tuple) -> str:
    return f".{a[0]}" if len(a) == 1 else f"(.{a[0]} {lstr(a[1])})"


def lvalidator(v: list) -> str:
    return "[" + ", ".join(latom(tuple(a)) for a in v) + "]"


def emit() -> str:
    d = build()
    L = ["import PrimaiteModel.Model.Schema", "namespace Primaite.Gen.RequestSchema", "open Primaite.Schema", ""]
    L.append("/-- every manager of the schematic request tree: the root manager of each SimComponent class (named by the class) and")
    L.append("each auxiliary manager (`Class.attribute`), resolved along the class hierarchy -/")
    L.append("def mgrs : List (String × Mgr) := [")
    rows = []
    for name, m in d["mgrs"].items():
        if m["kind"] == "static":
            es = []
            for key, (target, vat) in m["edges"].items():
                t = ".leaf" if target[0] == "leaf" else f"(.sub {lstr(target[1])})"
                es.append(f"({lstr(key)}, {lvalidator(vat)}, {t})")
            rows.append(f"  ({lstr(name)}, .static [" + ",\n      ".join(es) + "])")
        else:
            rows.append(f"  ({lstr(name)}, .dynamic .{m['level']} .{m['keyty']} {lvalidator(m['validator'])})")
    L.append(",\n".join(rows) + "]")
    L.append("")
    L.append("/-- classes whose root manager a key of a dynamic level can lead to -/")
    L.append("def levelClasses : Level → List String")
    for lv, cs in d["level_classes"].items():
        L.append(f"  | .{lv} => [" + ", ".join(lstr(c) for c in cs) + "]")
    L.append("")
    L.append("/-- classes a template slot of the given kind can denote (router / firewall slots = that sub-hierarchy of Node) -/")
    L.append("def slotClasses : SlotKind → List String")
    for sk, cs in d["slot_classes"].items():
        L.append(f"  | .{sk} => [" + ", ".join(lstr(c) for c in cs) + "]")
    L.append("")
    L.append("/-- (class, name under which its instances register as a request key) for every Service / Application class -/")
    L.append("def softwareNames : List (String × String) := [")
    L.append(",\n".join(f"  ({lstr(c)}, {lstr(n)})" for c, n, _ in d["names"] if n is not None) + "]")
    L.append("")
    L.append("/-- (class, discriminator) of every Service / Application class that declares one -/")
    L.append("def softwareDiscriminators : List (String × String) := [")
    L.append(",\n".join(f"  ({lstr(c)}, {lstr(disc)})" for c, _, disc in d["names"] if disc is not None) + "]")
    L.append("")
    L.append("/-- body of `__call__` of every named validator class (E6, text) -/")
    L.append("def validatorBodies : List (String × String) := [")
    L.append(",\n".join(f"  ({lstr(a)}, {lstr(src)})" for a, src in d["validators"]) + "]")
    L.append("")
    L.append("/-- template fields that select one of the literal keys of a static level, with those keys -/")
    L.append("def choices : List (String × List String) := [")
    L.append(",\n".join(f"  ({lstr(f)}, [" + ", ".join(lstr(k) for k in ks) + "])" for f, ks in d["choices"].items()) + "]")
    L.append("")
    L.append("/-- (class, component kind) for every class that derives from Node / NetworkInterface / Service / Application /")
    L.append("FileSystem / Folder: the root manager of the class must carry that kind's component gates (`Schema.gate`) -/")
    L.append("def rootOf : List (String × Root) := [")
    L.append(",\n".join(f"  ({lstr(c)}, .{r})" for c, r in d["root_of"]) + "]")
    L.append("")
    adds = sorted({(f"{s_['owner']}.{s_['attr']}", s_["kind"]) for s_ in d["sites"] if s_["op"] == "add"})
    rems = sorted({f"{s_['owner']}.{s_['attr']}" for s_ in d["sites"] if s_["op"] == "remove"})
    L.append("/-- (dynamic manager, level) for every `add_request` site outside `_init_request_manager` -/")
    L.append("def dynAdds : List (String × Level) := [" + ", ".join(f"({lstr(m)}, .{lv})" for m, lv in adds) + "]")
    L.append("/-- dynamic managers that also have a `remove_request` site -/")
    L.append("def dynRemoves : List String := [" + ", ".join(lstr(m) for m in rems) + "]")
    L.append("")
    L.append("def schema : Schema :=\n  { mgrs := mgrs, levelClasses := levelClasses, slotClasses := slotClasses, names := softwareNames, choices := choices }")
    L.append("")
    L.append("end Primaite.Gen.RequestSchema")
    return "\n".join(L) + "\n"


def as_python():
    """The same tables as plain data, for the rig (harness/rigs/request_schema.py)."""
    d = build()
    return {
        "mgrs": {k: ({"kind": "static", "edges": {key: {"target": t, "validator": v} for key, (t, v) in m["edges"].items()}}
                     if m["kind"] == "static" else m) for k, m in d["mgrs"].items()},
        "level_classes": d["level_classes"], "slot_classes": d["slot_classes"], "choices": d["choices"],
        "names": {c: n for c, n, _ in d["names"]}, "discriminators": d["discriminators"], "sites": d["sites"],
        "mro": {c: mro(d["classes"], c) for c in d["classes"]},
    }


if __name__ == "__main__":
    print(emit())
