"""C17, round 7 second shift - the SENDING halves of the database client, translated statement by statement
(database_tick_tr.py / database_client_tr.py style; pure ast, never imports primaite):

    DatabaseClient._connect      (the path `is_reattempt=False`)  -> `connectSend`
    DatabaseClient._query        (the `else:` of `if is_reattempt:`) -> `querySend`
    DatabaseClient._disconnect   (what follows the three guards)   -> `disconnectSend`

into Gen/DatabaseClientSendTr.lean, over the vocabulary the SERVER's translated dispatcher reads (`Raw`, Model/Database.lean):
what each method hands to `send_payload_to_session_manager` - the payload KEY BY KEY, the destination address and port - and what it
does afterwards, in the order of the source (`Step`).  Props/C17ClientSend.lean proves: the payload built by the client is exactly
`Payload.raw` of the model's payload (so `C17_tr_receive` applies to what the CLIENT sends, not to what the model assumes it sends),
it goes to the configured server address on the client's own port, `_connect` / `_query` re-attempt with the SAME ids, and
`_disconnect` sends BEFORE it pops / terminates / deactivates.

Before: these halves were shape-checked by `database_client_tr.py` (`tr_connect` / `tr_query` compare the dict literal with a pinned
one and raise).  Strict: an unrecognised statement raises Unsupported; that method gets a stub that makes its theorem fail.
"""
import ast
from typing import Dict, List

from harness.extract.util import class_def, find_method, parse
from harness.extract.database_client_tr import strip, u, Unsupported, SRC

GEN_NAME = "DatabaseClientSendTr"
PTYPES = {"connect_request": "connectRequest", "disconnect": "disconnect", "sql": "sql"}
FAILED: Dict[str, str] = {}

# locals that only rename an object of the environment
ALIAS = {"software_manager": "self.software_manager"}


def _payload(d: ast.Dict, idty: str) -> str:
    """A dict literal -> a `Raw` record, key by key.  A key the server's dispatcher never reads has no field in `Raw` and is listed."""
    fields, unread = [], []
    for k, v in zip(d.keys, d.values):
        if not (isinstance(k, ast.Constant) and isinstance(k.value, str)):
            raise Unsupported(f"payload key {u(k)}")
        key, val = k.value, u(v)
        if key == "type":
            if not (isinstance(v, ast.Constant) and isinstance(v.value, str)):
                raise Unsupported(f"payload type {val}")
            fields.append(f"type := some PType.{PTYPES.get(v.value, 'other')}")
        elif key == "password":
            if val != "password":
                raise Unsupported(f"payload password = {val}")
            fields.append("password := password")
        elif key == "sql":
            if val != "sql":
                raise Unsupported(f"payload sql = {val}")
            fields.append("sql := some sql")
        elif key == "uuid":
            if val != "query_id":
                raise Unsupported(f"payload uuid = {val}")
            fields.append("uuid := true")
        elif key == "connection_id":
            if val != "connection_id":
                raise Unsupported(f"payload connection_id = {val}")
            fields.append("connId := some connection_id" if idty == "opt" else "connId := some (some connection_id)")
        elif key == "connection_request_id":
            if val != "connection_request_id":
                raise Unsupported(f"payload connection_request_id = {val}")
            unread.append(key)     # echoed back by the server; no dispatcher branch reads it
        else:
            # a key the dispatcher does not know: the record cannot express it -> refuse (a renamed key lands here)
            raise Unsupported(f"payload key {key!r} is not one the dispatcher reads")
    return "{ " + ", ".join(fields) + " }"


def _send(call: ast.Call, env: Dict[str, str], idty: str) -> str:
    f = u(call.func)
    head = f.split(".send_payload_to_session_manager")[0]
    if not f.endswith(".send_payload_to_session_manager") or ALIAS.get(head, head) != "self.software_manager" or call.args:
        raise Unsupported(f"send call {u(call)[:80]}")
    kw = {k.arg: k.value for k in call.keywords}
    if set(kw) != {"payload", "dest_ip_address", "dest_port"}:
        raise Unsupported(f"send keywords {sorted(kw)}")
    pay = kw["payload"]
    if isinstance(pay, ast.Name) and pay.id in env:
        ptxt = env[pay.id]
    elif isinstance(pay, ast.Dict):
        ptxt = _payload(pay, idty)
    else:
        raise Unsupported(f"send payload {u(pay)}")
    dest = u(kw["dest_ip_address"])
    # `_connect` is given the address by its caller (get_new_connection passes self.server_ip_address: translated in DatabaseClientTr)
    to_server = "true" if dest in ("self.server_ip_address", "server_ip_address") else "false"
    port = "true" if u(kw["dest_port"]) == "self.port" else "false"
    return f"{{ payload := {ptxt}, toServer := {to_server}, ownPort := {port} }}"


def _steps(body: List[ast.stmt], me: str, same: Dict[str, str], idty: str) -> List[str]:
    """statements -> `Step`s, in order"""
    out: List[str] = []
    env: Dict[str, str] = {}
    for st in strip(body):
        if isinstance(st, ast.Assign) and len(st.targets) == 1:
            tgt, val = u(st.targets[0]), u(st.value)
            if tgt == "payload" and isinstance(st.value, ast.Dict):
                env["payload"] = _payload(st.value, idty)
                continue
            if ALIAS.get(tgt) == val:
                continue
            if tgt == "connection" and val == "self.client_connections.pop(connection_id)":
                out.append("Step.pop")
                continue
            if tgt == "connection.is_active" and val == "False":
                out.append("Step.deactivate")
                continue
            if tgt == "self.connected" and val == "False":
                continue       # a flag nothing of the modelled behaviour reads
            raise Unsupported(f"{me}: assignment {u(st)[:90]}")
        if isinstance(st, ast.AnnAssign) and ALIAS.get(u(st.target)) == u(st.value):
            continue
        if isinstance(st, ast.Expr) and isinstance(st.value, ast.Call):
            f = u(st.value.func)
            if f.endswith(".send_payload_to_session_manager"):
                out.append(f"Step.send {_send(st.value, env, idty)}")
                continue
            if f == "self.terminate_connection" and {k.arg: u(k.value) for k in st.value.keywords} == {"connection_id": "connection_id"}:
                out.append("Step.terminate")
                continue
            raise Unsupported(f"{me}: call {u(st)[:90]}")
        if isinstance(st, ast.Return):
            v = st.value
            if isinstance(v, ast.Call) and u(v.func) == f"self.{me}":
                kws = {k.arg: u(k.value) for k in v.keywords}
                if v.args or kws.get("is_reattempt") != "True":
                    raise Unsupported(f"{me}: re-attempt call {u(v)}")
                kws.pop("is_reattempt")
                # every other argument must be handed on unchanged (same request id / query id / connection id / sql / password)
                out.append("Step.reattempt " + ("true" if kws == same else "false"))
                return out
            if isinstance(v, ast.Constant) and isinstance(v.value, bool):
                out.append(f"Step.ret {'true' if v.value else 'false'}")
                return out
            raise Unsupported(f"{me}: {u(st)}")
        raise Unsupported(f"{me}: statement {u(st)[:90]}")
    raise Unsupported(f"{me}: falls off the end")


def _connect(cls) -> str:
    body = strip(find_method(cls, "_connect").body)
    if not (isinstance(body[0], ast.If) and u(body[0].test) == "is_reattempt" and not body[0].orelse
            and all(isinstance(x, ast.Return) for x in _leaves(body[0].body))):
        raise Unsupported("_connect: does not start with an `if is_reattempt:` every path of which returns")
    same = {"server_ip_address": "server_ip_address", "password": "password", "connection_request_id": "connection_request_id"}
    return "[" + ", ".join(_steps(body[1:], "_connect", same, "opt")) + "]"


def _leaves(body: List[ast.stmt]) -> List[ast.stmt]:
    """last statement of every path through `body`"""
    body = strip(body)
    if not body:
        return [ast.Pass()]
    last = body[-1]
    if isinstance(last, ast.If):
        return _leaves(last.body) + _leaves(last.orelse)
    return [last]


def _query(cls) -> str:
    body = strip(find_method(cls, "_query").body)
    main = next((s for s in body if isinstance(s, ast.If) and u(s.test) == "is_reattempt"), None)
    if main is None or body[-1] is not main:
        raise Unsupported("_query: `if is_reattempt: … else: …` is not the last statement")
    same = {"sql": "sql", "query_id": "query_id", "connection_id": "connection_id"}
    return "[" + ", ".join(_steps(main.orelse, "_query", same, "opt")) + "]"


def _disconnect(cls) -> str:
    body = strip(find_method(cls, "_disconnect").body)
    # the guards (translated by database_client_tr.py as `disconnectSends`): leading `if …: return False`
    k = 0
    while k < len(body) and isinstance(body[k], ast.If) and not body[k].orelse and [u(x) for x in strip(body[k].body)] == ["return False"]:
        k += 1
    return "[" + ", ".join(_steps(body[k:], "_disconnect", {}, "id")) + "]"


HEAD = """import PrimaiteModel.Model.Database
namespace Primaite.Gen.DatabaseClientSendTr
open Primaite.Database

/-- what `send_payload_to_session_manager` is given: the payload as the server's dispatcher will read it, whether the destination is
the configured server address, whether the destination port is the client's own port -/
structure Sent where
  payload : Raw
  toServer : Bool
  ownPort : Bool
deriving DecidableEq, Repr

/-- one statement of a sending half, as far as the modelled state sees it -/
inductive Step
  | send (s : Sent)          -- software_manager.send_payload_to_session_manager(...)
  | reattempt (same : Bool)  -- `return self.<method>(..., is_reattempt=True)`; `same`: every other argument handed on unchanged
  | pop                      -- `connection = self.client_connections.pop(connection_id)`
  | terminate                -- `self.terminate_connection(connection_id=connection_id)`
  | deactivate               -- `connection.is_active = False`
  | ret (v : Bool)
deriving DecidableEq, Repr
"""

FUNCS = [
    ("connectSend", "`DatabaseClient._connect(…, is_reattempt=False)` after the re-attempt block", "(password : Option Nat) : List Step", _connect),
    ("querySend", "`DatabaseClient._query(…, is_reattempt=False)`: the `else:` branch", "(sql : Sql) (connection_id : Option Nat) : List Step", _query),
    ("disconnectSend", "`DatabaseClient._disconnect` after its guards", "(connection_id : Nat) : List Step", _disconnect),
]


def emit() -> str:
    FAILED.clear()
    cls = class_def(parse(SRC), "DatabaseClient")
    out = [HEAD]
    for name, doc, sig, fn in FUNCS:
        try:
            txt = "  " + fn(cls)
        except Exception as e:  # noqa: BLE001
            FAILED[name] = f"{type(e).__name__}: {e}"
            txt = f"  []   -- NOT TRANSLATED ({type(e).__name__})"
        out += [f"/-- {doc}, translated statement by statement -/", f"def {name} {sig} :=", txt, ""]
    out += ["end Primaite.Gen.DatabaseClientSendTr", ""]
    return "\n".join(out)
