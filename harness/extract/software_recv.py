"""C13, receive path: TRANSLATION of the software manager's port / delivery functions into Lean definitions, plus the
normalised statement lists of the class methods the payload model follows (Gen/SoftwareRecv.lean).

Translated (statement by statement, strict: any statement or expression outside the small language below raises):

  SoftwareManager.get_open_ports                       -> getOpenPorts      (accumulator loop  -> flatMap)
  SoftwareManager.check_port_is_open                   -> checkPortIsOpen   (search loop       -> any)
  SoftwareManager.receive_payload_from_session_manager -> receivePath       (sequence of receive() calls -> list of (receiver, deepcopy?))
  SessionManager.receive_frame (destination port)      -> sessionDstPort

`Props/C13Recv.lean` proves each of them equal, for all arguments, to the hand-written model in `Model/C13Recv.lean`
(`C13_gen_recv_translation`), so a change of the source changes the regenerated definition and the proof no longer checks.

Shape-checked (normalised statements, logging dropped) and compared with the expected lists in a `decide`d theorem:
`HostNode.receive_frame`, the `receive` methods and the APIs of DNSServer / DNSClient / NTPServer / NTPClient,
`IOSoftware.add_connection` / `terminate_connection` / `send`.

Pure `ast`; never imports primaite.
"""
from __future__ import annotations

import ast
import re
from typing import Dict, List, Optional, Tuple

from harness.extract.software import PORTS_FILE, PROTO_CODE, body_no_doc, is_log, port_lookup
from harness.extract.util import class_def, find_method, parse

GEN_NAME = "SoftwareRecv"

SM = "simulator/system/core/software_manager.py"
SESS = "simulator/system/core/session_manager.py"
HOST = "simulator/network/hardware/nodes/host/host_node.py"
SW = "simulator/system/software.py"
RUNNING_SET = "{ApplicationOperatingState.RUNNING, ServiceOperatingState.RUNNING}"


class Unrecognised(ValueError):
    pass


# ------------------------------------------------------------------------------------------------ expressions
def tr_bool(e: ast.AST, env: Dict[str, str]) -> str:
    """a Python condition (truthiness included) -> Lean Bool.  `env` maps local names to their kind:
    'sw' (a software object), 'optsw' (Optional software), 'swlist' (list of software), 'nat'."""
    s = ast.unparse(e)
    if isinstance(e, ast.BoolOp):
        op = " && " if isinstance(e.op, ast.And) else " || "
        return "(" + op.join(tr_bool(v, env) for v in e.values) + ")"
    if isinstance(e, ast.UnaryOp) and isinstance(e.op, ast.Not):
        return f"(!{tr_bool(e.operand, env)})"
    if s == "payload.__class__.__name__ == 'PortScanPayload'":
        return "payloadIsPortScan"
    if isinstance(e, ast.Compare) and len(e.ops) == 1:
        l, r, op = e.left, e.comparators[0], e.ops[0]
        ls, rs = ast.unparse(l), ast.unparse(r)
        m = re.fullmatch(r"(\w+)\.operating_state", ls)
        if m and env.get(m.group(1)) == "sw" and isinstance(op, ast.In):
            if rs != RUNNING_SET:
                raise Unrecognised(f"operating_state tested against {rs}")
            return f"{m.group(1)}.running"
        m = re.fullmatch(r"(\w+)\.(port|protocol)", ls)
        if m and env.get(m.group(1)) == "sw" and isinstance(op, ast.Eq) and env.get(rs) == "nat":
            return f"{m.group(1)}.{m.group(2)} == {rs}"
        m = re.fullmatch(r"(\w+)\.listen_on_ports", rs)
        if m and env.get(m.group(1)) == "sw" and isinstance(op, ast.In) and env.get(ls) == "nat":
            return f"{m.group(1)}.listen.contains {ls}"
        if env.get(ls) == "sw" and env.get(rs) == "optsw" and isinstance(op, ast.NotEq):
            return f"(some {ls} != {rs})"
        raise Unrecognised(f"comparison {s}")
    m = re.fullmatch(r"(\w+)\.listen_on_ports", s)
    if m and env.get(m.group(1)) == "sw":
        return f"!{m.group(1)}.listen.isEmpty"      # truthiness of a set
    if isinstance(e, ast.Name) and env.get(s) == "optsw":
        return f"{s}.isSome"                        # truthiness of an object reference (SimComponent defines no __bool__/__len__)
    if isinstance(e, ast.Name) and env.get(s) == "swlist":
        return f"!{s}.isEmpty"
    raise Unrecognised(f"condition {s}")


# ------------------------------------------------------------------------------------------------ get_open_ports
def tr_get_open_ports() -> str:
    fn = find_method(class_def(parse(SM), "SoftwareManager"), "get_open_ports")
    b = body_no_doc(fn)
    if not (len(b) == 3 and ast.unparse(b[0]) == "open_ports = []" and isinstance(b[1], ast.For) and ast.unparse(b[2]) == "return open_ports"):
        raise Unrecognised("get_open_ports: not `acc = []; for …; return acc`")
    loop = b[1]
    m = re.fullmatch(r"self\.(\w+)\.values\(\)", ast.unparse(loop.iter))
    if not m or not isinstance(loop.target, ast.Name) or loop.orelse:
        raise Unrecognised("get_open_ports: loop header")
    var, src = loop.target.id, m.group(1)
    env = {var: "sw"}

    def stmts(ss: List[ast.stmt]) -> str:
        if not ss:
            return "[]"
        return f"{stmt(ss[0])} ++ ({stmts(ss[1:])})" if len(ss) > 1 else f"{stmt(ss[0])} ++ []"

    def stmt(st: ast.stmt) -> str:
        s = ast.unparse(st)
        mm = re.fullmatch(r"open_ports\.append\((\w+)\.port\)", s)
        if mm and env.get(mm.group(1)) == "sw":
            return f"[{mm.group(1)}.port]"
        mm = re.fullmatch(r"open_ports \+= list\((\w+)\.listen_on_ports\)", s)
        if mm and env.get(mm.group(1)) == "sw":
            return f"{mm.group(1)}.listen"
        if isinstance(st, ast.If) and not st.orelse:
            return f"(if {tr_bool(st.test, env)} then {stmts(st.body)} else [])"
        raise Unrecognised(f"get_open_ports: statement {s[:80]}")
    return (f"def getOpenPorts ({src}_values : List SwView) : List Nat :=\n"
            f"  {src}_values.flatMap fun {var} =>\n    {stmts(loop.body)}")


# ------------------------------------------------------------------------------------------------ check_port_is_open
def tr_check_port_is_open() -> str:
    fn = find_method(class_def(parse(SM), "SoftwareManager"), "check_port_is_open")
    args = [a.arg for a in fn.args.args]
    if args != ["self", "port", "protocol"]:
        raise Unrecognised(f"check_port_is_open: parameters {args}")
    b = body_no_doc(fn)
    if not (len(b) == 2 and isinstance(b[0], ast.For) and ast.unparse(b[1]) == "return False"):
        raise Unrecognised("check_port_is_open: not `for …: if c: return True` + `return False`")
    loop = b[0]
    m = re.fullmatch(r"self\.(\w+)\.values\(\)", ast.unparse(loop.iter))
    inner = loop.body[0] if len(loop.body) == 1 else None
    if not (m and isinstance(inner, ast.If) and not inner.orelse and not loop.orelse
            and [ast.unparse(x) for x in inner.body] == ["return True"]):
        raise Unrecognised("check_port_is_open: loop body")
    var, src = loop.target.id, m.group(1)
    env = {var: "sw", "port": "nat", "protocol": "nat"}
    cond = tr_bool(inner.test, env)
    return (f"def checkPortIsOpen (port protocol : Nat) ({src}_values : List SwView) : Bool :=\n"
            f"  {src}_values.any fun {var} => {cond}")


# ------------------------------------------------------------------------------------------------ receive path
def _receive_call(st: ast.stmt, env: Dict[str, str]) -> Optional[Tuple[str, bool]]:
    """`x.receive(payload=payload | deepcopy(payload), session_id=session_id, …)` -> (x, copied?)"""
    if not (isinstance(st, ast.Expr) and isinstance(st.value, ast.Call)):
        return None
    c = st.value
    m = re.fullmatch(r"(\w+)\.receive", ast.unparse(c.func))
    if not m or c.args:
        return None
    kw = {k.arg: ast.unparse(k.value) for k in c.keywords}
    if kw.get("session_id") != "session_id" or kw.get("payload") not in ("payload", "deepcopy(payload)"):
        raise Unrecognised(f"receive call with arguments {kw}")
    for k, v in kw.items():
        if k not in ("payload", "session_id", "from_network_interface", "frame") or (k in ("from_network_interface", "frame") and v != k):
            raise Unrecognised(f"receive call with arguments {kw}")
    return m.group(1), kw["payload"] != "payload"


def tr_receive_path() -> str:
    fn = find_method(class_def(parse(SM), "SoftwareManager"), "receive_payload_from_session_manager")
    args = [a.arg for a in fn.args.args]
    if args != ["self", "payload", "port", "protocol", "session_id", "from_network_interface", "frame"]:
        raise Unrecognised(f"receive_payload_from_session_manager: parameters {args}")
    env: Dict[str, str] = {"port": "nat", "protocol": "nat"}

    def block(ss: List[ast.stmt], ind: str) -> str:
        """the receive() calls made by the statement list, in order, as a Lean `List (SwView × Bool)`"""
        if not ss:
            return "[]"
        st, rest = ss[0], ss[1:]
        s = ast.unparse(st)
        if is_log(st):
            return block(rest, ind)
        if isinstance(st, ast.Return) and st.value is None:
            return "[]"
        # `x = self.software.get('k')`
        m = re.fullmatch(r"(\w+) = self\.software\.get\('([\w-]+)'\)", s)
        if m:
            env[m.group(1)] = "optsw"
            return f"let {m.group(1)} := software_get \"{m.group(2)}\"\n{ind}{block(rest, ind)}"
        # `x = self.port_protocol_mapping.get((port, protocol), None)`
        m = re.fullmatch(r"(\w+) = self\.port_protocol_mapping\.get\(\(port, protocol\), None\)", s)
        if m:
            env[m.group(1)] = "optsw"
            return f"let {m.group(1)} := port_protocol_mapping_get (port, protocol)\n{ind}{block(rest, ind)}"
        # `xs = [v for v in self.software.values() if cond]`
        if isinstance(st, ast.Assign) and isinstance(st.value, ast.ListComp) and len(st.targets) == 1 and isinstance(st.targets[0], ast.Name):
            lc = st.value
            g = lc.generators[0]
            if not (len(lc.generators) == 1 and isinstance(lc.elt, ast.Name) and isinstance(g.target, ast.Name) and lc.elt.id == g.target.id
                    and ast.unparse(g.iter) == "self.software.values()" and len(g.ifs) == 1 and not g.is_async):
                raise Unrecognised(f"comprehension {s[:80]}")
            v = g.target.id
            cond = tr_bool(g.ifs[0], {**env, v: "sw"})
            env[st.targets[0].id] = "swlist"
            return (f"let {st.targets[0].id} := software_values.filter fun {v} =>\n{ind}  {cond}\n"
                    f"{ind}{block(rest, ind)}")
        # `for r in xs: r.receive(…)`
        if isinstance(st, ast.For) and isinstance(st.target, ast.Name) and isinstance(st.iter, ast.Name) and env.get(st.iter.id) == "swlist" \
                and len(st.body) == 1 and not st.orelse:
            rc = _receive_call(st.body[0], env)
            if rc is None or rc[0] != st.target.id:
                raise Unrecognised(f"loop {s[:80]}")
            return f"{st.iter.id}.map (fun {st.target.id} => ({st.target.id}, {str(rc[1]).lower()})) ++ ({block(rest, ind + '  ')})"
        if isinstance(st, ast.If) and not st.orelse:
            body = [x for x in st.body if not is_log(x)]
            # `if …: log` only
            if not body:
                tr_bool(st.test, env)  # must still be a condition we understand
                return block(rest, ind)
            # `if c: …; return`  (the rest of the function is the else branch)
            if isinstance(body[-1], ast.Return) and body[-1].value is None:
                saved = dict(env)
                then = block(body[:-1], ind + "  ")
                env.clear()
                env.update(saved)
                return (f"if {tr_bool(st.test, env)} then\n{ind}  {then}\n{ind}else\n{ind}  {block(rest, ind + '  ')}")
            # `if x: x.receive(…)` with x an optional object
            if len(body) == 1 and isinstance(st.test, ast.Name) and env.get(st.test.id) == "optsw":
                rc = _receive_call(body[0], env)
                if rc is not None and rc[0] == st.test.id:
                    return (f"(match {st.test.id} with | some x => [(x, {str(rc[1]).lower()})] | none => []) ++\n"
                            f"{ind}  ({block(rest, ind + '  ')})")
            raise Unrecognised(f"if-statement {s[:100]}")
        raise Unrecognised(f"receive_payload_from_session_manager: statement {s[:100]}")
    body = block(body_no_doc(fn), "  ")
    return ("def receivePath (payloadIsPortScan : Bool) (port protocol : Nat) (software_get : String → Option SwView)\n"
            "    (port_protocol_mapping_get : Nat × Nat → Option SwView) (software_values : List SwView) : List (SwView × Bool) :=\n"
            f"  {body}")


# ------------------------------------------------------------------------------------------------ SessionManager.receive_frame
def tr_session_dst_port() -> str:
    fn = find_method(class_def(parse(SESS), "SessionManager"), "receive_frame")
    b = body_no_doc(fn)
    i = next((k for k, st in enumerate(b) if ast.unparse(st) == "dst_port = None"), None)
    if i is None or i + 2 >= len(b):
        raise Unrecognised("SessionManager.receive_frame: `dst_port = None` not found")
    chain, call = b[i + 1], b[i + 2]
    ports = port_lookup()
    out = []
    cur = chain
    while True:
        if not isinstance(cur, ast.If) or len(cur.body) != 1:
            raise Unrecognised("SessionManager.receive_frame: dst_port chain")
        t, a = ast.unparse(cur.test), ast.unparse(cur.body[0])
        if t in ("frame.tcp", "frame.udp") and a == f"dst_port = {t}.dst_port":
            out.append((f"{t}.isSome", t))
        elif t == "frame.icmp" and (m := re.fullmatch(r"dst_port = PORT_LOOKUP\['(\w+)'\]", a)) and m.group(1) in ports:
            out.append(("frame.icmp", f"some {ports[m.group(1)]}"))
        else:
            raise Unrecognised(f"SessionManager.receive_frame: `if {t}: {a}`")
        if not cur.orelse:
            break
        if len(cur.orelse) != 1:
            raise Unrecognised("SessionManager.receive_frame: else branch")
        cur = cur.orelse[0]
    if not (isinstance(call, ast.Expr) and isinstance(call.value, ast.Call)
            and ast.unparse(call.value.func) == "self.software_manager.receive_payload_from_session_manager"):
        raise Unrecognised("SessionManager.receive_frame: hand-over to the software manager not found")
    kw = {k.arg: ast.unparse(k.value) for k in call.value.keywords}
    want = {"payload": "frame.payload", "port": "dst_port", "protocol": "frame.ip.protocol", "session_id": "session.uuid",
            "from_network_interface": "from_network_interface", "frame": "frame"}
    if kw != want or i + 3 != len(b):
        raise Unrecognised(f"SessionManager.receive_frame: hand-over arguments {kw}")
    expr = "none"
    for c, v in reversed(out):
        expr = f"if {c} then {v} else {expr}"
    return f"def sessionDstPort (frame : FrameView) : Option Nat :=\n  {expr}"


# ------------------------------------------------------------------------------------------------ normalised statement lists
def norm_stmts(fn: ast.FunctionDef) -> List[str]:
    """the function body as a flat list of one-line strings: logging statements, docstrings and bare string expressions
    dropped, `x: T = x` re-annotations dropped, nested blocks rendered with `{ … }`"""
    def rend(ss: List[ast.stmt]) -> List[str]:
        out = []
        for st in ss:
            if is_log(st) or (isinstance(st, ast.Expr) and isinstance(st.value, ast.Constant)):
                continue
            if isinstance(st, ast.AnnAssign) and st.value is not None and ast.unparse(st.target) == ast.unparse(st.value):
                continue
            if isinstance(st, ast.If):
                t = f"if {ast.unparse(st.test)} {{ " + "; ".join(rend(st.body)) + " }"
                if st.orelse:
                    t += " else { " + "; ".join(rend(st.orelse)) + " }"
                out.append(t)
            elif isinstance(st, ast.For):
                out.append(f"for {ast.unparse(st.target)} in {ast.unparse(st.iter)} {{ " + "; ".join(rend(st.body)) + " }")
            elif isinstance(st, ast.Try):
                t = "try { " + "; ".join(rend(st.body)) + " }"
                for h in st.handlers:
                    t += f" except {ast.unparse(h.type) if h.type else ''} {{ " + "; ".join(rend(h.body)) + " }"
                if st.orelse or st.finalbody:
                    raise Unrecognised(f"{fn.name}: try with else/finally")
                out.append(t)
            elif isinstance(st, (ast.While, ast.With)):
                raise Unrecognised(f"{fn.name}: compound statement {type(st).__name__}")
            else:
                out.append(" ".join(ast.unparse(st).split()))
        return out
    return rend(body_no_doc(fn))


CLASS_METHODS = [
    ("simulator/system/services/dns/dns_server.py", "DNSServer", ["receive", "dns_lookup", "dns_register"]),
    ("simulator/system/services/dns/dns_client.py", "DNSClient", ["receive", "add_domain_to_cache", "check_domain_exists"]),
    ("simulator/system/services/ntp/ntp_server.py", "NTPServer", ["receive"]),
    ("simulator/system/services/ntp/ntp_client.py", "NTPClient", ["receive", "request_time", "apply_timestep"]),
    ("simulator/network/protocols/dns.py", "DNSPacket", ["generate_reply"]),
    ("simulator/network/protocols/ntp.py", "NTPPacket", ["generate_reply"]),
    (SW, "IOSoftware", ["add_connection", "terminate_connection", "send", "receive"]),
    (HOST, "HostNode", ["receive_frame"]),
    ("simulator/network/hardware/nodes/network/router.py", "Router", ["check_send_frame_to_session_manager"]),
    ("simulator/system/services/web_server/web_server.py", "WebServer",
     ["receive", "_process_http_request", "_handle_get_request", "_establish_db_connection"]),
    ("simulator/system/applications/web_browser.py", "WebBrowser", ["receive", "get_webpage"]),
]


def connection_overrides() -> List[str]:
    from harness.lib.core import SRC
    out = []
    for f in sorted((SRC / "simulator").rglob("*.py")):
        for n in ast.walk(ast.parse(f.read_text())):
            if isinstance(n, ast.ClassDef) and n.name != "IOSoftware":
                for st in n.body:
                    if isinstance(st, ast.FunctionDef) and st.name in ("add_connection", "terminate_connection", "clear_connections", "connections"):
                        out.append(f"{n.name}.{st.name}")
    return out


BOT_METHODS = [
    ("simulator/system/applications/red_applications/dos_bot.py", "DoSBot",
     ["_application_loop", "_perform_port_scan", "_perform_dos", "run", "apply_timestep"]),
    ("simulator/system/applications/red_applications/data_manipulation_bot.py", "DataManipulationBot",
     ["_application_loop", "_logon", "_perform_port_scan", "_perform_data_manipulation", "_establish_db_connection", "attack", "run",
      "apply_timestep"]),
    ("simulator/system/applications/red_applications/ransomware_script.py", "RansomwareScript",
     ["_application_loop", "_perform_ransomware_encrypt", "_establish_db_connection", "attack", "run"]),
]


C2_DIR = "simulator/system/applications/red_applications/c2/"
C2_METHODS = [
    (C2_DIR + "abstract_c2.py", "AbstractC2", ["apply_timestep", "_reset_c2_connection", "_resolve_keep_alive", "_check_connection", "receive"]),
    (C2_DIR + "c2_beacon.py", "C2Beacon", ["_confirm_remote_connection", "_handle_keep_alive"]),
    (C2_DIR + "c2_server.py", "C2Server", ["_confirm_remote_connection", "_handle_keep_alive"]),
]


def str_enum(rel: str, name: str) -> List[Tuple[str, str]]:
    cls = class_def(parse(rel), name)
    out = [(st.targets[0].id, st.value.value) for st in cls.body
           if isinstance(st, ast.Assign) and isinstance(st.value, ast.Constant) and isinstance(st.value.value, str)]
    if not out:
        raise Unrecognised(f"enum {name} has no string members")
    return out


def c2_dispatch() -> List[Tuple[str, str]]:
    """the `if command == C2Command.X: return self._return_command_output(command_output=self.<handler>(payload), …)` chain of
    `C2Beacon._handle_command_input` as (command member, handler)"""
    fn = find_method(class_def(parse(C2_DIR + "c2_beacon.py"), "C2Beacon"), "_handle_command_input")
    chain = next((st for st in body_no_doc(fn) if isinstance(st, ast.If) and ast.unparse(st.test).startswith("command == C2Command.")), None)
    if chain is None:
        raise Unrecognised("C2Beacon._handle_command_input: dispatch chain not found")
    out = []
    cur = chain
    while True:
        m = re.fullmatch(r"command == C2Command\.(\w+)", ast.unparse(cur.test))
        body = [x for x in cur.body if not is_log(x)]
        h = re.fullmatch(r"return self\._return_command_output\(command_output=self\.(\w+)\(payload\), session_id=session_id\)",
                         ast.unparse(body[0])) if len(body) == 1 else None
        if not m or not h:
            raise Unrecognised(f"C2Beacon._handle_command_input: branch {ast.unparse(cur.test)}")
        out.append((m.group(1), h.group(1)))
        if len(cur.orelse) == 1 and isinstance(cur.orelse[0], ast.If):
            cur = cur.orelse[0]
            continue
        break
    return out


def int_enum(rel: str, name: str) -> List[Tuple[str, int]]:
    cls = class_def(parse(rel), name)
    out = [(st.targets[0].id, st.value.value) for st in cls.body
           if isinstance(st, ast.Assign) and isinstance(st.value, ast.Constant) and isinstance(st.value.value, int)]
    if not out:
        raise Unrecognised(f"enum {name} has no int members")
    return out


def lean_str(s: str) -> str:
    return '"' + s.replace("\\", "\\\\").replace('"', '\\"') + '"'


def emit() -> str:
    L = ["import PrimaiteModel.Model.C13Recv", "namespace Primaite.Gen.SoftwareRecv", "open Primaite.Recv", ""]
    L.append("/-! translated from src/primaite/simulator/system/core/software_manager.py and session_manager.py -/")
    L.append(tr_get_open_ports())
    L.append("")
    L.append(tr_check_port_is_open())
    L.append("")
    L.append(tr_receive_path())
    L.append("")
    L.append(tr_session_dst_port())
    L.append("")
    L.append("/-- normalised bodies of the methods the payload model follows: `(Class.method, statements)` -/")
    rows = []
    for rel, cls, meths in CLASS_METHODS:
        c = class_def(parse(rel), cls)
        for m in meths:
            rows.append(f"({lean_str(cls + '.' + m)}, [" + ", ".join(lean_str(x) for x in norm_stmts(find_method(c, m))) + "])")
    L.append("def methodBodies : List (String × List String) := [\n  " + ",\n  ".join(rows) + "]")
    L.append("")
    L.append("/-- normalised bodies of the red applications' attack loops -/")
    rows = []
    for rel, cls, meths in BOT_METHODS:
        c = class_def(parse(rel), cls)
        for m in meths:
            rows.append(f"({lean_str(cls + '.' + m)}, [" + ", ".join(lean_str(x) for x in norm_stmts(find_method(c, m))) + "])")
    L.append("def botBodies : List (String × List String) := [\n  " + ",\n  ".join(rows) + "]")
    for nm, rel, cls in (("dosStages", BOT_METHODS[0][0], "DoSAttackStage"), ("dmStages", BOT_METHODS[1][0], "DataManipulationAttackStage")):
        L.append(f"def {nm} : List (String × Nat) := [" + ", ".join(f'("{k}", {v})' for k, v in int_enum(rel, cls)) + "]")
    L.append("")
    L.append("/-- normalised bodies of the C2 suite's connection handling -/")
    rows = []
    for rel, cls, meths in C2_METHODS:
        c = class_def(parse(rel), cls)
        for m in meths:
            rows.append(f"({lean_str(cls + '.' + m)}, [" + ", ".join(lean_str(x) for x in norm_stmts(find_method(c, m))) + "])")
    L.append("def c2Bodies : List (String × List String) := [\n  " + ",\n  ".join(rows) + "]")
    L.append("def c2Commands : List (String × String) := [" + ", ".join(f'("{k}", "{v}")' for k, v in str_enum(C2_DIR + "abstract_c2.py", "C2Command")) + "]")
    L.append("def c2Payloads : List (String × String) := [" + ", ".join(f'("{k}", "{v}")' for k, v in str_enum(C2_DIR + "abstract_c2.py", "C2Payload")) + "]")
    L.append("/-- `C2Beacon._handle_command_input`: which handler answers which command -/")
    L.append("def c2Dispatch : List (String × String) := [" + ", ".join(f'("{k}", "{v}")' for k, v in c2_dispatch()) + "]")
    kf = next(st for st in ast.walk(class_def(parse(C2_DIR + "abstract_c2.py"), "AbstractC2"))
              if isinstance(st, ast.AnnAssign) and ast.unparse(st.target) == "keep_alive_frequency")
    mfreq = re.search(r"default=(\d+), ge=(\d+)", ast.unparse(kf.value))
    if not mfreq:
        raise Unrecognised("AbstractC2.ConfigSchema.keep_alive_frequency is not Field(default=…, ge=…)")
    L.append(f"def c2KeepAliveDefault : Nat := {mfreq.group(1)}")
    L.append(f"def c2KeepAliveMin : Nat := {mfreq.group(2)}")
    L.append("")
    ports = port_lookup()
    # HTTP status codes the web model uses
    http = class_def(parse("simulator/network/protocols/http.py"), "HttpStatusCode")
    codes = {st.targets[0].id: st.value.value for st in http.body
             if isinstance(st, ast.Assign) and isinstance(st.value, ast.Constant) and isinstance(st.value.value, int)}
    L.append("/-- `HttpStatusCode` members and values -/")
    L.append("def httpStatusCodes : List (String × Nat) := [" + ", ".join(f'("{k}", {v})' for k, v in codes.items()) + "]")
    L.append(f"def portHTTP : Nat := {ports['HTTP']}")
    L.append(f"def portDNS : Nat := {ports['DNS']}")
    L.append(f"def portNTP : Nat := {ports['NTP']}")
    io = class_def(parse(SW), "IOSoftware")
    ms = next(st for st in io.body if isinstance(st, ast.AnnAssign) and ast.unparse(st.target) == "max_sessions")
    if not isinstance(ms.value, ast.Constant):
        raise Unrecognised("IOSoftware.max_sessions default is not a literal")
    L.append(f"def maxSessionsDefault : Nat := {ms.value.value}")
    L.append("/-- classes other than IOSoftware that define one of the connection-bookkeeping methods (the model has one `Conn`) -/")
    L.append("def connectionOverrides : List String := [" + ", ".join(lean_str(x) for x in connection_overrides()) + "]")
    L.append("")
    L.append("end Primaite.Gen.SoftwareRecv")
    return "\n".join(L) + "\n"


if __name__ == "__main__":
    print(emit())
