"""E2/E3 for the observation layer: Discrete sizes, default literals, clamps, ON test, NIC status codes, scan gates, key sets and
threshold categorisers of game/agent/observations/*.py, read with `ast` (never imports primaite).  Strict: raises on any
shape it does not recognise."""
import ast
from typing import Dict, List, Optional, Tuple

from harness.extract.util import class_def, find_method, parse

GEN_NAME = "ObsTables"
D = "game/agent/observations/"
CLASSES = {
    "ServiceObservation": D + "software_observation.py",
    "ApplicationObservation": D + "software_observation.py",
    "FileObservation": D + "file_system_observations.py",
    "FolderObservation": D + "file_system_observations.py",
    "NICObservation": D + "nic_observations.py",
    "PortObservation": D + "nic_observations.py",
    "LinkObservation": D + "link_observation.py",
    "ACLObservation": D + "acl_observation.py",
    "HostObservation": D + "host_observations.py",
    "RouterObservation": D + "router_observation.py",
    "FirewallObservation": D + "firewall_observation.py",
    "NullObservation": D + "observation_manager.py",
}


def _prop(cls: ast.ClassDef, name: str) -> ast.FunctionDef:
    return find_method(cls, name)


def _is_discrete(n: ast.AST) -> bool:
    return isinstance(n, ast.Call) and ast.unparse(n.func) == "spaces.Discrete" and len(n.args) == 1


def _const_key(k: ast.AST) -> Optional[str]:
    if isinstance(k, ast.Constant) and isinstance(k.value, (str, int)):
        return str(k.value)
    return None


def discrete_sizes(fn: ast.FunctionDef) -> List[Tuple[str, ast.AST]]:
    """(key under which a Discrete is stored, its argument) for every `spaces.Discrete(...)` in a `space` body."""
    found: List[Tuple[str, ast.AST]] = []
    seen = set()
    for node in ast.walk(fn):
        if isinstance(node, ast.Dict):
            for k, v in zip(node.keys, node.values):
                if _is_discrete(v):
                    key = _const_key(k)
                    if key is None:
                        raise ValueError(f"Discrete under a non-literal key in {fn.name}")
                    found.append((key, v.args[0]))
                    seen.add(id(v))
        elif isinstance(node, ast.Assign) and _is_discrete(node.value):
            t = node.targets[0]
            if not isinstance(t, ast.Subscript):
                raise ValueError("Discrete assigned to a non-subscript")
            key = _const_key(t.slice)
            if key is None:
                raise ValueError("Discrete assigned under a non-literal key")
            found.append((key, node.value.args[0]))
            seen.add(id(node.value))
        elif isinstance(node, ast.Return) and _is_discrete(node.value):
            found.append(("<self>", node.value.args[0]))
            seen.add(id(node.value))
    for node in ast.walk(fn):
        if _is_discrete(node) and id(node) not in seen:
            raise ValueError(f"a spaces.Discrete in {fn.name} is stored in a shape the extractor does not recognise")
    return found


def size_expr(arg: ast.AST, max_users: Optional[int]) -> str:
    """Lean term for a Discrete argument; symbolic sizes are emitted as tagged strings checked by the Props tie."""
    if isinstance(arg, ast.Constant) and isinstance(arg.value, int):
        return f"Size.lit {arg.value}"
    s = ast.unparse(arg)
    if s == "self.max_users + 1":
        if max_users is None:
            raise ValueError("max_users literal not found")
        return f"Size.lit ({max_users} + 1)"
    if s == "self.num_rules":
        return "Size.numRules"
    if isinstance(arg, ast.BinOp) and isinstance(arg.op, ast.Add) and isinstance(arg.right, ast.Constant):
        left = ast.unparse(arg.left)
        for tag, lean in (("len(self.ip_to_id)", "ips"), ("len(self.wildcard_to_id)", "wcs"), ("len(self.port_to_id)", "ports"),
                          ("len(self.protocol_to_id)", "protos")):
            if left == tag:
                return f"Size.distinct \"{lean}\" {arg.right.value}"
    raise ValueError(f"unrecognised Discrete size {s}")


def init_literal(cls: ast.ClassDef, attr: str) -> Optional[int]:
    for node in ast.walk(find_method(cls, "__init__")):
        tgt = None
        if isinstance(node, ast.AnnAssign):
            tgt, val = node.target, node.value
        elif isinstance(node, ast.Assign):
            tgt, val = node.targets[0], node.value
        if tgt is not None and ast.unparse(tgt) == f"self.{attr}" and isinstance(val, ast.Constant) and isinstance(val.value, int):
            return val.value
    return None


def attrs_assigned_in_init(cls: ast.ClassDef) -> set:
    names = set()
    for m in cls.body:
        if isinstance(m, ast.FunctionDef) and m.name.startswith("_"):  # __init__ and the threshold setters it calls
            for node in ast.walk(m):
                tgts = []
                if isinstance(node, ast.AnnAssign):
                    tgts = [node.target]
                elif isinstance(node, ast.Assign):
                    tgts = node.targets
                for t in tgts:
                    if isinstance(t, ast.Attribute) and isinstance(t.value, ast.Name) and t.value.id == "self":
                        names.add(t.attr)
    return names


def space_reads_only_init(cls: ast.ClassDef) -> bool:
    init = attrs_assigned_in_init(cls)
    for node in ast.walk(_prop(cls, "space")):
        if isinstance(node, ast.Attribute) and isinstance(node.value, ast.Name) and node.value.id == "self":
            if node.attr not in init:
                return False
    return True


def default_zero_leaves(cls: ast.ClassDef) -> Tuple[int, bool]:
    """(number of int literals inside default_observation expressions in __init__, all of them are 0)"""
    n, ok = 0, True
    init = find_method(cls, "__init__")
    for node in ast.walk(init):
        val = None
        if isinstance(node, (ast.Assign, ast.AnnAssign)):
            tgt = node.targets[0] if isinstance(node, ast.Assign) else node.target
            if "default_observation" in ast.unparse(tgt):
                val = node.value
        elif isinstance(node, ast.Call) and "default_observation" in ast.unparse(node.func) and ast.unparse(node.func).endswith(".update"):
            val = node.args[0]
        if val is None:
            continue
        for c in ast.walk(val):
            if isinstance(c, ast.Dict):
                for v in c.values:
                    if isinstance(v, ast.Constant) and isinstance(v.value, int):
                        n += 1
                        ok &= v.value == 0
            elif isinstance(c, ast.Constant) and isinstance(c.value, int) and val is c:
                n += 1
                ok &= c.value == 0
    return n, ok


# ------------------------------------------------------------------------------------------------- E3: mini-translator
OPS = {ast.Gt: ">", ast.GtE: "≥", ast.Lt: "<", ast.LtE: "≤", ast.Eq: "=", ast.NotEq: "≠"}


def _expr(e: ast.AST, env: Dict[str, str]) -> str:
    if isinstance(e, ast.Constant) and isinstance(e.value, int) and not isinstance(e.value, bool):
        return str(e.value)
    if isinstance(e, (ast.Name, ast.Attribute)):
        s = ast.unparse(e)
        if s in env:
            return env[s]
        raise ValueError(f"unknown name {s}")
    if isinstance(e, ast.Compare) and len(e.ops) == 1 and type(e.ops[0]) in OPS:
        return f"({_expr(e.left, env)} {OPS[type(e.ops[0])]} {_expr(e.comparators[0], env)})"
    raise ValueError(f"unsupported expression {ast.unparse(e)}")


def _stmts(body: List[ast.stmt], env: Dict[str, str], ind: int) -> str:
    if not body:
        raise ValueError("function may fall through")
    s, pad = body[0], "  " * ind
    if isinstance(s, ast.Expr) and isinstance(s.value, ast.Constant):
        return _stmts(body[1:], env, ind)
    if isinstance(s, ast.Return):
        return pad + _expr(s.value, env)
    if isinstance(s, ast.If):
        if not isinstance(s.body[-1], ast.Return):
            raise ValueError("if-branch does not return")
        then = _stmts(s.body, env, ind + 1)
        els = _stmts(list(s.orelse) + body[1:], env, ind + 1)  # an elif chain falls through to what follows
        return f"{pad}if {_expr(s.test, env)} then\n{then}\n{pad}else\n{els}"
    raise ValueError(f"unsupported statement {ast.dump(s)[:60]}")


def translate_categoriser(cls: ast.ClassDef, fn_name: str, lean_name: str, arg: str, prefix: str) -> str:
    fn = find_method(cls, fn_name)
    params = [a.arg for a in fn.args.args]
    if params != ["self", arg]:
        raise ValueError(f"{fn_name} parameters are {params}")
    env = {arg: "n", f"self.high_{prefix}_threshold": "high", f"self.med_{prefix}_threshold": "med",
           f"self.low_{prefix}_threshold": "low"}
    return f"def {lean_name} (low med high n : Int) : Nat :=\n" + _stmts(fn.body, env, 1)


# ---------------------------------------------------------------- `_validate_thresholds` and the threshold setters

def _vt_expr(e: ast.AST) -> str:
    """integer expressions of `_validate_thresholds` over `thresholds` (a list of ints in the model) and `idx`"""
    if isinstance(e, ast.Constant) and isinstance(e.value, int) and not isinstance(e.value, bool):
        return f"({e.value} : Int)"
    if isinstance(e, ast.Name) and e.id == "idx":
        return "idx"
    if isinstance(e, ast.Call) and ast.unparse(e) == "len(thresholds)":
        return "(thresholds.length : Int)"
    if isinstance(e, ast.Subscript) and ast.unparse(e.value) == "thresholds":
        return f"(pyGetI thresholds {_vt_expr(e.slice)})"
    if isinstance(e, ast.BinOp) and isinstance(e.op, (ast.Add, ast.Sub)):
        return f"({_vt_expr(e.left)} {'+' if isinstance(e.op, ast.Add) else '-'} {_vt_expr(e.right)})"
    raise ValueError("_validate_thresholds: expression not followed: " + ast.unparse(e))


def _vt_test(e: ast.AST) -> str:
    """a Lean Bool for a test of `_validate_thresholds`; the model's thresholds are integers, so `isinstance(thresholds[i], int)` holds
    and `thresholds is None` does not"""
    cmp = {ast.Gt: ">", ast.GtE: "≥", ast.Lt: "<", ast.LtE: "≤", ast.Eq: "=", ast.NotEq: "≠"}
    if isinstance(e, ast.BoolOp):
        return "(" + (" || " if isinstance(e.op, ast.Or) else " && ").join(_vt_test(v) for v in e.values) + ")"
    if isinstance(e, ast.UnaryOp) and isinstance(e.op, ast.Not):
        return f"(!{_vt_test(e.operand)})"
    if isinstance(e, ast.Compare) and len(e.ops) == 1:
        if isinstance(e.ops[0], ast.Is) and ast.unparse(e) == "thresholds is None":
            return "false"
        if type(e.ops[0]) in cmp:
            return f"(decide ({_vt_expr(e.left)} {cmp[type(e.ops[0])]} {_vt_expr(e.comparators[0])}))"
    if isinstance(e, ast.Call) and isinstance(e.func, ast.Name) and e.func.id == "isinstance" and len(e.args) == 2 \
            and ast.unparse(e.args[1]) == "int" and isinstance(e.args[0], ast.Subscript) and ast.unparse(e.args[0].value) == "thresholds":
        _vt_expr(e.args[0].slice)
        return "true"
    raise ValueError("_validate_thresholds: test not followed: " + ast.unparse(e))


def _is_raise_if(st: ast.stmt) -> bool:
    return isinstance(st, ast.If) and not st.orelse and len(st.body) == 1 and isinstance(st.body[0], ast.Raise)


def translate_validate_thresholds(fn: ast.FunctionDef) -> str:
    """`def validateThresholds (thresholds : List Int) : Bool` — true = the method returns True, false = it raises.  Accepted shape:
    any number of `if <test>: raise …` guards, `for idx in range(a, len(thresholds))` loops whose body is a sequence of such guards
    (a raise in any iteration ends the call, the iterations share no state: `List.all`), then `return True`."""
    body = [s for s in fn.body if not (isinstance(s, ast.Expr) and isinstance(s.value, ast.Constant) and isinstance(s.value.value, str))]
    if not body or not (isinstance(body[-1], ast.Return) and isinstance(body[-1].value, ast.Constant) and body[-1].value.value is True):
        raise ValueError("_validate_thresholds: does not end with `return True`")
    parts = []
    for st in body[:-1]:
        if _is_raise_if(st):
            parts.append(f"!{_vt_test(st.test)}")
        elif isinstance(st, ast.For) and not st.orelse and isinstance(st.target, ast.Name) and st.target.id == "idx" \
                and isinstance(st.iter, ast.Call) and ast.unparse(st.iter.func) == "range" and len(st.iter.args) == 2 \
                and isinstance(st.iter.args[0], ast.Constant) and isinstance(st.iter.args[0].value, int) \
                and ast.unparse(st.iter.args[1]) == "len(thresholds)" and all(_is_raise_if(x) for x in st.body):
            a = st.iter.args[0].value
            inner = " && ".join(f"!{_vt_test(x.test)}" for x in st.body) or "true"
            parts.append(f"(List.range' {a} (thresholds.length - {a})).all (fun idxN => let idx : Int := (idxN : Nat)\n      {inner})")
        else:
            raise ValueError("_validate_thresholds: statement not followed: " + ast.unparse(st)[:80])
    return ("/-- Python list indexing on a list of ints (a negative index counts from the end; out of range is IndexError, unreachable behind\n"
            "the guards: 0) -/\n"
            "def pyGetI (l : List Int) (i : Int) : Int := if i < 0 then l.getD (l.length - i.natAbs) 0 else l.getD i.toNat 0\n"
            "/-- `AbstractObservation._validate_thresholds(thresholds)`, translated: true = returns True, false = raises -/\n"
            "def validateThresholds (thresholds : List Int) : Bool :=\n  " + " &&\n  ".join(parts or ["true"]))


def threshold_setter(cls: ast.ClassDef, key: str, prefix: str) -> str:
    """the constructor's `if thresholds.get(KEY) is None: <class defaults> else: self._set…(thresholds=[…['low'], …['medium'], …['high']])`
    and the setter's `if self._validate_thresholds(thresholds=…): self.low… = thresholds[0] …` as one table row"""
    init = find_method(cls, "__init__")
    branch = [n for n in init.body if isinstance(n, ast.If) and ast.unparse(n.test) == f"thresholds.get('{key}') is None"]
    if len(branch) != 1:
        raise ValueError(f"{cls.name}.__init__: no single `if thresholds.get('{key}') is None`")
    br = branch[0]
    absent = "class-defaults" if all(isinstance(s, ast.Assign) and isinstance(s.value, ast.Constant) for s in br.body) and len(br.body) == 3 else "other"
    if len(br.orelse) != 1 or not (isinstance(br.orelse[0], ast.Expr) and isinstance(br.orelse[0].value, ast.Call)):
        raise ValueError(f"{cls.name}.__init__: the branch with thresholds is not one setter call")
    call = br.orelse[0].value
    setter = ast.unparse(call.func)
    if not setter.startswith("self.") or call.args or [k.arg for k in call.keywords] != ["thresholds"] or not isinstance(call.keywords[0].value, ast.List):
        raise ValueError(f"{cls.name}.__init__: setter call not recognised: {ast.unparse(call)}")
    handed = []
    for e in call.keywords[0].value.elts:
        u = ast.unparse(e)
        pre = f"thresholds.get('{key}')['"
        if not (u.startswith(pre) and u.endswith("']")):
            raise ValueError(f"{cls.name}.__init__: threshold entry not recognised: {u}")
        handed.append(u[len(pre):-2])
    fn = find_method(cls, setter[len("self."):])
    body = [s for s in fn.body if not (isinstance(s, ast.Expr) and isinstance(s.value, ast.Constant))]
    if len(body) != 1 or not isinstance(body[0], ast.If) or body[0].orelse:
        raise ValueError(f"{cls.name}.{fn.name}: body is not one `if self._validate_thresholds(…):`")
    test = body[0].test
    if not (isinstance(test, ast.Call) and ast.unparse(test.func) == "self._validate_thresholds" and not test.args):
        raise ValueError(f"{cls.name}.{fn.name}: test is not a call of _validate_thresholds: {ast.unparse(test)}")
    kw = {k.arg: k.value for k in test.keywords}
    if set(kw) - {"thresholds", "threshold_identifier"} or "thresholds" not in kw:
        raise ValueError(f"{cls.name}.{fn.name}: keywords of _validate_thresholds not recognised")
    arg = kw["thresholds"]
    if isinstance(arg, ast.Name) and arg.id == "thresholds":
        validated = [0, 1, 2]  # the whole list the constructor handed over (three entries, checked here)
        if len(handed) != 3:
            raise ValueError("whole-list validation of a list that has not three entries")
    elif isinstance(arg, ast.List):
        validated = []
        for e in arg.elts:
            if not (isinstance(e, ast.Subscript) and ast.unparse(e.value) == "thresholds" and isinstance(e.slice, ast.Constant)):
                raise ValueError(f"{cls.name}.{fn.name}: validated entry not recognised: {ast.unparse(e)}")
            validated.append(int(e.slice.value))
    else:
        raise ValueError(f"{cls.name}.{fn.name}: validated list not recognised: {ast.unparse(arg)}")
    assigns = []
    for st in body[0].body:
        if not (isinstance(st, ast.Assign) and len(st.targets) == 1 and isinstance(st.value, ast.Subscript)
                and ast.unparse(st.value.value) == "thresholds" and isinstance(st.value.slice, ast.Constant)):
            raise ValueError(f"{cls.name}.{fn.name}: statement under the validation not recognised: {ast.unparse(st)}")
        t = ast.unparse(st.targets[0])
        suf = f"_{prefix}_threshold"
        if not (t.startswith("self.") and t.endswith(suf)):
            raise ValueError(f"{cls.name}.{fn.name}: assigns {t}")
        assigns.append((t[len("self."):-len(suf)], int(st.value.slice.value)))
    return (f'("{cls.name}", "{key}", "{absent}", [' + ", ".join(f'"{h}"' for h in handed) + "], [" + ", ".join(map(str, validated)) + "], ["
            + ", ".join(f'("{a}", {i})' for a, i in assigns) + "])")


# ------------------------------------------------------------------------------------------------- specific shapes
def find_min_clamp(fn: ast.FunctionDef, must_contain: str) -> Optional[int]:
    """`min(<expr containing must_contain>, K)` or `min(K, <expr…>)` anywhere in fn → K"""
    for node in ast.walk(fn):
        if isinstance(node, ast.Call) and isinstance(node.func, ast.Name) and node.func.id == "min" and len(node.args) == 2:
            a, b = node.args
            for x, y in ((a, b), (b, a)):
                if must_contain in ast.unparse(x):
                    if isinstance(y, ast.Constant) and isinstance(y.value, int):
                        return y.value
                    if ast.unparse(y) == "self.max_users":
                        return -1  # symbolic: clamp is max_users
    return None


def bin_formula(fn: ast.FunctionDef) -> Tuple[int, int]:
    """`int(<x> * M) + A` → (M, A)"""
    for node in ast.walk(fn):
        if (isinstance(node, ast.BinOp) and isinstance(node.op, ast.Add) and isinstance(node.right, ast.Constant)
                and isinstance(node.left, ast.Call) and ast.unparse(node.left.func) == "int"):
            inner = node.left.args[0]
            if isinstance(inner, ast.BinOp) and isinstance(inner.op, ast.Mult) and isinstance(inner.right, ast.Constant):
                return inner.right.value, node.right.value
    raise ValueError(f"no int(x * M) + A in {fn.name}")


def on_test(fn: ast.FunctionDef) -> int:
    for node in ast.walk(fn):
        if isinstance(node, ast.Assign) and ast.unparse(node.targets[0]) == "is_on":
            c = node.value
            if (isinstance(c, ast.Compare) and isinstance(c.ops[0], ast.Eq) and isinstance(c.comparators[0], ast.Constant)
                    and ast.unparse(c.left).endswith("['operating_state']")):
                return c.comparators[0].value
    raise ValueError(f"no `is_on = …[\"operating_state\"] == k` in {fn.name}")


def enabled_codes(fn: ast.FunctionDef) -> Tuple[int, int]:
    for node in ast.walk(fn):
        if isinstance(node, ast.IfExp) and ast.unparse(node.test).endswith("['enabled']"):
            if isinstance(node.body, ast.Constant) and isinstance(node.orelse, ast.Constant):
                return node.body.value, node.orelse.value
    raise ValueError(f"no `a if …[\"enabled\"] else b` in {fn.name}")


def scan_gate(fn: ast.FunctionDef, flag: str) -> Tuple[str, str]:
    """(key read when the flag is true, key read when it is false)"""
    for node in ast.walk(fn):
        if isinstance(node, ast.IfExp) and ast.unparse(node.test) == f"self.{flag}":
            return _sub_key(node.body), _sub_key(node.orelse)
        if isinstance(node, ast.If) and ast.unparse(node.test) == f"self.{flag}":
            t = _leaf_assign(node.body)
            e = _leaf_assign(node.orelse)
            return t, e
    raise ValueError(f"no scan gate on self.{flag} in {fn.name}")


def _sub_key(e: ast.AST) -> str:
    if isinstance(e, ast.Subscript) and isinstance(e.slice, ast.Constant):
        return str(e.slice.value)
    raise ValueError(f"not a state[...] read: {ast.unparse(e)}")


def _leaf_assign(body: List[ast.stmt]) -> str:
    """a branch `health_status = state["k"]`, or the folder's nested `if not scanned_this_step: cached else: state["k"]`"""
    if len(body) == 1 and isinstance(body[0], ast.Assign):
        return _sub_key(body[0].value)
    if len(body) == 1 and isinstance(body[0], ast.If):
        inner = body[0]
        if ast.unparse(inner.test) == "not folder_state['scanned_this_step']":
            a = _leaf_assign(inner.body)
            b = _leaf_assign(inner.orelse)
            return f"cached:{a}|scanned:{b}"
    # since repair 59ceb16: `same_folder = <the cache was read from this folder object>` and the cache is used only for that object
    if len(body) == 2 and isinstance(body[0], ast.Assign) and ast.unparse(body[0].targets[0]) == "same_folder" and isinstance(body[1], ast.If):
        inner = body[1]
        if ast.unparse(body[0].value) != "self._cached_uuid is None or folder_state.get('uuid') == self._cached_uuid":
            raise ValueError("unrecognised same_folder expression: " + ast.unparse(body[0].value))
        if ast.unparse(inner.test) in ("not folder_state['scanned_this_step'] and same_folder", "same_folder and (not folder_state['scanned_this_step'])"):
            a = _leaf_assign(inner.body)
            b = _leaf_assign(inner.orelse)
            return f"cached-of-this-folder:{a}|scanned-or-other-folder:{b}"
    raise ValueError("unrecognised scan-gate branch")


def folder_cache_updated(cls: ast.ClassDef) -> bool:
    for node in ast.walk(find_method(cls, "observe")):
        if isinstance(node, ast.Assign) and ast.unparse(node.targets[0]) == "self.cached_obs":
            return ast.unparse(node.value) == "obs"
    return False


def folder_cache_identity(cls: ast.ClassDef) -> Tuple[str, str, str]:
    """(what `__init__` assigns to `_cached_uuid`, what `observe` assigns to it — after `self.cached_obs = obs`, on the present path —,
    the statements of the branch for a folder that is not in the state)"""
    init = [ast.unparse(n.value) for n in ast.walk(find_method(cls, "__init__"))
            if isinstance(n, (ast.Assign, ast.AnnAssign)) and ast.unparse(n.targets[0] if isinstance(n, ast.Assign) else n.target) == "self._cached_uuid"]
    obs = find_method(cls, "observe")
    top = [st for st in obs.body if not (isinstance(st, ast.Expr) and isinstance(st.value, ast.Constant))]
    upd = "<none>"
    for i, st in enumerate(top):
        if isinstance(st, ast.Assign) and ast.unparse(st.targets[0]) == "self._cached_uuid":
            prev = top[i - 1]
            if not (isinstance(prev, ast.Assign) and ast.unparse(prev.targets[0]) == "self.cached_obs"):
                raise ValueError("FolderObservation.observe: _cached_uuid is not updated right after cached_obs")
            upd = ast.unparse(st.value)
    absent = next((st for st in top if isinstance(st, ast.If) and ast.unparse(st.test) == "folder_state is NOT_PRESENT_IN_STATE"), None)
    if absent is None or absent.orelse:
        raise ValueError("FolderObservation.observe: branch for an absent folder not recognised")
    return (init[0] if len(init) == 1 else "<none>"), upd, "; ".join(ast.unparse(x) for x in absent.body)


def space_built_incrementally(cls: ast.ClassDef) -> bool:
    """does the `space` property add keys to an EXISTING gymnasium `Dict` (`x = spaces.Dict(…)` … `x[k] = …` / `x[k][j] = …`)?  Such keys
    are appended in insertion order; a complete Python dict handed to `spaces.Dict(…)` is sorted by gymnasium."""
    fn = _prop(cls, "space")
    gym_names = {n.targets[0].id for n in ast.walk(fn) if isinstance(n, ast.Assign) and len(n.targets) == 1 and isinstance(n.targets[0], ast.Name)
                 and isinstance(n.value, ast.Call) and ast.unparse(n.value.func).endswith("spaces.Dict")}
    for n in ast.walk(fn):
        if isinstance(n, (ast.Assign, ast.AugAssign)):
            for t in (n.targets if isinstance(n, ast.Assign) else [n.target]):
                root = t
                while isinstance(root, ast.Subscript):
                    root = root.value
                if isinstance(t, ast.Subscript) and isinstance(root, ast.Name) and root.id in gym_names:
                    return True
        if isinstance(n, ast.Call) and isinstance(n.func, ast.Attribute) and n.func.attr in ("update", "setdefault") \
                and isinstance(n.func.value, ast.Name) and n.func.value.id in gym_names:
            return True
    return False


def nmne_table(fn: ast.FunctionDef) -> List[Tuple[bool, bool, bool, bool, bool]]:
    """What `NICObservation.observe` does about NMNE, by CASES instead of by source text: for each value of (`self.include_nmne`,
    `'nmne' in nic_state`) the statements of the live branch are walked, every `if` whose test is a boolean combination of these two
    facts (directly or through a local assigned from one of them) is decided, and it is recorded whether the interface's counters are
    read (`nic_state['nmne']`), whether a FRESH `NMNE` dictionary is put into the observation before that, and whether explicit zeros
    are reported.  An `if` on anything else must not contain NMNE statements (raises).  Rows: (include, capturing, reads, fresh, zeros)."""
    def is_zero_dict(d: ast.AST) -> bool:
        return isinstance(d, ast.Dict) and sorted(ast.unparse(k) for k in d.keys) == ["'inbound'", "'outbound'"] and \
            all(isinstance(v, ast.Constant) and v.value == 0 for v in d.values)

    def nmne_write(st: ast.stmt):
        """'fresh' / 'zeros' / None for `obs.update({'NMNE': …})` and `obs['NMNE'] = …`"""
        val = None
        if isinstance(st, ast.Expr) and isinstance(st.value, ast.Call) and ast.unparse(st.value.func) == "obs.update" and len(st.value.args) == 1 \
                and isinstance(st.value.args[0], ast.Dict) and [ast.unparse(k) for k in st.value.args[0].keys] == ["'NMNE'"]:
            val = st.value.args[0].values[0]
        elif isinstance(st, ast.Assign) and len(st.targets) == 1 and ast.unparse(st.targets[0]) == "obs['NMNE']":
            val = st.value
        if val is None:
            return None
        if isinstance(val, ast.Dict) and not val.keys:
            return "fresh"
        if is_zero_dict(val):
            return "zeros"
        raise ValueError("NICObservation.observe: NMNE written with something else: " + ast.unparse(st))

    def ev(e: ast.AST, env: dict):
        u = ast.unparse(e)
        if u in env:
            return env[u]
        if isinstance(e, ast.BoolOp):
            vals = [ev(v, env) for v in e.values]
            if any(v is None for v in vals):
                return None
            return all(vals) if isinstance(e.op, ast.And) else any(vals)
        if isinstance(e, ast.UnaryOp) and isinstance(e.op, ast.Not):
            v = ev(e.operand, env)
            return None if v is None else (not v)
        return None

    def walk(stmts, env: dict, acc: dict):
        for st in stmts:
            if isinstance(st, ast.Assign) and len(st.targets) == 1 and isinstance(st.targets[0], ast.Name):
                v = ev(st.value, env)
                if v is not None:
                    env[st.targets[0].id] = v
                    continue
            if isinstance(st, ast.If):
                v = ev(st.test, env)
                if v is None:
                    if "NMNE" in ast.unparse(st) or "nic_state['nmne']" in ast.unparse(st):
                        raise ValueError("NICObservation.observe: NMNE statements under a test that is not about include_nmne / capturing: " + ast.unparse(st.test))
                    continue
                walk(st.body if v else st.orelse, env, acc)
                continue
            w = nmne_write(st)
            if w == "fresh":
                acc["fresh"] = True
            elif w == "zeros":
                acc["zeros"] = True
            elif "nic_state['nmne']" in ast.unparse(st):
                acc["reads"] = True
                acc["fresh_before_read"] = acc["fresh"]
            elif "obs['NMNE']" in ast.unparse(st) and not acc["fresh"]:
                acc["writes_unfresh"] = True  # writes into an NMNE dictionary this call did not create

    rows = []
    live = [st for st in fn.body if not (isinstance(st, ast.If) and "NOT_PRESENT_IN_STATE" in ast.unparse(st.test))]
    for inc in (True, False):
        for cap in (True, False):
            acc = {"reads": False, "fresh": False, "zeros": False, "fresh_before_read": False, "writes_unfresh": False}
            walk(live, {"self.include_nmne": inc, "'nmne' in nic_state": cap}, acc)
            rows.append((inc, cap, acc["reads"], (acc["fresh_before_read"] or not acc["reads"]) and not acc["writes_unfresh"], acc["zeros"]))
    return rows


def nmne_gate(fn: ast.FunctionDef) -> Tuple[bool, bool, str, bool]:
    """(there is a branch on `capture_nmne and self.include_nmne`, there is a branch emitting zeros on `self.include_nmne and not
    capture_nmne`, the expression the LOCAL `capture_nmne` is assigned from, observe still reads the class attribute `self.capture_nmne`)"""
    cap, dflt, src = False, False, "<none>"
    for node in ast.walk(fn):
        if isinstance(node, ast.If):
            t = ast.unparse(node.test)
            if t == "capture_nmne and self.include_nmne":
                cap = True
            if t == "self.include_nmne and (not capture_nmne)":
                src_ = ast.unparse(node.body[0])
                dflt = "'NMNE': {'inbound': 0, 'outbound': 0}" in src_
        if isinstance(node, ast.Assign) and len(node.targets) == 1 and ast.unparse(node.targets[0]) == "capture_nmne":
            src = ast.unparse(node.value)
    reads_class_attr = any(isinstance(n, ast.Attribute) and n.attr == "capture_nmne" for n in ast.walk(fn))
    return cap, dflt, src, reads_class_attr


OBSERVED_KEYS = {"operating_state", "health_state_actual", "health_state_visible", "health_status", "visible_status", "enabled",
                 "num_executions", "num_access", "num_file_creations", "num_file_deletions", "scanned_this_step", "current_local_user",
                 "active_remote_sessions", "speed", "traffic", "nmne", "bandwidth", "current_load"}
BASE_WRITERS = {"simulator/system/services/service.py", "simulator/system/applications/application.py", "simulator/system/software.py",
                "simulator/file_system/file_system_item_abc.py", "simulator/file_system/file.py", "simulator/file_system/folder.py",
                "simulator/file_system/file_system.py", "simulator/network/hardware/base.py",
                "simulator/network/hardware/nodes/network/router.py"}


def observed_key_overrides() -> List[str]:
    """files (outside the base classes) whose describe_state assigns `state[<observed key>]`"""
    from harness.lib.core import SRC
    hits = []
    for f in sorted((SRC / "simulator").rglob("*.py")):
        rel = str(f.relative_to(SRC))
        if rel in BASE_WRITERS:
            continue
        tree = ast.parse(f.read_text())
        for fn in ast.walk(tree):
            if isinstance(fn, ast.FunctionDef) and fn.name == "describe_state":
                for node in ast.walk(fn):
                    if isinstance(node, ast.Assign) and isinstance(node.targets[0], ast.Subscript) and \
                            isinstance(node.targets[0].slice, ast.Constant) and node.targets[0].slice.value in OBSERVED_KEYS and \
                            ast.unparse(node.targets[0].value) == "state":
                        hits.append(rel)
    return sorted(set(hits))


def emit() -> str:
    trees = {}
    cls = {}
    for name, rel in CLASSES.items():
        trees.setdefault(rel, parse(rel))
        cls[name] = class_def(trees[rel], name)
    out = ["namespace Primaite.Gen.ObsTables",
           "/-- a `Discrete(...)` argument as written in a `space` property -/",
           "inductive Size where | lit (n : Nat) | numRules | distinct (list : String) (plus : Nat)\n  deriving DecidableEq, Repr", ""]
    # sizes
    for name in CLASSES:
        mu = init_literal(cls[name], "max_users") if name in ("HostObservation", "RouterObservation", "FirewallObservation") else None
        sizes = discrete_sizes(_prop(cls[name], "space"))
        rows = []
        for key, arg in sizes:
            rows.append(f'("{key}", {size_expr(arg, mu)})')
        # several leaves may share a key (e.g. inbound/outbound under icmp and under ports): keep the distinct rows, in order
        uniq = list(dict.fromkeys(rows))
        out.append(f"def {name}_sizes : List (String × Size) := [{', '.join(uniq)}]")
        out.append(f"def {name}_spaceReadsOnlyInitAttrs : Bool := {'true' if space_reads_only_init(cls[name]) else 'false'}")
        n, ok = default_zero_leaves(cls[name])
        out.append(f"def {name}_defaultLeafLiterals : Nat := {n}")
        out.append(f"def {name}_defaultLeavesAllZero : Bool := {'true' if ok else 'false'}")
        if mu is not None:
            out.append(f"def {name}_maxUsers : Nat := {mu}")
            c = find_min_clamp(find_method(cls[name], "observe"), "active_remote_sessions")
            out.append(f"def {name}_remoteSessionsClampedByMaxUsers : Bool := {'true' if c == -1 else 'false'}")
            out.append(f"def {name}_onValue : Nat := {on_test(find_method(cls[name], 'observe'))}")
        out.append("")
    # clamps and formulas
    m, a = bin_formula(find_method(cls["NICObservation"], "_categorise_traffic"))
    c = find_min_clamp(find_method(cls["NICObservation"], "_categorise_traffic"), "bandwidth_utilisation")
    out.append(f"def nicTrafficMul : Nat := {m}\ndef nicTrafficAdd : Nat := {a}")
    out.append(f"def nicTrafficClamp : Option Nat := {'none' if c is None else f'some {c}'}")
    m, a = bin_formula(find_method(cls["LinkObservation"], "observe"))
    c = find_min_clamp(find_method(cls["LinkObservation"], "observe"), "utilisation_category")
    out.append(f"def linkMul : Nat := {m}\ndef linkAdd : Nat := {a}")
    out.append(f"def linkClamp : Option Nat := {'none' if c is None else f'some {c}'}")
    hobs = find_method(cls["HostObservation"], "observe")
    c1 = find_min_clamp(hobs, "num_file_creations")
    c2 = find_min_clamp(hobs, "num_file_deletions")
    out.append(f"def fileCreationsClamp : Option Nat := {'none' if c1 is None else f'some {c1}'}")
    out.append(f"def fileDeletionsClamp : Option Nat := {'none' if c2 is None else f'some {c2}'}")
    e1, e2 = enabled_codes(find_method(cls["NICObservation"], "observe"))
    out.append(f"def nicEnabledCode : Nat := {e1}\ndef nicDisabledCode : Nat := {e2}")
    e1, e2 = enabled_codes(find_method(cls["PortObservation"], "observe"))
    out.append(f"def portEnabledCode : Nat := {e1}\ndef portDisabledCode : Nat := {e2}")
    # scan gates
    t, e = scan_gate(find_method(cls["ServiceObservation"], "observe"), "services_requires_scan")
    out.append(f'def serviceScanGate : String × String := ("{t}", "{e}")')
    t, e = scan_gate(find_method(cls["ApplicationObservation"], "observe"), "applications_requires_scan")
    out.append(f'def applicationScanGate : String × String := ("{t}", "{e}")')
    t, e = scan_gate(find_method(cls["FileObservation"], "observe"), "file_system_requires_scan")
    out.append(f'def fileScanGate : String × String := ("{t}", "{e}")')
    t, e = scan_gate(find_method(cls["FolderObservation"], "observe"), "file_system_requires_scan")
    out.append(f'def folderScanGate : String × String := ("{t}", "{e}")')
    out.append(f"def folderCacheUpdated : Bool := {'true' if folder_cache_updated(cls['FolderObservation']) else 'false'}")
    ci = folder_cache_identity(cls["FolderObservation"])
    out.append("/-- (`_cached_uuid` at construction, its update on every present observation, the whole branch for an absent folder) -/")
    out.append("def folderCacheIdentity : String × String × String := (" + ", ".join('"' + x.replace('"', "'") + '"' for x in ci) + ")")
    cap, dflt, src, reads = nmne_gate(find_method(cls["NICObservation"], "observe"))
    out.append(f"def nmneCaptureBranch : Bool := {'true' if cap else 'false'}")
    out.append(f"def nmneDefaultWhenNotCapturing : Bool := {'true' if dflt else 'false'}")
    out.append('def nmneCaptureSource : String := "' + src.replace('"', "'") + '"')
    B_ = lambda b: "true" if b else "false"  # noqa: E731
    out.append("/-- NICObservation.observe by cases: (include_nmne, interface publishes `nmne`, counters read, NMNE dictionary created by this\n"
               "call before anything is written into it, explicit zeros reported) -/")
    out.append("def nmneTable : List (Bool × Bool × Bool × Bool × Bool) := ["
               + ", ".join("(" + ", ".join(B_(x) for x in r) + ")" for r in nmne_table(find_method(cls["NICObservation"], "observe"))) + "]")
    out.append(f"def nmneObserveReadsClassAttribute : Bool := {'true' if reads else 'false'}")
    # how ACLObservation.observe reads slot i of the ACL's state (`.get(i)`: a position beyond the slots is None = empty; `[i]` would raise)
    reads_ = [ast.unparse(n.value) for n in ast.walk(find_method(cls["ACLObservation"], "observe"))
              if isinstance(n, ast.Assign) and ast.unparse(n.targets[0]) == "rule_state"]
    out.append("def aclSlotRead : List String := [" + ", ".join('"' + r.replace('"', "'") + '"' for r in reads_) + "]")
    out.append("")
    # categorisers
    out.append(translate_categoriser(cls["ApplicationObservation"], "_categorise_num_executions", "catNumExecutions",
                                     "num_executions", "app_execution"))
    out.append(translate_categoriser(cls["FileObservation"], "_categorise_num_access", "catNumAccess", "num_access", "file_access"))
    out.append(translate_categoriser(cls["NICObservation"], "_categorise_mne_count", "catMneCount", "nmne_count", "nmne"))
    # default thresholds
    for name, key, prefix in (("ApplicationObservation", "app_executions", "app_execution"), ("FileObservation", "file_access", "file_access"),
                              ("NICObservation", "nmne", "nmne")):
        vals = [init_literal(cls[name], f"{lvl}_{prefix}_threshold") for lvl in ("low", "med", "high")]
        if any(v is None for v in vals):
            raise ValueError(f"default thresholds of {name} not literal")
        out.append(f"def {name}_defaultThresholds : Int × Int × Int := ({vals[0]}, {vals[1]}, {vals[2]})")
    out.append("/-- the classes whose `space` adds keys to an existing gymnasium Dict (insertion order) instead of handing over a complete dict (sorted) -/")
    out.append("def spaceBuiltIncrementally : List String := [" + ", ".join(f'"{n}"' for n in CLASSES if space_built_incrementally(cls[n])) + "]")
    # `_validate_thresholds`: translated statement by statement; the setters and the constructors' calls as tables
    vt = find_method(class_def(parse(D + "observations.py"), "AbstractObservation"), "_validate_thresholds")
    out.append(translate_validate_thresholds(vt))
    out.append("def thresholdsMustStrictlyAscend : Bool :=\n  validateThresholds [0, 1, 2] && !validateThresholds [0, 0, 1] && "
               "!validateThresholds [1, 0, 2] && !validateThresholds [0, 2, 2] && !validateThresholds [0, 2, 1]")
    rows = [threshold_setter(cls[name], key, prefix) for name, key, prefix in
            (("ApplicationObservation", "app_executions", "app_execution"), ("FileObservation", "file_access", "file_access"),
             ("NICObservation", "nmne", "nmne"))]
    out.append("/-- per class: (class, thresholds key, what `__init__` does when the key is absent, the entries it hands to the setter when it is\n"
               "present, the list positions the setter validates, the attributes it assigns under `if self._validate_thresholds(…)`) -/")
    out.append("def thresholdSetters : List (String × String × String × List String × List Nat × List (String × Nat)) := [\n  "
               + ",\n  ".join(rows) + "]")
    # the FTP override of `operating_state` in describe_state, and an inventory: no other describe_state assigns an observed key
    ftp = find_method(class_def(parse("simulator/system/services/ftp/ftp_service.py"), "FTPServiceABC"), "describe_state")
    ov = None
    for node in ast.walk(ftp):
        if isinstance(node, ast.If):
            t = ast.unparse(node.test)
            b = ast.unparse(node.body[0]) if len(node.body) == 1 else ""
            if t == "self.operating_state == ServiceOperatingState.RUNNING and (not self._active)" and \
                    b == "state['operating_state'] = ServiceOperatingState.STOPPED.value":
                ov = ("RUNNING", "STOPPED")
    if ov is None:
        raise ValueError("FTPServiceABC.describe_state override not recognised")
    out.append(f'def ftpIdleOverride : String × String := ("{ov[0]}", "{ov[1]}")')
    out.append("def observedKeysOverriddenIn : List String := [" + ", ".join(f'"{x}"' for x in observed_key_overrides()) + "]")
    out.append("end Primaite.Gen.ObsTables\n")
    return "\n".join(out)
