"""C08 — ICMP as translated programs (pure `ast`, closed tables, raises on anything unknown).

`ICMP.ping`, `ICMP._send_icmp_echo_request`, `ICMP._process_icmp_echo_request`, `RouterICMP._process_icmp_echo_request` and the
own-address / enabled guards of `RouterICMP.receive` are walked statement by statement; every statement must be in the table below and
becomes ONE instruction of a small program type (Gen/ForwardIcmp.lean).  Props/C08IcmpGen.lean gives every instruction the one model
primitive it stands for and proves that the model's `ping` and the echo-request branches of `hostRecv` / `routerRecv` ARE the
interpreted programs, for every state.  Logging (`self.sys_log.*`, the `output = f"…"` text) and the random payload are dropped.
"""
import ast
from typing import List

from harness.extract.util import class_def, find_method, parse

GEN_NAME = "ForwardIcmp"
ICMPF = "simulator/system/services/icmp/icmp.py"
ROUTER = "simulator/network/hardware/nodes/network/router.py"

SM = "self.software_manager.session_manager"
NICS = "self.software_manager.node.network_interfaces.values()"
CMP = {ast.Eq: "Cmp.eq", ast.GtE: "Cmp.ge", ast.LtE: "Cmp.le", ast.NotEq: "Cmp.ne", ast.Gt: "Cmp.gt", ast.Lt: "Cmp.lt"}


def _code(body: List[ast.stmt]) -> List[ast.stmt]:
    out = []
    for s in body:
        if isinstance(s, ast.Expr) and isinstance(s.value, ast.Constant):
            continue  # docstring
        if isinstance(s, ast.Expr) and isinstance(s.value, ast.Call) and ast.unparse(s.value.func).startswith("self.sys_log."):
            continue  # logging
        if isinstance(s, ast.Assign) and ast.unparse(s.targets[0]) == "output" and isinstance(s.value, ast.JoinedStr):
            continue  # the text of the statistics line (only logged)
        if isinstance(s, ast.Assign) and ast.unparse(s) == "payload = secrets.token_urlsafe(int(32 / 1.3))":
            continue  # random payload bytes: not modelled
        out.append(s)
    return out


def _args(fn: ast.FunctionDef, want: List[str], where: str):
    got = [a.arg for a in fn.args.args]
    if got != want or fn.args.vararg or fn.args.kwarg or fn.args.kwonlyargs:
        raise ValueError(f"{where}: parameters are {got}")


def _ret_bool(e: ast.AST, where: str) -> str:
    """the value returned by the loopback branch"""
    if isinstance(e, ast.Constant) and isinstance(e.value, bool):
        return f"(PProg.retConst {'true' if e.value else 'false'})"
    if (isinstance(e, ast.Call) and ast.unparse(e.func) in ("any", "all") and len(e.args) == 1 and not e.keywords
            and isinstance(e.args[0], ast.GeneratorExp) and len(e.args[0].generators) == 1):
        g = e.args[0].generators[0]
        v = ast.unparse(g.target)
        if not g.ifs and not g.is_async and ast.unparse(g.iter) == NICS and ast.unparse(e.args[0].elt) == f"{v}.enabled":
            return "PProg.retAnyEnabled" if ast.unparse(e.func) == "any" else "PProg.retAllEnabled"
    raise ValueError(f"{where}: loopback answer not in the table: {ast.unparse(e)[:100]}")


def _ping(fn: ast.FunctionDef) -> str:
    W = "ICMP.ping"
    _args(fn, ["self", "target_ip_address", "pings"], W)

    def blk(stmts: List[ast.stmt]) -> str:
        stmts = _code(stmts)
        if not stmts:
            raise ValueError(f"{W}: fell off the end")
        s, rest = stmts[0], stmts[1:]
        t = ast.unparse(s)
        if isinstance(s, ast.If) and not s.orelse:
            tt, body = ast.unparse(s.test), _code(s.body)
            if tt == "not self._can_perform_action()" and [ast.unparse(x) for x in body] == ["return False"]:
                return f"(PProg.guardCanPerform {blk(rest)})"
            if tt == "target_ip_address.is_loopback" and len(body) == 1 and isinstance(body[0], ast.Return) and body[0].value is not None:
                return f"(PProg.ifLoopback {_ret_bool(body[0].value, W)} {blk(rest)})"
        if t == "sequence, identifier = (0, None)":
            return f"(PProg.initSeq {blk(rest)})"
        if isinstance(s, ast.While) and not s.orelse and ast.unparse(s.test) == "sequence < pings":
            b = [ast.unparse(x) for x in _code(s.body)]
            if b == ["sequence, identifier = self._send_icmp_echo_request(target_ip_address, sequence, identifier, pings)"]:
                return f"(PProg.whileSend {blk(rest)})"
        if t == "request_replies = self.software_manager.icmp.request_replies.get(identifier)":
            return f"(PProg.readReplies {blk(rest)})"
        if (isinstance(s, ast.Assign) and ast.unparse(s.targets[0]) == "passed" and isinstance(s.value, ast.Compare) and len(s.value.ops) == 1
                and type(s.value.ops[0]) in CMP and ast.unparse(s.value.left) == "request_replies" and ast.unparse(s.value.comparators[0]) == "pings"):
            return f"(PProg.setPassed {CMP[type(s.value.ops[0])]} {blk(rest)})"
        if isinstance(s, ast.If) and ast.unparse(s.test) == "request_replies" \
                and [ast.unparse(x) for x in _code(s.body)] == ["self.software_manager.icmp.request_replies.pop(identifier)"] \
                and [ast.unparse(x) for x in _code(s.orelse)] == ["request_replies = 0"]:
            return f"(PProg.popCounter {blk(rest)})"
        if t == "return passed" and not rest:
            return "PProg.retPassed"
        raise ValueError(f"{W}: statement not in the translation table: {t[:120]}")
    return blk(list(fn.body))


def _send(fn: ast.FunctionDef) -> str:
    W = "ICMP._send_icmp_echo_request"
    _args(fn, ["self", "target_ip_address", "sequence", "identifier", "pings"], W)
    handover = (f"{SM}.receive_payload_from_software_manager(payload=payload, dst_ip_address=target_ip_address, dst_port=self.port, "
                "ip_protocol=self.protocol, icmp_packet=icmp_packet)")

    def blk(stmts: List[ast.stmt], nic: bool) -> str:
        stmts = _code(stmts)
        if not stmts:
            raise ValueError(f"{W}: fell off the end")
        s, rest = stmts[0], stmts[1:]
        t = ast.unparse(s)
        if t == f"network_interface = {SM}.resolve_outbound_network_interface(target_ip_address)":
            return f"(SProg.resolveNic {blk(rest, True)})"
        if isinstance(s, ast.If) and not s.orelse and ast.unparse(s.test) == "not network_interface" and nic:
            return f"(SProg.ifNoNic {blk(list(s.body), nic)} {blk(rest, nic)})"
        if t == "return (pings, None)" and not rest:
            return "SProg.retPingsNone"
        if t == "sequence += 1":
            return f"(SProg.incSeq {blk(rest, nic)})"
        if t == "icmp_packet = ICMPPacket(identifier=identifier, sequence=sequence)":
            return f"(SProg.mkRequest {blk(rest, nic)})"
        if t == handover:
            return f"(SProg.handOver {blk(rest, nic)})"
        if t == "return (sequence, icmp_packet.identifier)" and not rest:
            return "SProg.retSeqIdent"
        raise ValueError(f"{W}: statement not in the translation table: {t[:120]}")
    return blk(list(fn.body), False)


def _process(cls: str, fn: ast.FunctionDef) -> str:
    W = f"{cls}._process_icmp_echo_request"
    _args(fn, ["self", "frame", "from_network_interface"], W)
    handover = (f"{SM}.receive_payload_from_software_manager(payload=payload, dst_ip_address=frame.ip.src_ip_address, dst_port=self.port, "
                "ip_protocol=self.protocol, icmp_packet=icmp_packet)")
    reply = ("icmp_packet = ICMPPacket(icmp_type=ICMPType.ECHO_REPLY, icmp_code=0, identifier=frame.icmp.identifier, "
             "sequence=frame.icmp.sequence + 1)")

    def blk(stmts: List[ast.stmt], nic: bool, pkt: bool) -> str:
        stmts = _code(stmts)
        if not stmts:
            return "EProg.done"
        s, rest = stmts[0], stmts[1:]
        t = ast.unparse(s)
        if isinstance(s, ast.If) and not s.orelse and [ast.unparse(x) for x in _code(s.body)] == ["return"]:
            tt = ast.unparse(s.test)
            if tt == "frame.ip.dst_ip_address != from_network_interface.ip_address":
                return f"(EProg.ifDstNotArrivalIp {blk(rest, nic, pkt)})"
            if tt == "not from_network_interface.enabled":
                return f"(EProg.ifArrivalDisabled {blk(rest, nic, pkt)})"
            if tt == "not network_interface" and nic:
                return f"(EProg.ifNoNic {blk(rest, nic, pkt)})"
        if t == f"network_interface = {SM}.resolve_outbound_network_interface(frame.ip.src_ip_address)":
            return f"(EProg.resolveSrc {blk(rest, True, pkt)})"
        if t == reply:
            return f"(EProg.mkReply {blk(rest, nic, True)})"
        if t == handover and pkt:
            return f"(EProg.handOverSrc {blk(rest, nic, pkt)})"
        raise ValueError(f"{W}: statement not in the translation table: {t[:120]}")
    return blk(list(fn.body), False, False)


def _dispatch(cls: str, fn: ast.FunctionDef, guards: List[str]) -> None:
    """`receive`: after the listed guards (in this order, nothing else but plain assignments from kwargs) an ECHO_REQUEST goes to
    `_process_icmp_echo_request(frame, from_network_interface)` and an ECHO_REPLY to `_process_icmp_echo_reply(frame)`."""
    W = f"{cls}.receive"
    body = _code(fn.body)
    seen = []
    disp = None
    for s in body:
        t = ast.unparse(s)
        if t in ("frame: Frame = kwargs['frame']", "from_network_interface = kwargs['from_network_interface']", "return True"):
            continue
        if isinstance(s, ast.If) and ast.unparse(s.test) == "frame.icmp.icmp_type == ICMPType.ECHO_REQUEST":
            disp = s
            continue
        if isinstance(s, ast.If) and disp is None:
            seen.append(t)
            continue
        raise ValueError(f"{W}: statement not in the translation table: {t[:120]}")
    if seen != guards:
        raise ValueError(f"{W}: guards are {seen}")
    if disp is None or [ast.unparse(x) for x in _code(disp.body)] != ["self._process_icmp_echo_request(frame, from_network_interface)"] \
            or len(disp.orelse) != 1 or not isinstance(disp.orelse[0], ast.If) or disp.orelse[0].orelse \
            or ast.unparse(disp.orelse[0].test) != "frame.icmp.icmp_type == ICMPType.ECHO_REPLY" \
            or [ast.unparse(x) for x in _code(disp.orelse[0].body)] != ["self._process_icmp_echo_reply(frame)"]:
        raise ValueError(f"{W}: dispatch on the ICMP type not recognised")


HOST_GUARDS = [
    "if not super().receive(payload=payload, session_id=session_id, **kwargs):\n    return False",
    "if not frame.icmp:\n    return False",
]
ROUTER_GUARDS = [
    "if not self._can_perform_action():\n    return False",
    "if not frame.icmp:\n    return False",
    "if not self.router.ip_is_router_interface(frame.ip.dst_ip_address):\n"
    "    self.router.process_frame(frame=frame, from_network_interface=from_network_interface)\n    return True",
    "if not self.router.ip_is_router_interface(frame.ip.dst_ip_address, enabled_only=True):\n    return False",
]


def emit() -> str:
    icmp = class_def(parse(ICMPF), "ICMP")
    ricmp = class_def(parse(ROUTER), "RouterICMP")
    if [ast.unparse(b) for b in ricmp.bases] != ["ICMP"]:
        raise ValueError(f"RouterICMP bases are {[ast.unparse(b) for b in ricmp.bases]}")
    over = sorted(n.name for n in ricmp.body if isinstance(n, ast.FunctionDef))
    if over != ["_process_icmp_echo_request", "receive"]:
        raise ValueError(f"RouterICMP overrides {over} (the model assumes it shares ping / _send_icmp_echo_request / the reply counter)")
    _dispatch("ICMP", find_method(icmp, "receive"), HOST_GUARDS)
    _dispatch("RouterICMP", find_method(ricmp, "receive"), ROUTER_GUARDS)
    ping = _ping(find_method(icmp, "ping"))
    send = _send(find_method(icmp, "_send_icmp_echo_request"))
    hp = _process("ICMP", find_method(icmp, "_process_icmp_echo_request"))
    rp = _process("RouterICMP", find_method(ricmp, "_process_icmp_echo_request"))
    return f"""namespace Primaite.Gen.ForwardIcmp
/-- the comparison in `passed = request_replies <op> pings` -/
inductive Cmp | eq | ge | le | ne | gt | lt
deriving DecidableEq, Repr
/-- `ICMP.ping`: `guardCanPerform` = `if not self._can_perform_action(): return False`; `ifLoopback r` = `if target.is_loopback: return r`
(`retAnyEnabled` = `any(nic.enabled for nic in node.network_interfaces.values())`); `initSeq` = `sequence, identifier = 0, None`;
`whileSend` = `while sequence < pings: sequence, identifier = self._send_icmp_echo_request(target, sequence, identifier, pings)`;
`readReplies` = `request_replies = icmp.request_replies.get(identifier)`; `setPassed op` = `passed = request_replies op pings`;
`popCounter` = `if request_replies: pop(identifier) else: request_replies = 0`; `retPassed` = `return passed` -/
inductive PProg | guardCanPerform (k : PProg) | ifLoopback (r k : PProg) | retConst (b : Bool) | retAnyEnabled | retAllEnabled
  | initSeq (k : PProg) | whileSend (k : PProg) | readReplies (k : PProg) | setPassed (op : Cmp) (k : PProg) | popCounter (k : PProg) | retPassed
deriving DecidableEq, Repr
/-- `ICMP._send_icmp_echo_request`: `resolveNic` = `network_interface = session_manager.resolve_outbound_network_interface(target)`;
`ifNoNic a b` = `if not network_interface: a` then `b`; `retPingsNone` = `return pings, None`; `incSeq` = `sequence += 1`;
`mkRequest` = `icmp_packet = ICMPPacket(identifier=identifier, sequence=sequence)` (an echo request; a None identifier is drawn afresh);
`handOver` = `session_manager.receive_payload_from_software_manager(dst_ip_address=target, icmp_packet=icmp_packet, …)`;
`retSeqIdent` = `return sequence, icmp_packet.identifier` -/
inductive SProg | resolveNic (k : SProg) | ifNoNic (a b : SProg) | retPingsNone | incSeq (k : SProg) | mkRequest (k : SProg)
  | handOver (k : SProg) | retSeqIdent
deriving DecidableEq, Repr
/-- `_process_icmp_echo_request`: `ifDstNotArrivalIp` = `if frame.ip.dst_ip_address != from_network_interface.ip_address: return`;
`ifOwnDisabled` = RouterICMP.receive's `if not router.ip_is_router_interface(dst, enabled_only=True): return False` (reached only when
some interface carries the address); `resolveSrc` = `network_interface = resolve_outbound_network_interface(frame.ip.src_ip_address)`;
`ifNoNic` = `if not network_interface: return`; `mkReply` = `ICMPPacket(ECHO_REPLY, identifier=frame.icmp.identifier, …)`;
`handOverSrc` = `receive_payload_from_software_manager(dst_ip_address=frame.ip.src_ip_address, icmp_packet=icmp_packet, …)` -/
inductive EProg | ifDstNotArrivalIp (k : EProg) | ifArrivalDisabled (k : EProg) | ifOwnDisabled (k : EProg) | resolveSrc (k : EProg)
  | ifNoNic (k : EProg) | mkReply (k : EProg) | handOverSrc (k : EProg) | done
deriving DecidableEq, Repr
/-- ICMP.ping, translated -/
def ping : PProg :=
  {ping}
/-- ICMP._send_icmp_echo_request, translated -/
def sendEcho : SProg :=
  {send}
/-- ICMP._process_icmp_echo_request (hosts), translated -/
def hostProcessEcho : EProg :=
  {hp}
/-- RouterICMP.receive's enabled-own-address guard followed by RouterICMP._process_icmp_echo_request, translated -/
def routerProcessEcho : EProg :=
  (EProg.ifOwnDisabled {rp})
/-- RouterICMP overrides exactly `_process_icmp_echo_request` and `receive`: `ping`, `_send_icmp_echo_request` and the reply counter are ICMP's -/
def routerIcmpOverrides : List String := {str(over).replace("'", '"')}
end Primaite.Gen.ForwardIcmp
"""


if __name__ == "__main__":
    print(emit())
