"""E8/E3 for the ACL: constants and bounds of AccessControlList, read from the source with `ast`."""
import ast

GEN_NAME = "Acl"
EXTRA_GEN = {"AclMatch": "emit_match"}

from harness.extract.util import class_def, find_method, parse, src_of


def _bound_of(fn: ast.FunctionDef) -> str:
    """`if 0 <= position < BOUND:` → Lean expression of BOUND over `maxAclRules` / `slots`."""
    for node in ast.walk(fn):
        if isinstance(node, ast.If) and isinstance(node.test, ast.Compare) and len(node.test.ops) == 2:
            t = node.test
            if (isinstance(t.left, ast.Constant) and t.left.value == 0 and isinstance(t.ops[0], ast.LtE)
                    and isinstance(t.ops[1], ast.Lt) and ast.unparse(t.comparators[0]) == "position"):
                return _expr(t.comparators[1])
    raise ValueError(f"no `0 <= position < bound` test in {fn.name}")


def _expr(e: ast.AST) -> str:
    s = ast.unparse(e)
    if s == "self.max_acl_rules":
        return "maxAclRules"
    if s == "len(self._acl)":
        return "slots"
    if isinstance(e, ast.BinOp) and isinstance(e.op, (ast.Sub, ast.Add)):
        return f"({_expr(e.left)} {'-' if isinstance(e.op, ast.Sub) else '+'} {_expr(e.right)})"
    if isinstance(e, ast.Constant) and isinstance(e.value, int):
        return str(e.value)
    raise ValueError(f"unrecognised bound expression {s}")


def emit() -> str:
    tree = parse("simulator/network/hardware/nodes/network/router.py")
    acl = class_def(tree, "AccessControlList")
    max_rules = None
    for st in acl.body:
        if isinstance(st, ast.AnnAssign) and ast.unparse(st.target) == "max_acl_rules":
            max_rules = st.value.value
    if not isinstance(max_rules, int):
        raise ValueError("max_acl_rules default not an int literal")
    init = find_method(acl, "__init__")
    slots = None
    for node in ast.walk(init):
        if isinstance(node, ast.Assign) and ast.unparse(node.targets[0]) == "self._acl":
            v = node.value
            if (isinstance(v, ast.BinOp) and isinstance(v.op, ast.Mult) and ast.unparse(v.left) == "[None]"):
                slots = _expr(v.right)
    if slots is None:
        raise ValueError("self._acl = [None] * n not found in __init__")
    add_b = _bound_of(find_method(acl, "add_rule"))
    rem_b = _bound_of(find_method(acl, "remove_rule"))
    # is_permitted: the scan must leave the loop at the first match
    isp = find_method(acl, "is_permitted")
    loop = next(n for n in ast.walk(isp) if isinstance(n, ast.For))
    has_break = any(isinstance(n, ast.Break) for n in ast.walk(loop))
    iter_src = ast.unparse(loop.iter)
    return f"""namespace Primaite.Gen.Acl
def maxAclRules : Nat := {max_rules}
def slots : Nat := {slots}
/-- `add_rule` accepts `0 <= position < addBound` -/
def addBound : Nat := {add_b}
/-- `remove_rule` accepts `0 <= position < removeBound` -/
def removeBound : Nat := {rem_b}
/-- `is_permitted` iterates `{iter_src}` and leaves the loop at the first match -/
def scanIsForward : Bool := {"true" if iter_src == "self._acl" else "false"}
def scanBreaksAtFirstMatch : Bool := {"true" if has_break else "false"}
end Primaite.Gen.Acl
"""


def emit_match() -> str:
    """E3: `ip_matches_masked_range` and `ACLRule.permit_frame_check` translated statement by statement."""
    from harness.extract.pyexpr import translate_imperative
    from harness.extract.util import find_function
    tree = parse("simulator/network/hardware/nodes/network/router.py")
    f1 = find_function(tree, "ip_matches_masked_range")
    ipm = translate_imperative(f1, "ipMatchesMaskedRange", "(ip_to_check base_ip wildcard_mask : BitVec 32)",
                               {"ip_to_check": ("ip_to_check", "bv"), "base_ip": ("base_ip", "bv"), "wildcard_mask": ("wildcard_mask", "bv")},
                               "Bool")
    rule = class_def(tree, "ACLRule")
    f2 = find_method(rule, "permit_frame_check")
    env = {
        "True": ("true", "bool"), "False": ("false", "bool"),
        "self.protocol": ("r.proto", "opt"), "frame.ip.protocol": ("f.proto", "proto"),
        "self.src_ip_address": ("r.srcIp", "opt_ip"), "self.src_wildcard_mask": ("r.srcWc", "opt_ip"),
        "self.dst_ip_address": ("r.dstIp", "opt_ip"), "self.dst_wildcard_mask": ("r.dstWc", "opt_ip"),
        "frame.ip.src_ip_address": ("f.srcIp", "ip"), "frame.ip.dst_ip_address": ("f.dstIp", "ip"),
        "self.src_port": ("r.srcPort", "optnat"), "self.dst_port": ("r.dstPort", "optnat"),
        "frame.tcp": ("f.tcp", "opt"), "frame.udp": ("f.udp", "opt"),
        "frame.tcp.src_port": ("(f.tcp.map Prod.fst)", "optnat"), "frame.tcp.dst_port": ("(f.tcp.map Prod.snd)", "optnat"),
        "frame.udp.src_port": ("(f.udp.map Prod.fst)", "optnat"), "frame.udp.dst_port": ("(f.udp.map Prod.snd)", "optnat"),
        "self.action": ("r.action", "action"), "ACLAction.PERMIT": ("Primaite.Acl.Action.permit", "action"),
        "call:ip_matches_masked_range": ("ipMatchesMaskedRange", "ip_to_check,base_ip,wildcard_mask"),
    }
    pfc = translate_imperative(f2, "permitFrameCheck", "(r : Primaite.Acl.Rule) (f : FrameView)", env, "Bool × Bool")
    return f"""import PrimaiteModel.Model.Acl
namespace Primaite.Gen.AclMatch
/-- what `permit_frame_check` reads from a frame -/
structure FrameView where
  proto : Primaite.Acl.Proto
  srcIp : BitVec 32
  dstIp : BitVec 32
  tcp : Option (Nat × Nat)
  udp : Option (Nat × Nat)
/-- `ip_matches_masked_range`, translated statement by statement -/
{ipm}
/-- `ACLRule.permit_frame_check`, translated statement by statement (Python truthiness by declared type) -/
{pfc}
end Primaite.Gen.AclMatch
"""
