"""E8/E3 for the ACL: constants and bounds of AccessControlList, read from the source with `ast`."""
import ast
import re

GEN_NAME = "Acl"
EXTRA_GEN = {"AclMatch": "emit_match", "AclState": "emit_state"}

from harness.extract.util import class_def, find_method, parse, src_of
from harness.lib.core import SRC


def _bound_of(fn: ast.FunctionDef) -> str:
    """`if 0 <= position < BOUND:` → Lean expression of BOUND over `maxAclRules` / `slots`."""
    for node in ast.walk(fn):
        if isinstance(node, ast.If) and isinstance(node.test, ast.Compare) and len(node.test.ops) == 2:
            t = node.test
            if (isinstance(t.left, ast.Constant) and t.left.value == 0 and isinstance(t.ops[0], ast.LtE)
                    and isinstance(t.ops[1], ast.Lt) and ast.unparse(t.comparators[0]) == "position"):
                return _expr(t.comparators[1])
    raise ValueError(f"no `0 <= position < bound` test in {fn.name}")


def _expr(e: ast.AST) -> str:
    s = ast.unparse(e)
    if s == "self.max_acl_rules":
        return "maxAclRules"
    if s == "len(self._acl)":
        return "slots"
    if isinstance(e, ast.BinOp) and isinstance(e.op, (ast.Sub, ast.Add)):
        return f"({_expr(e.left)} {'-' if isinstance(e.op, ast.Sub) else '+'} {_expr(e.right)})"
    if isinstance(e, ast.Constant) and isinstance(e.value, int):
        return str(e.value)
    raise ValueError(f"unrecognised bound expression {s}")


def emit() -> str:
    tree = parse("simulator/network/hardware/nodes/network/router.py")
    acl = class_def(tree, "AccessControlList")
    max_rules = None
    for st in acl.body:
        if isinstance(st, ast.AnnAssign) and ast.unparse(st.target) == "max_acl_rules":
            max_rules = st.value.value
    if not isinstance(max_rules, int):
        raise ValueError("max_acl_rules default not an int literal")
    init = find_method(acl, "__init__")
    slots = None
    for node in ast.walk(init):
        if isinstance(node, ast.Assign) and ast.unparse(node.targets[0]) == "self._acl":
            v = node.value
            if (isinstance(v, ast.BinOp) and isinstance(v.op, ast.Mult) and ast.unparse(v.left) == "[None]"):
                slots = _expr(v.right)
    if slots is None:
        raise ValueError("self._acl = [None] * n not found in __init__")
    add_b = _bound_of(find_method(acl, "add_rule"))
    rem_b = _bound_of(find_method(acl, "remove_rule"))
    # is_permitted: the scan must leave the loop at the first match
    isp = find_method(acl, "is_permitted")
    loop = next(n for n in ast.walk(isp) if isinstance(n, ast.For))
    has_break = any(isinstance(n, ast.Break) for n in ast.walk(loop))
    iter_src = ast.unparse(loop.iter)
    return f"""namespace Primaite.Gen.Acl
def maxAclRules : Nat := {max_rules}
def slots : Nat := {slots}
/-- `add_rule` accepts `0 <= position < addBound` -/
def addBound : Nat := {add_b}
/-- `remove_rule` accepts `0 <= position < removeBound` -/
def removeBound : Nat := {rem_b}
/-- `is_permitted` iterates `{iter_src}` and leaves the loop at the first match -/
def scanIsForward : Bool := {"true" if iter_src == "self._acl" else "false"}
def scanBreaksAtFirstMatch : Bool := {"true" if has_break else "false"}
end Primaite.Gen.Acl
"""


def emit_match() -> str:
    """E3: `ip_matches_masked_range` and `ACLRule.permit_frame_check` translated statement by statement."""
    from harness.extract.pyexpr import translate_imperative
    from harness.extract.util import find_function
    tree = parse("simulator/network/hardware/nodes/network/router.py")
    f1 = find_function(tree, "ip_matches_masked_range")
    ipm = translate_imperative(f1, "ipMatchesMaskedRange", "(ip_to_check base_ip wildcard_mask : BitVec 32)",
                               {"ip_to_check": ("ip_to_check", "bv"), "base_ip": ("base_ip", "bv"), "wildcard_mask": ("wildcard_mask", "bv")},
                               "Bool")
    rule = class_def(tree, "ACLRule")
    f2 = find_method(rule, "permit_frame_check")
    env = {
        "True": ("true", "bool"), "False": ("false", "bool"),
        "self.protocol": ("r.proto", "opt"), "frame.ip.protocol": ("f.proto", "proto"),
        "self.src_ip_address": ("r.srcIp", "opt_ip"), "self.src_wildcard_mask": ("r.srcWc", "opt_ip"),
        "self.dst_ip_address": ("r.dstIp", "opt_ip"), "self.dst_wildcard_mask": ("r.dstWc", "opt_ip"),
        "frame.ip.src_ip_address": ("f.srcIp", "ip"), "frame.ip.dst_ip_address": ("f.dstIp", "ip"),
        "self.src_port": ("r.srcPort", "optnat"), "self.dst_port": ("r.dstPort", "optnat"),
        "frame.tcp": ("f.tcp", "opt"), "frame.udp": ("f.udp", "opt"),
        "frame.tcp.src_port": ("(f.tcp.map Prod.fst)", "optnat"), "frame.tcp.dst_port": ("(f.tcp.map Prod.snd)", "optnat"),
        "frame.udp.src_port": ("(f.udp.map Prod.fst)", "optnat"), "frame.udp.dst_port": ("(f.udp.map Prod.snd)", "optnat"),
        "self.action": ("r.action", "action"), "ACLAction.PERMIT": ("Primaite.Acl.Action.permit", "action"),
        "call:ip_matches_masked_range": ("ipMatchesMaskedRange", "ip_to_check,base_ip,wildcard_mask"),
    }
    pfc = translate_imperative(f2, "permitFrameCheck", "(r : Primaite.Acl.Rule) (f : FrameView)", env, "Bool × Bool")
    return f"""import PrimaiteModel.Model.Acl
namespace Primaite.Gen.AclMatch
/-- what `permit_frame_check` reads from a frame -/
structure FrameView where
  proto : Primaite.Acl.Proto
  srcIp : BitVec 32
  dstIp : BitVec 32
  tcp : Option (Nat × Nat)
  udp : Option (Nat × Nat)
/-- `ip_matches_masked_range`, translated statement by statement -/
{ipm}
/-- `ACLRule.permit_frame_check`, translated statement by statement (Python truthiness by declared type) -/
{pfc}
end Primaite.Gen.AclMatch
"""


# =============================================================================================== round 3: AclState
# Everything the list carries besides its rules, and who reads it: `__init__`, `is_permitted` (translated into a Lean
# function), `describe_state` / `show` / `num_rules` readers, the keyword plumbing of `add_rule`, the positional layout
# of the request handler and of the four agent actions, the seven `from_config` blocks, the firewall's default
# factories, `Router._set_default_acl`, `Router.subject_to_acl`, `Frame.__init__` / `Frame.is_arp`.
ROUTER = "simulator/network/hardware/nodes/network/router.py"
FIREWALL = "simulator/network/hardware/nodes/network/firewall.py"
FRAME = "simulator/network/transmission/data_link_layer.py"
ACTIONS = "game/agent/actions/acl.py"


class Shape(ValueError):
    pass


def _need(cond: bool, what: str):
    if not cond:
        raise Shape(what)


def _body(fn: ast.FunctionDef):
    return [b for b in fn.body if not (isinstance(b, ast.Expr) and isinstance(b.value, ast.Constant) and isinstance(b.value.value, str))]


def _u(n: ast.AST) -> str:
    return ast.unparse(n)


def _lean_str(x: str) -> str:
    return '"' + x.replace("\\", "\\\\").replace('"', '\\"') + '"'


def _lean_list(items, f=lambda x: x) -> str:
    return "[" + ", ".join(f(i) for i in items) + "]"


def _is_permitted_lean(acl: ast.ClassDef) -> str:
    """`AccessControlList.is_permitted`, translated: the free expressions (loop iterable, the three tests, the
    fall-through verdict and decider, the increment) come from the source; the skeleton (a `for` with one `continue`
    guard, one call of `permit_frame_check`, one `break` guard; then one fall-through `if`; then one increment; then the
    return of the two locals) is checked statement by statement and anything else is rejected."""
    from harness.extract.pyexpr import expr, truthy
    fn = find_method(acl, "is_permitted")
    _need([a.arg for a in fn.args.args] == ["self", "frame"], "is_permitted(self, frame)")
    b = _body(fn)
    _need(len(b) == 6, f"is_permitted has {len(b)} statements, expected 6")
    init_p, init_r, loop, fall, bump, ret = b
    _need(isinstance(init_p, ast.Assign) and _u(init_p) == "permitted = False", "permitted = False")
    _need(isinstance(init_r, (ast.Assign, ast.AnnAssign)) and _u(init_r.targets[0] if isinstance(init_r, ast.Assign) else init_r.target) == "rule"
          and _u(init_r.value) == "None", "rule = None")
    _need(isinstance(loop, ast.For) and isinstance(loop.target, ast.Name) and not loop.orelse, "for <var> in <iter>:")
    var = loop.target.id
    iter_env = {"self._acl": "a.core.rules", "self.acl": "a.core.rules"}
    _need(_u(loop.iter) in iter_env, f"loop iterates {_u(loop.iter)!r}, not the slots in position order")
    it = iter_env[_u(loop.iter)]
    lb = loop.body
    _need(len(lb) == 3, "loop body of three statements")
    skip, call, hit = lb
    env_loop = {var: ("slot_", "opt"), "rule_match": ("rule_match", "bool")}
    _need(isinstance(skip, ast.If) and not skip.orelse and len(skip.body) == 1 and isinstance(skip.body[0], ast.Continue),
          "if <test>: continue")
    skip_test = truthy(skip.test, env_loop)
    _need(isinstance(call, ast.Assign) and _u(call.targets[0]) == "(permitted, rule_match)"
          and _u(call.value) == f"{var}.permit_frame_check(frame)", "permitted, rule_match = <var>.permit_frame_check(frame)")
    _need(isinstance(hit, ast.If) and not hit.orelse and len(hit.body) == 2 and _u(hit.body[0]) == f"rule = {var}"
          and isinstance(hit.body[1], ast.Break), "if <test>: rule = <var>; break")
    hit_test = truthy(hit.test, env_loop)
    env_after = {"rule": ("rule_1", "opt"), "self.implicit_action": ("a.core.implicit", "action"),
                 "self.implicit_rule.action": ("a.ruleAction", "action"),
                 "ACLAction.PERMIT": ("Primaite.Acl.Action.permit", "action"), "ACLAction.DENY": ("Primaite.Acl.Action.deny", "action"),
                 "True": ("true", "bool"), "False": ("false", "bool")}
    _need(isinstance(fall, ast.If) and not fall.orelse and len(fall.body) == 2, "if <test>: permitted = …; rule = …")
    fall_test = truthy(fall.test, env_after)
    fp, fr = fall.body
    _need(isinstance(fp, ast.Assign) and _u(fp.targets[0]) == "permitted", "fall-through assigns permitted")
    fall_permitted = expr(fp.value, env_after)[0]
    _need(isinstance(fr, ast.Assign) and _u(fr.targets[0]) == "rule" and _u(fr.value) == "self.implicit_rule",
          f"fall-through decider is {_u(fr.value) if isinstance(fr, ast.Assign) else '?'}, not self.implicit_rule")
    _need(isinstance(bump, ast.AugAssign) and isinstance(bump.op, ast.Add) and _u(bump.target) == "rule.match_count"
          and isinstance(bump.value, ast.Constant) and isinstance(bump.value.value, int), "rule.match_count += <int>")
    inc = bump.value.value
    _need(isinstance(ret, ast.Return) and _u(ret.value) == "(permitted, rule)", "return permitted, rule")
    return f"""/-- the `for` loop of `is_permitted`; loop state = the locals `(permitted, rule)` -/
def scan (f : Primaite.Gen.AclMatch.FrameView) : List (Option Rule) → Nat → Bool × Option Decider → Bool × Option Decider
  | [], _, st => st
  | slot_ :: rest, i, (permitted, rule) =>
    if {skip_test} then scan f rest (i + 1) (permitted, rule)  -- continue
    else
      match slot_ with
      | none => scan f rest (i + 1) (permitted, rule)
      | some r_ =>
        let (permitted', rule_match) := Primaite.Gen.AclMatch.permitFrameCheck r_ f
        if {hit_test} then (permitted', some (Decider.rule i))  -- rule = {var}; break
        else scan f rest (i + 1) (permitted', rule)

/-- `rule.match_count += {inc}` on whichever object `rule` names -/
def bumpRef (a : AclObj) : Decider → AclObj
  | .rule i => {{ a with core := {{ a.core with rules := a.core.rules.modify i (fun o => o.map (fun r => {{ r with hits := r.hits + {inc} }})) }} }}
  | .implicit => {{ a with core := {{ a.core with implicitHits := a.core.implicitHits + {inc} }} }}

/-- `AccessControlList.is_permitted`, translated (loop over `{_u(loop.iter)}`) -/
def isPermitted (a : AclObj) (f : Primaite.Gen.AclMatch.FrameView) : Bool × Decider × AclObj :=
  let st := scan f {it} 0 (false, none)
  let permitted_1 := st.1
  let rule_1 := st.2
  if {fall_test} then
    let permitted_2 := {fall_permitted}
    let rule_2 := Decider.implicit  -- {_u(fr.value)}
    (permitted_2, rule_2, bumpRef a rule_2)
  else
    match rule_1 with
    | some rule_2 => (permitted_1, rule_2, bumpRef a rule_2)
    | none => (permitted_1, Decider.implicit, a)
def fallThroughReads : String := {_lean_str(_u(fp.value))}
"""


def _ctor_lean(acl: ast.ClassDef) -> str:
    init = find_method(acl, "__init__")
    b = _body(init)
    _need(len(b) == 4, "__init__ of four statements")
    dflt, irule, sup, slots = b
    _need(isinstance(dflt, ast.If) and not dflt.orelse and _u(dflt.test) == "not kwargs.get('implicit_action')" and len(dflt.body) == 1
          and isinstance(dflt.body[0], ast.Assign) and _u(dflt.body[0].targets[0]) == "kwargs['implicit_action']"
          and _u(dflt.body[0].value) in ("ACLAction.DENY", "ACLAction.PERMIT"), "default of implicit_action")
    default = "deny" if _u(dflt.body[0].value) == "ACLAction.DENY" else "permit"
    _need(isinstance(irule, ast.Assign) and _u(irule.targets[0]) == "kwargs['implicit_rule']" and isinstance(irule.value, ast.Call)
          and _u(irule.value.func) == "ACLRule" and not irule.value.args, "kwargs['implicit_rule'] = ACLRule(…)")
    kws = {k.arg: _u(k.value) for k in irule.value.keywords}
    _need(_u(sup) == "super().__init__(**kwargs)", "super().__init__(**kwargs)")
    _need(isinstance(slots, ast.Assign) and _u(slots.targets[0]) == "self._acl" and isinstance(slots.value, ast.BinOp)
          and isinstance(slots.value.op, ast.Mult) and _u(slots.value.left) == "[None]", "self._acl = [None] * n")
    n = slots.value.right
    _need(isinstance(n, ast.BinOp) and isinstance(n.op, ast.Sub) and _u(n.left) == "self.max_acl_rules" and isinstance(n.right, ast.Constant)
          and isinstance(n.right.value, int), "slot count max_acl_rules - k")
    max_rules = None
    for st in acl.body:
        if isinstance(st, ast.AnnAssign) and _u(st.target) == "max_acl_rules":
            max_rules = st.value.value
    _need(isinstance(max_rules, int), "max_acl_rules default literal")
    return f"""/-- `__init__`: `if not kwargs.get("implicit_action"): kwargs["implicit_action"] = …` -/
def ctorDefaultImplicit : Action := .{default}
/-- keyword arguments of the `ACLRule(…)` built as `implicit_rule` -/
def ctorImplicitRuleKwargs : List (String × String) := {_lean_list(sorted(kws.items()), lambda kv: f"({_lean_str(kv[0])}, {_lean_str(kv[1])})")}
/-- `self._acl = [None] * (self.max_acl_rules - {n.right.value})` -/
def ctorSlots (maxRules : Int) : Nat := (maxRules - {n.right.value}).toNat
def classMaxAclRules : Int := {max_rules}
"""


def _readers_lean(acl: ast.ClassDef) -> str:
    ds = find_method(acl, "describe_state")
    reads = []
    for st in _body(ds):
        if isinstance(st, ast.Assign) and isinstance(st.targets[0], ast.Subscript) and _u(st.targets[0].value) == "state":
            key = st.targets[0].slice
            _need(isinstance(key, ast.Constant) and isinstance(key.value, str), "state[<str>] = …")
            reads.append((key.value, _u(st.value)))
        else:
            _need(_u(st) in ("state = super().describe_state()", "return state"), f"describe_state statement {_u(st)[:60]!r}")
    show = find_method(acl, "show")
    loops = [n for n in ast.walk(show) if isinstance(n, ast.For)]
    _need(len(loops) == 1, "show() has one loop")
    nr = find_method(acl, "num_rules")
    nb = _body(nr)
    _need(len(nb) == 1 and isinstance(nb[0], ast.Return), "num_rules is one return")
    return f"""/-- `describe_state()`: key ↦ the expression it stores -/
def describeReads : List (String × String) := {_lean_list(reads, lambda kv: f"({_lean_str(kv[0])}, {_lean_str(kv[1])})")}
/-- `show()` iterates -/
def showIterates : String := {_lean_str(_u(loops[0].iter))}
def numRulesIs : String := {_lean_str(_u(nb[0].value))}
"""


def _add_rule_plumbing(acl: ast.ClassDef) -> str:
    add = find_method(acl, "add_rule")
    params = [a.arg for a in add.args.args if a.arg != "self"]
    stores = [n for n in ast.walk(add) if isinstance(n, ast.Assign) and _u(n.targets[0]) == "self._acl[position]"]
    _need(len(stores) == 1 and isinstance(stores[0].value, ast.Call) and _u(stores[0].value.func) == "ACLRule" and not stores[0].value.args,
          "one `self._acl[position] = ACLRule(…)` in add_rule")
    kws = [(k.arg, _u(k.value)) for k in stores[0].value.keywords]
    # the accepted branch of add_rule: [log if the slot is occupied]; STORE (unconditionally); return True
    guard = next((n for n in ast.walk(add) if isinstance(n, ast.If) and isinstance(n.test, ast.Compare) and len(n.test.ops) == 2
                  and _u(n.test.comparators[0]) == "position"), None)
    _need(guard is not None, "add_rule: `if 0 <= position < bound:`")
    gb = list(guard.body)
    shape = []
    if gb and isinstance(gb[0], ast.If):
        g0 = gb.pop(0)
        _need(_u(g0.test) == "self._acl[position]" and not g0.orelse and len(g0.body) == 1 and isinstance(g0.body[0], ast.Expr)
              and _u(g0.body[0].value).startswith("self.sys_log.info("), "add_rule: the occupied-slot test may only log")
        shape.append("log-if-occupied")
    _need(len(gb) == 2 and gb[0] is stores[0] and _u(gb[1]) == "return True",
          "add_rule: the accepted branch must store the new rule unconditionally and return True")
    shape += ["store", "return True"]
    rem = find_method(acl, "remove_rule")
    rstores = [n for n in ast.walk(rem) if isinstance(n, ast.Assign) and _u(n.targets[0]) == "self._acl[position]"]
    _need(len(rstores) == 1 and _u(rstores[0].value) == "None", "remove_rule stores None at the position")
    # request handler
    irm = find_method(acl, "_init_request_manager")
    handler = next((n for n in ast.walk(irm) if isinstance(n, ast.FunctionDef) and n.name == "_add_rule_action"), None)
    _need(handler is not None, "_add_rule_action")
    calls = [n for n in ast.walk(handler) if isinstance(n, ast.Call) and _u(n.func) == "self.add_rule"]
    _need(len(calls) == 1 and not calls[0].args, "one keyword call of self.add_rule in the request handler")
    layout = []
    for k in calls[0].keywords:
        v = k.value
        sentinel = "-"
        if isinstance(v, ast.IfExp):
            t = v.test
            _need(_u(v.body) == "None" and isinstance(t, ast.Compare) and len(t.ops) == 1 and isinstance(t.ops[0], ast.Eq)
                  and isinstance(t.comparators[0], ast.Constant), f"sentinel test of {k.arg}")
            sentinel = t.comparators[0].value
            idx_a = t.left
            v = v.orelse
        else:
            idx_a = None
        subs = [n for n in ast.walk(v) if isinstance(n, ast.Subscript) and _u(n.value) == "request"]
        _need(len(subs) == 1 and isinstance(subs[0].slice, ast.Constant), f"{k.arg} reads one request[i]")
        idx = subs[0].slice.value
        if idx_a is not None:
            _need(_u(idx_a) == f"request[{idx}]", f"{k.arg}: sentinel tested on another index than the value")
        wrap = _u(v).replace(f"request[{idx}]", "·")
        layout.append((k.arg, idx, sentinel, wrap))
    rh = next((n for n in ast.walk(irm) if isinstance(n, ast.FunctionDef) and n.name == "_remove_rule_action"), None)
    _need(rh is not None, "_remove_rule_action")
    rcalls = [n for n in ast.walk(rh) if isinstance(n, ast.Call) and _u(n.func) == "self.remove_rule"]
    _need(len(rcalls) == 1 and _u(rcalls[0]) == "self.remove_rule(int(request[0]))", "remove handler calls remove_rule(int(request[0]))")
    names = {}
    for n in ast.walk(irm):
        if isinstance(n, ast.Call) and _u(n.func) == "rm.add_request":
            names[_u(n.args[0]).strip("'")] = _u(n.args[1])
    _need(names.get("add_rule") == "RequestType(func=_add_rule_action)" and names.get("remove_rule") == "RequestType(func=_remove_rule_action)",
          "request names add_rule / remove_rule")
    return f"""/-- parameters of `add_rule` -/
def addRuleParams : List String := {_lean_list(params, _lean_str)}
/-- `ACLRule(field=expr, …)` stored by `add_rule` -/
def addRuleStores : List (String × String) := {_lean_list(kws, lambda kv: f"({_lean_str(kv[0])}, {_lean_str(kv[1])})")}
/-- statements of the accepted branch of `add_rule` (the store is not under any condition) -/
def addRuleBranch : List String := {_lean_list(shape, _lean_str)}
/-- request handler `add_rule`: parameter ↦ (index into the request, sentinel that means None, how the value is wrapped) -/
def requestLayout : List (String × Nat × String × String) := {_lean_list(layout, lambda x: f"({_lean_str(x[0])}, {x[1]}, {_lean_str(x[2])}, {_lean_str(x[3])})")}
"""


# ---- round 6: `add_rule` / `remove_rule` translated statement by statement
_RULE_FIELDS = {"action": "action", "protocol": "proto", "src_ip_address": "srcIp", "src_wildcard_mask": "srcWc",
                "dst_ip_address": "dstIp", "dst_wildcard_mask": "dstWc", "src_port": "srcPort", "dst_port": "dstPort"}


def _rule_defaults(tree) -> dict:
    """defaults of the ACLRule fields a constructor call may leave out"""
    rule = class_def(tree, "ACLRule")
    out = {}
    for st in rule.body:
        if isinstance(st, ast.AnnAssign) and isinstance(st.target, ast.Name) and st.value is not None:
            out[st.target.id] = _u(st.value)
    return out


def _slot_value(v: ast.AST, defaults: dict) -> str:
    """right-hand side of `self._acl[position] = …`: `None`, or `ACLRule(field=param, …)` as a Lean `Option Rule` over the
    bundle `r` of add_rule's parameters (a field the call leaves out takes the class default)"""
    if _u(v) == "None":
        return "none"
    _need(isinstance(v, ast.Call) and _u(v.func) == "ACLRule" and not v.args, "slot value is None or ACLRule(keywords)")
    given = {}
    for k in v.keywords:
        _need(k.arg in _RULE_FIELDS, f"ACLRule keyword {k.arg}")
        _need(_u(k.value) in _RULE_FIELDS, f"ACLRule({k.arg}={_u(k.value)}): not a parameter of add_rule")
        given[k.arg] = "r." + _RULE_FIELDS[_u(k.value)]
    parts = []
    for f, lf in _RULE_FIELDS.items():
        if f in given:
            parts.append(f"{lf} := {given[f]}")
        else:
            d = defaults.get(f)
            _need(d in ("None", "ACLAction.DENY", "ACLAction.PERMIT"), f"default of ACLRule.{f}")
            parts.append(f"{lf} := " + {"None": "none", "ACLAction.DENY": "Action.deny", "ACLAction.PERMIT": "Action.permit"}[d])
    _need(defaults.get("match_count") == "0", "ACLRule.match_count default 0")
    return "(some { " + ", ".join(parts) + ", hits := 0 })"


def _slot_stmts(stmts, cur: int, ind: int, defaults: dict) -> str:
    """Statements of the accepted branch, in order.  Every read or write of `self._acl[position]` goes through Python's list
    indexing (`pyIndex`: IndexError beyond the slots); an exception leaves the object as it is at that point."""
    pad = "  " * ind
    _need(bool(stmts), "accepted branch falls off its end")
    s, rest = stmts[0], stmts[1:]
    a = f"a{cur}"
    if isinstance(s, ast.Return):
        _need(_u(s) == "return True", f"accepted branch returns {_u(s)}")
        return f"{pad}({a}, EditOut.ok)"
    if isinstance(s, ast.Delete):
        _need(all(isinstance(t, ast.Name) for t in s.targets), "del of a local name")
        return _slot_stmts(rest, cur, ind, defaults)
    is_read = ((isinstance(s, ast.Assign) and isinstance(s.targets[0], ast.Name) and _u(s.value) == "self._acl[position]")
               or (isinstance(s, ast.If) and _u(s.test) == "self._acl[position]" and not s.orelse and len(s.body) == 1
                   and isinstance(s.body[0], ast.Expr) and _u(s.body[0].value).startswith("self.sys_log.info(")))
    if is_read:
        return (f"{pad}match pyIndex {a}.core.rules.length position with  -- {_u(s).splitlines()[0]}\n"
                f"{pad}| none => ({a}, EditOut.indexError)\n{pad}| some _ =>\n" + _slot_stmts(rest, cur, ind + 1, defaults))
    if isinstance(s, ast.Assign) and _u(s.targets[0]) == "self._acl[position]":
        v = _slot_value(s.value, defaults)
        b = f"a{cur + 1}"
        return (f"{pad}match pyIndex {a}.core.rules.length position with  -- self._acl[position] = …\n"
                f"{pad}| none => ({a}, EditOut.indexError)\n{pad}| some k_ =>\n"
                f"{pad}  let {b} : AclObj := {{ {a} with core := {{ {a}.core with rules := {a}.core.rules.set k_ {v} }} }}\n"
                + _slot_stmts(rest, cur + 1, ind + 1, defaults))
    raise Shape(f"statement in the accepted branch: {_u(s)[:70]!r}")


def _edit_method_lean(acl: ast.ClassDef, tree, name: str, lean_name: str, params: str) -> str:
    from harness.extract.pyexpr import expr
    fn = find_method(acl, name)
    b = _body(fn)
    _need(len(b) == 2 and isinstance(b[0], ast.If) and _u(b[1]) == "return False", f"{name}: if <guard>: … else: raise …; return False")
    g = b[0]
    _need(len(g.orelse) == 1 and isinstance(g.orelse[0], ast.Raise) and _u(g.orelse[0].exc).startswith("ValueError("),
          f"{name}: the refused branch raises ValueError")
    guard = expr(g.test, {"position": ("position", "int"), "self.max_acl_rules": ("a0.maxRules", "int")})[0]
    body = _slot_stmts(list(g.body), 0, 2, _rule_defaults(tree))
    return (f"/-- `AccessControlList.{name}`, translated statement by statement -/\n"
            f"def {lean_name} (a0 : AclObj) {params}(position : Int) : AclObj × EditOut :=\n"
            f"  if {guard} then\n{body}\n  else (a0, EditOut.valueError)  -- raise ValueError\n")


def _edit_methods_lean(acl: ast.ClassDef, tree) -> str:
    return ("""/-- Python list indexing `xs[i]`: 0 ≤ i < len ↦ i; −len ≤ i < 0 ↦ len + i; otherwise IndexError -/
def pyIndex (len : Nat) (i : Int) : Option Nat :=
  if 0 ≤ i then (if i.toNat < len then some i.toNat else none)
  else (if -(len : Int) ≤ i then some (len - (-i).toNat) else none)
"""
            + _edit_method_lean(acl, tree, "add_rule", "addRule", "(r : Rule) ")
            + _edit_method_lean(acl, tree, "remove_rule", "removeRule", ""))


def _actions_lean() -> str:
    tree = parse(ACTIONS)
    out = []
    for cname in ("RouterACLAddRuleAction", "FirewallACLAddRuleAction", "RouterACLRemoveRuleAction", "FirewallACLRemoveRuleAction"):
        c = class_def(tree, cname)
        fr = find_method(c, "form_request")
        b = _body(fr)
        _need(len(b) == 1 and isinstance(b[0], ast.Return) and isinstance(b[0].value, ast.List), f"{cname}.form_request returns one list literal")
        elts = []
        for e in b[0].value.elts:
            if isinstance(e, ast.Constant) and isinstance(e.value, str):
                elts.append("'" + e.value + "'")
            else:
                s = _u(e)
                if s.startswith("str(") and s.endswith(")"):
                    s = s[4:-1]
                _need(s.startswith("config."), f"{cname}: element {s}")
                elts.append(s[len("config."):])
        out.append((cname, elts))
    return ("/-- `form_request` of the four ACL actions: literals quoted, `config.<field>` (through `str()` or not) by field name -/\n"
            "def actionRequests : List (String × List String) := "
            + _lean_list(out, lambda x: f"({_lean_str(x[0])}, {_lean_list(x[1], _lean_str)})") + "\n")


def _from_config_blocks() -> str:
    """Every `<obj>.<list>.add_rule(kw=…)` call inside a `for r_num, r_cfg in <mapping>.items()` loop of the two loaders."""
    blocks = []
    for rel, cls, fn_name in ((ROUTER, "Router", "from_config"), (FIREWALL, "Firewall", "from_config"),
                              ("simulator/network/hardware/nodes/network/wireless_router.py", "WirelessRouter", "from_config")):
        fn = find_method(class_def(parse(rel), cls), fn_name)
        for loop in [n for n in ast.walk(fn) if isinstance(n, ast.For)]:
            calls = [n for n in ast.walk(loop) if isinstance(n, ast.Call) and isinstance(n.func, ast.Attribute) and n.func.attr == "add_rule"]
            if not calls:
                continue
            _need(len(calls) == 1 and not calls[0].args, "one keyword add_rule call per loader loop")
            _need(_u(loop.target) == "(r_num, r_cfg)", "loop target (r_num, r_cfg)")
            kws = []
            for k in calls[0].keywords:
                s = _u(k.value)
                # None if not (p := r_cfg.get('K')) else TABLE[p]   |   r_cfg.get('K')   |   ACLAction[r_cfg['K']]   |   r_num
                m = re.fullmatch(r"None if not \(p := r_cfg\.get\('(\w+)'\)\) else (\w+)\[p\]", s)
                if m:
                    kws.append((k.arg, [m.group(1)], m.group(2)))
                    continue
                m = re.fullmatch(r"r_cfg\.get\('(\w+)'\)", s)
                if m:
                    kws.append((k.arg, [m.group(1)], "-"))
                    continue
                m = re.fullmatch(r"r_cfg\.get\('(\w+)', r_cfg\.get\('(\w+)'\)\)", s)  # a second, alternative spelling of the key
                if m:
                    kws.append((k.arg, [m.group(1), m.group(2)], "-"))
                    continue
                m = re.fullmatch(r"ACLAction\[r_cfg\['(\w+)'\]\]", s)
                if m:
                    kws.append((k.arg, [m.group(1)], "ACLAction"))
                    continue
                _need(s == "r_num", f"loader keyword {k.arg}={s}")
                kws.append((k.arg, [], "<mapping key>"))
            src = _u(loop.iter)
            blocks.append((cls, _u(calls[0].func.value), src, sorted(kws)))  # keyword order in the call is immaterial
    return ("/-- the loaders' rule loops: (class, list object the rule is added to, mapping iterated, [(parameter, config keys read "
            "— first one wins —, lookup table)]) -/\n"
            "def loaderBlocks : List (String × String × String × List (String × List String × String)) := "
            + _lean_list(blocks, lambda b: f"({_lean_str(b[0])}, {_lean_str(b[1])}, {_lean_str(b[2])}, "
                         + _lean_list(b[3], lambda k: f"({_lean_str(k[0])}, {_lean_list(k[1], _lean_str)}, {_lean_str(k[2])})") + ")") + "\n")


def _yaml_acl_keys(text: str) -> set:
    """keys written under an `acl:` mapping of a YAML example (line based: the examples contain `...` placeholders)"""
    keys, lines, i = set(), text.splitlines(), 0
    while i < len(lines):
        m = re.match(r"^(\s*)acl:\s*$", lines[i])
        if not m:
            i += 1
            continue
        ind, j = len(m.group(1)), i + 1
        while j < len(lines) and (not lines[j].strip() or len(lines[j]) - len(lines[j].lstrip()) > ind):
            mm = re.match(r"^\s*([A-Za-z_]\w*):", lines[j])
            if mm:
                keys.add(mm.group(1))
            j += 1
        i = j
    return keys


def _documented_keys(fw_lists) -> str:
    """Rule keys the documentation tells users to write: the `acl` bullets of `Router.from_config`'s docstring and every key
    under an `acl:` mapping in the configuration pages (docs/source/configuration/simulation/nodes/*.rst)."""
    rt = class_def(parse(ROUTER), "Router")
    doc = ast.get_docstring(find_method(rt, "from_config")) or ""
    dkeys, inside, ind0 = [], False, 0
    for line in doc.splitlines():
        m = re.match(r"^(\s*)- (\w+) \(", line)
        if m and m.group(2) == "acl":
            inside, ind0 = True, len(m.group(1))
            continue
        if inside and m:
            if len(m.group(1)) <= ind0:
                inside = False
            else:
                dkeys.append(m.group(2))
    _need(dkeys, "Router.from_config docstring lists the acl rule keys")
    docs = SRC.parents[1] / "docs" / "source" / "configuration" / "simulation" / "nodes"
    ykeys = set()
    files = sorted(docs.glob("*.rst"))
    _need(files, f"no configuration pages under {docs}")
    for f in files:
        ykeys |= _yaml_acl_keys(f.read_text())
    ykeys -= {name for name, _ in fw_lists}
    allk = sorted(set(dkeys) | ykeys)
    return ("/-- rule keys the documentation tells users to write under `acl:` (from_config docstring + configuration pages) -/\n"
            f"def documentedRuleKeys : List String := {_lean_list(allk, _lean_str)}\n")


def _device_defaults() -> str:
    fw = class_def(parse(FIREWALL), "Firewall")
    rows = []
    for st in fw.body:
        if isinstance(st, ast.AnnAssign) and _u(st.annotation) == "AccessControlList":
            v = st.value
            _need(isinstance(v, ast.Call) and _u(v.func) == "Field" and len(v.keywords) == 1 and v.keywords[0].arg == "default_factory"
                  and isinstance(v.keywords[0].value, ast.Lambda), f"{_u(st.target)}: Field(default_factory=lambda: …)")
            c = v.keywords[0].value.body
            _need(isinstance(c, ast.Call) and _u(c.func) == "AccessControlList" and not c.args, "AccessControlList(…)")
            kw = {k.arg: _u(k.value) for k in c.keywords}
            _need(set(kw) == {"name", "implicit_action"} and kw["implicit_action"] in ("ACLAction.DENY", "ACLAction.PERMIT"),
                  f"{_u(st.target)}: keywords {sorted(kw)}")
            rows.append((_u(st.target), "deny" if kw["implicit_action"].endswith("DENY") else "permit"))
    rt = class_def(parse(ROUTER), "Router")
    init = find_method(rt, "__init__")
    acl_calls = [n for n in ast.walk(init) if isinstance(n, ast.Call) and _u(n.func) == "AccessControlList"]
    _need(len(acl_calls) == 1, "Router.__init__ builds one AccessControlList")
    kw = {k.arg: _u(k.value) for k in acl_calls[0].keywords}
    _need(kw.get("implicit_action") in ("ACLAction.DENY", "ACLAction.PERMIT") and "max_acl_rules" not in kw, "router list implicit action")
    rimp = "deny" if kw["implicit_action"].endswith("DENY") else "permit"
    _need(any(_u(s) == "self._set_default_acl()" for s in init.body), "Router.__init__ calls _set_default_acl()")
    sd = find_method(rt, "_set_default_acl")
    ports = _port_lookup()
    rules = []
    for st in _body(sd):
        _need(isinstance(st, ast.Expr) and isinstance(st.value, ast.Call) and _u(st.value.func) == "self.acl.add_rule" and not st.value.args,
              "_set_default_acl: only self.acl.add_rule(…) calls")
        f = {"action": None, "protocol": "none", "src_port": "none", "dst_port": "none", "position": None}
        for k in st.value.keywords:
            s = _u(k.value)
            if k.arg == "action":
                f["action"] = {"ACLAction.PERMIT": ".permit", "ACLAction.DENY": ".deny"}[s]
            elif k.arg == "position":
                f["position"] = int(s)
            elif k.arg == "protocol":
                f["protocol"] = "(some ." + {"PROTOCOL_LOOKUP['ICMP']": "icmp", "PROTOCOL_LOOKUP['TCP']": "tcp", "PROTOCOL_LOOKUP['UDP']": "udp"}[s] + ")"
            elif k.arg in ("src_port", "dst_port"):
                _need(isinstance(k.value, ast.Subscript) and _u(k.value.value) == "PORT_LOOKUP" and isinstance(k.value.slice, ast.Constant),
                      f"default rule port {s}")
                f[k.arg] = f"(some {ports[k.value.slice.value]})"
            else:
                raise Shape(f"default rule keyword {k.arg}")
        rules.append(f"({f['position']}, {{ action := {f['action']}, proto := {f['protocol']}, srcIp := none, srcWc := none, dstIp := none, "
                     f"dstWc := none, srcPort := {f['src_port']}, dstPort := {f['dst_port']} }})")
    return (f"/-- firewall.py: list field ↦ implicit action of its default factory -/\n"
            f"def firewallLists : List (String × Action) := {_lean_list(rows, lambda r: f'({_lean_str(r[0])}, .{r[1]})')}\n"
            f"def routerImplicit : Action := .{rimp}\n"
            f"/-- `Router._set_default_acl` -/\n"
            f"def routerDefaultRules : List (Nat × Rule) := {_lean_list(rules)}\n")


def _port_lookup() -> dict:
    # `dict(K=v, …)` or a dict literal, annotated or not (round 7: one reader for the table, in extract/acl_parse.py)
    from harness.extract import acl_parse
    return dict(acl_parse._dict_table(acl_parse._module_value(parse(acl_parse.PORT), "PORT_LOOKUP"), "PORT_LOOKUP", acl_parse._int_const))


def _frame_lean() -> str:
    """`Router.subject_to_acl`, `Frame.is_arp`, and the refusals of `Frame.__init__`, conjunct by conjunct."""
    rt = class_def(parse(ROUTER), "Router")
    sta = _body(find_method(rt, "subject_to_acl"))
    _need(len(sta) == 2 and isinstance(sta[0], ast.If) and not sta[0].orelse and _u(sta[0].body[0]) == "return False" and _u(sta[1]) == "return True",
          "subject_to_acl: if <conj>: return False; return True")
    t = sta[0].test
    conj = t.values if isinstance(t, ast.BoolOp) and isinstance(t.op, ast.And) else [t]
    fr = class_def(parse(FRAME), "Frame")
    is_arp = None
    for n in fr.body:
        if isinstance(n, ast.FunctionDef) and n.name == "is_arp":
            b = _body(n)
            _need(len(b) == 1 and _u(b[0]) == "return self.udp.dst_port == PORT_LOOKUP['ARP']", "Frame.is_arp")
            is_arp = True
    _need(is_arp, "Frame.is_arp")
    arp = _port_lookup()["ARP"]
    atoms = {"frame.ip.protocol == 'udp'": "(f.proto == Proto.udp)", "frame.is_arp": "(f.udp.map (·.2) == some arpPort)",
             "isinstance(frame.payload, ARPPacket)": "f.arpPayload"}
    parts = []
    for c in conj:
        _need(_u(c) in atoms, f"subject_to_acl conjunct {_u(c)!r}")
        parts.append(atoms[_u(c)])
    init = find_method(fr, "__init__")
    watoms = {"kwargs.get('tcp')": "f.tcp.isSome", "kwargs.get('udp')": "f.udp.isSome", "kwargs.get('icmp')": "f.icmp",
              "not kwargs.get('tcp')": "(!f.tcp.isSome)", "not kwargs.get('udp')": "(!f.udp.isSome)", "not kwargs.get('icmp')": "(!f.icmp)",
              "kwargs['ip'].protocol == PROTOCOL_LOOKUP['TCP']": "(f.proto == Proto.tcp)",
              "kwargs['ip'].protocol == PROTOCOL_LOOKUP['UDP']": "(f.proto == Proto.udp)",
              "kwargs['ip'].protocol == PROTOCOL_LOOKUP['ICMP']": "(f.proto == Proto.icmp)"}
    refusals = []
    for st in _body(init):
        if isinstance(st, ast.If):
            _need(not st.orelse and isinstance(st.body[-1], ast.Raise), "Frame.__init__: every `if` ends in raise")
            cs = st.test.values if isinstance(st.test, ast.BoolOp) and isinstance(st.test.op, ast.And) else [st.test]
            for c in cs:
                _need(_u(c) in watoms, f"Frame.__init__ test {_u(c)!r}")
            refusals.append("(" + " && ".join(watoms[_u(c)] for c in cs) + ")")
        else:
            _need(_u(st) in ("kwargs['primaite'] = PrimaiteHeader()", "super().__init__(**kwargs)"), f"Frame.__init__ statement {_u(st)[:50]!r}")
    return f"""def arpPort : Nat := {arp}
/-- `Router.subject_to_acl` -/
def subjectToAcl (f : Frame) : Bool := !({' && '.join(parts)})
/-- `Frame.__init__` accepts a frame iff none of its refusals fires -/
def frameAccepted (f : Frame) : Bool := !({' || '.join(refusals)})
"""


def emit_state() -> str:
    acl = class_def(parse(ROUTER), "AccessControlList")
    return ("import PrimaiteModel.Model.AclObj\nimport PrimaiteModel.Gen.AclMatch\nnamespace Primaite.Gen.AclState\nopen Primaite.Acl\n"
            + _is_permitted_lean(acl) + _ctor_lean(acl) + _readers_lean(acl) + _add_rule_plumbing(acl)
            + _edit_methods_lean(acl, parse(ROUTER)) + _actions_lean()
            + _from_config_blocks() + _device_defaults() + _documented_keys(_fw_list_rows()) + _frame_lean()
            + "end Primaite.Gen.AclState\n")


def _fw_list_rows():
    fw = class_def(parse(FIREWALL), "Firewall")
    return [(_u(st.target), None) for st in fw.body if isinstance(st, ast.AnnAssign) and _u(st.annotation) == "AccessControlList"]

