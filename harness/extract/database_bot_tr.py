"""C17 round 7: statement-by-statement translation of the data-manipulation bot's stage machine
(applications/red_applications/data_manipulation_bot.py):

    _logon, _perform_port_scan, _establish_db_connection, _perform_data_manipulation, _application_loop

into Lean functions over `BotW` (Model/DatabaseBot.lean).  Calls out of the bot are inputs: `simulate_trial(...)` inside
`_perform_port_scan` -> `scan`, inside `_perform_data_manipulation` -> `atk`; `self._host_db_client.get_new_connection()` -> `newConn`;
`self._db_connection.query(self.payload)` -> `qok` (and the fact that it was sent is recorded in `queried`).  Props/C17Bot.lean proves
the translated loop equal to the closed form the model's `State.dmAttack` is written in (`dmAdvance`, `dmRepeatRule`, the order
client-missing / overwrite / stage test / trial / connect / query).  Enum values are read from the source.
Pure `ast`; strict: an unrecognised statement raises.
"""
import ast
from typing import Dict, List

from harness.extract.util import class_def, find_method, parse

GEN_NAME = "DatabaseBotTr"
SRC_FILE = "simulator/system/applications/red_applications/data_manipulation_bot.py"
PARAMS = "(w : BotW) (canAct scan atk : Bool) (newConn : Option Nat) (qok : Bool)"
ARGS = "canAct scan atk newConn qok"
# method -> (lean name, returns bool?)
METHODS = {"_logon": ("logon", False), "_perform_port_scan": ("performPortScan", False),
           "_establish_db_connection": ("establishDbConnection", True), "_perform_data_manipulation": ("performDataManipulation", False),
           "_application_loop": ("applicationLoop", True)}
ORDER = ["_logon", "_perform_port_scan", "_establish_db_connection", "_perform_data_manipulation", "_application_loop"]
TRIAL = {"_perform_port_scan": "scan", "_perform_data_manipulation": "atk"}


class Unsupported(Exception):
    pass


def u(n: ast.AST) -> str:
    return ast.unparse(n)


def _noeffect(st: ast.stmt) -> bool:
    if isinstance(st, ast.Pass):
        return True
    if isinstance(st, ast.Expr) and isinstance(st.value, ast.Constant) and isinstance(st.value.value, str):
        return True
    if isinstance(st, ast.Expr) and isinstance(st.value, ast.Call) and ".sys_log." in u(st.value.func):
        return True
    if isinstance(st, ast.If) and all(_noeffect(x) for x in st.body + st.orelse):
        return True
    return False


RS_FILE = "simulator/system/applications/red_applications/ransomware_script.py"
RS_METHODS = {"_establish_db_connection": ("rsEstablishDbConnection", True), "_perform_ransomware_encrypt": ("rsPerformRansomwareEncrypt", True),
              "_application_loop": ("rsApplicationLoop", True)}
RS_ORDER = ["_establish_db_connection", "_perform_ransomware_encrypt", "_application_loop"]


class Bot:
    def __init__(self, src_file=SRC_FILE, cls_name="DataManipulationBot", methods=None, enum_name="DataManipulationAttackStage"):
        tree = parse(src_file)
        self.cls = class_def(tree, cls_name)
        self.methods = methods or METHODS
        self.stage: Dict[str, int] = {}
        if enum_name:
            enum = class_def(tree, enum_name)
            for st in enum.body:
                if isinstance(st, ast.Assign) and isinstance(st.value, ast.Constant) and isinstance(st.value.value, int):
                    self.stage[u(st.targets[0])] = st.value.value
        # `_host_db_client`: the database client of the same host, or None
        prop = [x for x in find_method(self.cls, "_host_db_client").body if not _noeffect(x)]
        if [u(x).replace("db_client: DatabaseClient = ", "db_client = ") for x in prop] != \
                ["db_client = self.software_manager.software.get('database-client')", "return db_client"]:
            raise Unsupported("_host_db_client is not `software.get('database-client')`")

    def stage_of(self, e: ast.AST) -> str:
        if isinstance(e, ast.Attribute) and u(e.value) == "DataManipulationAttackStage" and e.attr in self.stage:
            return str(self.stage[e.attr])
        raise Unsupported(f"stage {u(e)}")

    def truthy(self, e: ast.AST, meth: str, env: Dict[str, str]) -> str:
        if isinstance(e, ast.UnaryOp) and isinstance(e.op, ast.Not):
            return f"(!{self.truthy(e.operand, meth, env)})"
        if isinstance(e, ast.BoolOp):
            op = " && " if isinstance(e.op, ast.And) else " || "
            return "(" + op.join(self.truthy(v, meth, env) for v in e.values) + ")"
        if isinstance(e, ast.Compare) and len(e.ops) == 1:
            l, op, r = u(e.left), e.ops[0], e.comparators[0]
            if l == "self.attack_stage" and isinstance(op, (ast.Eq, ast.Is)):
                return f"(w.stage == {self.stage_of(r)})"
            if l == "self.attack_stage" and isinstance(op, (ast.NotEq, ast.IsNot)):
                return f"(!(w.stage == {self.stage_of(r)}))"
            if l == "self.attack_stage" and isinstance(op, ast.In) and isinstance(r, (ast.Tuple, ast.List, ast.Set)):
                return "(" + " || ".join(f"(w.stage == {self.stage_of(x)})" for x in r.elts) + ")"
            if l == "self._host_db_client" and isinstance(op, ast.Is) and u(r) == "None":
                return "(!w.hasClient)"
            if l == "self._host_db_client" and isinstance(op, ast.IsNot) and u(r) == "None":
                return "w.hasClient"
        if isinstance(e, ast.Constant) and isinstance(e.value, bool):
            return "true" if e.value else "false"
        s = u(e)
        if isinstance(e, ast.Call) and s.startswith("simulate_trial(") and meth in TRIAL:
            return TRIAL[meth]
        table = {"self._can_perform_action()": "canAct", "self.server_ip_address": "w.ip", "self.payload": "w.payload", "self.repeat": "w.rep",
                 "self._db_connection": "w.conn.isSome"}
        if s in table:
            return table[s]
        if s in env:
            return env[s]
        raise Unsupported(f"{meth}: condition {s}")

    def go(self, body: List[ast.stmt], meth: str, want_bool: bool, env: Dict[str, str], ind: int) -> str:
        pad = "  " * ind
        body = list(body)
        while body and _noeffect(body[0]):
            body.pop(0)
        if not body:
            if want_bool:
                raise Unsupported(f"{meth}: falls off the end")
            return pad + "w"
        st, rest = body[0], body[1:]
        if isinstance(st, ast.Return):
            if not want_bool:
                if st.value is None:
                    return pad + "w"
                raise Unsupported(f"{meth}: {u(st)}")
            if isinstance(st.value, ast.IfExp) and u(st.value.body) == "True" and u(st.value.orelse) == "False":
                return f"{pad}(w, {self.truthy(st.value.test, meth, env)})"
            return f"{pad}(w, {self.truthy(st.value, meth, env)})"
        if isinstance(st, ast.If):
            tst = st.test
            neg = isinstance(tst, ast.UnaryOp) and isinstance(tst.op, ast.Not)
            callx = tst.operand if neg else tst
            if isinstance(callx, ast.Call) and u(callx.func).startswith("self.") and u(callx.func)[5:] in self.methods \
                    and self.methods[u(callx.func)[5:]][1] and not callx.args and not callx.keywords and u(callx.func)[5:] != meth:
                # `if self._perform_x():` - the call has an effect: bind it first
                callee = self.methods[u(callx.func)[5:]][0]
                c = "(!r.2)" if neg else "r.2"
                return (f"{pad}let r := {callee} w {ARGS}\n{pad}let w := r.1\n{pad}if {c} then\n"
                        f"{self.go(list(st.body) + rest, meth, want_bool, env, ind + 1)}\n{pad}else\n"
                        f"{self.go(list(st.orelse) + rest, meth, want_bool, env, ind + 1)}")
            return (f"{pad}if {self.truthy(st.test, meth, env)} then\n{self.go(list(st.body) + rest, meth, want_bool, env, ind + 1)}\n{pad}else\n"
                    f"{self.go(list(st.orelse) + rest, meth, want_bool, env, ind + 1)}")
        if isinstance(st, ast.Assign) and len(st.targets) == 1:
            tgt, rhs = u(st.targets[0]), st.value
            if tgt == "self.attack_stage":
                return f"{pad}let w := {{ w with stage := {self.stage_of(rhs)} }}\n" + self.go(rest, meth, want_bool, env, ind)
            if tgt == "self._host_db_client.server_ip_address" and u(rhs) == "self.server_ip_address":
                return f"{pad}let w := {{ w with ipSet := true }}\n" + self.go(rest, meth, want_bool, env, ind)
            if tgt == "self._host_db_client.server_password" and u(rhs) == "self.server_password":
                return f"{pad}let w := {{ w with pwSet := true }}\n" + self.go(rest, meth, want_bool, env, ind)
            if tgt == "self._db_connection" and u(rhs) == "self._host_db_client.get_new_connection()":
                return f"{pad}let w := {{ w with conn := newConn }}\n" + self.go(rest, meth, want_bool, env, ind)
            if isinstance(st.targets[0], ast.Name) and u(rhs) == "self._db_connection.query(self.payload)":
                return (f"{pad}let w := {{ w with queried := true }}\n" + self.go(rest, meth, want_bool, dict(env, **{tgt: "qok"}), ind))
            if isinstance(st.targets[0], ast.Name) and isinstance(rhs, ast.Constant) and isinstance(rhs.value, bool):
                return self.go(rest, meth, want_bool, dict(env, **{tgt: "true" if rhs.value else "false"}), ind)
            raise Unsupported(f"{meth}: assignment {u(st)[:100]}")
        if isinstance(st, ast.Expr) and isinstance(st.value, ast.Call):
            c = st.value
            f = u(c.func)
            if f.startswith("self.") and f[5:] in self.methods and f[5:] != meth:
                callee, cb = self.methods[f[5:]]
                if c.args or any(k.arg != "p_of_success" for k in c.keywords):
                    raise Unsupported(f"{meth}: call {u(c)}")
                get = f"({callee} w {ARGS}).1" if cb else f"{callee} w {ARGS}"
                return f"{pad}let w := {get}\n" + self.go(rest, meth, want_bool, env, ind)
        raise Unsupported(f"{meth}: statement {u(st)[:100]}")


FAILED: Dict[str, str] = {}


def emit() -> str:
    FAILED.clear()
    out = ["import PrimaiteModel.Model.DatabaseBot", "set_option linter.unusedVariables false", "namespace Primaite.Gen.DatabaseBotTr",
           "open Primaite.Database", ""]
    try:
        bot = Bot()
    except Exception as e:  # noqa: BLE001
        bot = None
        FAILED["class"] = f"{type(e).__name__}: {e}"
    stages = bot.stage if bot else {}
    out += ["/-- `DataManipulationAttackStage` as the source has it -/",
            "def stageValues : List (String × Nat) := [" + ", ".join(f'("{k}", {v})' for k, v in stages.items()) + "]", ""]
    for m in ORDER:
        lean, wb = METHODS[m]
        ret = "BotW × Bool" if wb else "BotW"
        try:
            if bot is None:
                raise Unsupported(FAILED["class"])
            body = bot.go(list(find_method(bot.cls, m).body), m, wb, {}, 1)
            out += [f"/-- `DataManipulationBot.{m}`, translated statement by statement -/", f"def {lean} {PARAMS} : {ret} :=", body, ""]
        except Exception as e:  # noqa: BLE001
            FAILED[m] = f"{type(e).__name__}: {e}"
            stub = "({ w with stage := 99 }, false)" if wb else "{ w with stage := 99 }"
            out += [f"/-- `{m}`: NOT TRANSLATED ({type(e).__name__}) -/", f"def {lean} {PARAMS} : {ret} := {stub}", ""]
    out += ["/-! ### the ransomware script -/", ""]
    try:
        rs = Bot(RS_FILE, "RansomwareScript", RS_METHODS, None)
        # attack(): run, then the loop
        att = [u(x) for x in find_method(rs.cls, "attack").body if not _noeffect(x)]
        if att != ["self.run()", "self.num_executions += 1", "return self._application_loop()"]:
            raise Unsupported(f"RansomwareScript.attack: {att}")
    except Exception as e:  # noqa: BLE001
        rs = None
        FAILED["rs:class"] = f"{type(e).__name__}: {e}"
    for m in RS_ORDER:
        lean, wb = RS_METHODS[m]
        try:
            if rs is None:
                raise Unsupported(FAILED["rs:class"])
            body = rs.go(list(find_method(rs.cls, m).body), m, wb, {}, 1)
            out += [f"/-- `RansomwareScript.{m}`, translated statement by statement -/", f"def {lean} {PARAMS} : BotW × Bool :=", body, ""]
        except Exception as e:  # noqa: BLE001
            FAILED["rs:" + m] = f"{type(e).__name__}: {e}"
            out += [f"/-- `RansomwareScript.{m}`: NOT TRANSLATED ({type(e).__name__}) -/",
                    f"def {lean} {PARAMS} : BotW × Bool := ({{ w with stage := 99 }}, true)", ""]
    out += ["end Primaite.Gen.DatabaseBotTr", ""]
    return "\n".join(out)
