"""E3/E11 for C18: the admission tests, the order of the steps of transmit/send, the per-tick reset and the `is_up` condition of
Link / AirSpace / the three send_frame methods / the four receive_frame methods, read from the source with `ast`.

Strict: every function must have exactly the statement shapes listed here; anything else raises (a broken tie)."""
import ast
from typing import List

from harness.extract.util import class_def, find_function, find_method, parse

GEN_NAME = "Link"

BASE = "simulator/network/hardware/base.py"
AIR = "simulator/network/airspace.py"
SWITCH = "simulator/network/hardware/nodes/network/switch.py"
HOST = "simulator/network/hardware/nodes/host/host_node.py"
ROUTER = "simulator/network/hardware/nodes/network/router.py"
WROUTER = "simulator/network/hardware/nodes/network/wireless_router.py"
CONTAINER = "simulator/network/container.py"
UTILS = "simulator/network/utils.py"


def _body(fn: ast.FunctionDef) -> List[ast.stmt]:
    b = list(fn.body)
    if b and isinstance(b[0], ast.Expr) and isinstance(b[0].value, ast.Constant) and isinstance(b[0].value.value, str):
        b = b[1:]
    return b


def _u(n: ast.AST) -> str:
    return ast.unparse(n)


def _cmp_op(op: ast.cmpop) -> str:
    if isinstance(op, ast.LtE):
        return "≤"
    if isinstance(op, ast.Lt):
        return "<"
    raise ValueError(f"admission test uses {type(op).__name__}, expected <= or <")


def _admission(ret: ast.stmt, load_src: List[str], cap_src: List[str]) -> str:
    """`return LOAD + frame.size_Mbits <= CAP`  →  the comparison operator."""
    if not (isinstance(ret, ast.Return) and isinstance(ret.value, ast.Compare) and len(ret.value.ops) == 1):
        raise ValueError(f"admission: not `return a + b <= c`: {_u(ret)}")
    c = ret.value
    if not (isinstance(c.left, ast.BinOp) and isinstance(c.left.op, ast.Add)):
        raise ValueError(f"admission: left side is not a sum: {_u(c.left)}")
    if _u(c.left.left) not in load_src or _u(c.left.right) != "frame.size_Mbits":
        raise ValueError(f"admission: unexpected sum {_u(c.left)}")
    if _u(c.comparators[0]) not in cap_src:
        raise ValueError(f"admission: unexpected capacity {_u(c.comparators[0])}")
    return _cmp_op(c.ops[0])


def _link_can_transmit(link: ast.ClassDef) -> str:
    b = _body(find_method(link, "can_transmit_frame"))
    if not (len(b) == 2 and isinstance(b[0], ast.If) and _u(b[0].test) == "self.is_up" and not b[0].orelse
            and isinstance(b[1], ast.Return) and _u(b[1]) == "return False"):
        raise ValueError("Link.can_transmit_frame: not `if self.is_up: … return <test>` / `return False`")
    inner = [s for s in b[0].body if not (isinstance(s, ast.Assign) and _u(s.value) == "frame.size_Mbits")]
    if len(inner) != 1:
        raise ValueError("Link.can_transmit_frame: unexpected statements under `if self.is_up`")
    return _admission(inner[0], ["self.current_load"], ["self.bandwidth"])


def _is_up(link: ast.ClassDef) -> str:
    b = _body(find_method(link, "is_up"))
    if len(b) == 1 and _u(b[0]) == "return self.endpoint_a.enabled and self.endpoint_b.enabled":
        return "a && b"
    raise ValueError(f"Link.is_up: unexpected body {[_u(s) for s in b]}")


def _link_transmit(link: ast.ClassDef) -> List[str]:
    """Order of: reading the size, adding it to the load, calling the receiver, subtracting it again."""
    steps: List[str] = []
    size_var = None
    for s in _body(find_method(link, "transmit_frame")):
        src = _u(s)
        if isinstance(s, ast.Assign) and _u(s.value) == "frame.size_Mbits" and len(s.targets) == 1:
            size_var = _u(s.targets[0])
            steps.append("size")
        elif isinstance(s, ast.AugAssign) and _u(s.target) == "self.current_load":
            if size_var is None or _u(s.value) != size_var:
                raise ValueError(f"Link.transmit_frame: load changed by something other than the size read: {src}")
            steps.append("reserve" if isinstance(s.op, ast.Add) else "rollback" if isinstance(s.op, ast.Sub) else "?")
        elif isinstance(s, ast.If) and _u(s.test) == "receiver.receive_frame(frame)":
            inner = [x for x in s.body if not (isinstance(x, ast.Expr) and _u(x).startswith("_LOGGER."))]
            if s.orelse or len(inner) != 1 or _u(inner[0]) != "return True":
                # a load change inside the branch is a different accounting scheme: name it so the obligation fails visibly
                if any(isinstance(x, ast.AugAssign) and _u(x.target) == "self.current_load" for x in s.body):
                    steps.append("deliver")
                    steps.append("add-after-delivery")
                    continue
                raise ValueError("Link.transmit_frame: unexpected body under `if receiver.receive_frame(frame)`")
            steps.append("deliver")
        elif isinstance(s, ast.Assign) and _u(s.targets[0]) == "receiver":
            continue
        elif isinstance(s, ast.If) and _u(s.test) == "receiver == sender_nic":
            continue
        elif src == "return False":
            continue
        else:
            raise ValueError(f"Link.transmit_frame: unrecognised statement {src}")
    return steps


def _send_order(fn: ast.FunctionDef, who: str) -> List[str]:
    steps: List[str] = []
    for s in _body(fn):
        src = _u(s)
        if isinstance(s, ast.If) and _u(s.test) == "not self.enabled" and [_u(x) for x in s.body] == ["return False"]:
            steps.append("enabled")
        elif src == "frame.set_sent_timestamp()":
            steps.append("stamp")
        elif (isinstance(s, ast.If) and isinstance(s.test, ast.UnaryOp) and isinstance(s.test.op, ast.Not)
              and _u(s.test.operand) in ("self._connected_link.can_transmit_frame(frame)", "self.airspace.can_transmit_frame(frame, self)")
              and _u(s.body[-1]) == "return False" and not s.orelse):
            steps.append("admission")
        elif src in ("super().send_frame(frame)", "self.pcap.capture_outbound(frame)"):
            continue
        elif src in ("self._connected_link.transmit_frame(sender_nic=self, frame=frame)", "self.airspace.transmit(frame, self)"):
            steps.append("transmit")
        elif src == "return True":
            continue
        else:
            raise ValueError(f"{who}.send_frame: unrecognised statement {src}")
    return steps


def _air_transmit(air: ast.ClassDef):
    b = _body(find_method(air, "transmit"))
    steps = []
    hz = "self.bandwidth_load[sender_network_interface.frequency.frequency_hz]"
    for s in b:
        if isinstance(s, ast.AugAssign) and _u(s.target) == hz and isinstance(s.op, ast.Add) and _u(s.value) == "frame.size_Mbits":
            steps.append("reserve")
        elif isinstance(s, ast.For):
            if len(s.body) != 1 or not isinstance(s.body[0], ast.If):
                raise ValueError("AirSpace.transmit: loop body is not a single `if`")
            test = _u(s.body[0].test)
            if test != "wireless_interface != sender_network_interface and wireless_interface.enabled":
                raise ValueError(f"AirSpace.transmit: unexpected receiver filter {test}")
            if [_u(x) for x in s.body[0].body] != ["wireless_interface.receive_frame(frame)"]:
                raise ValueError("AirSpace.transmit: unexpected delivery statement")
            if _u(s.iter) != "self.wireless_interfaces_by_frequency.get(sender_network_interface.frequency.frequency_hz, [])":
                raise ValueError(f"AirSpace.transmit: receivers are not the interfaces on the sender's hz: {_u(s.iter)}")
            steps.append("deliver")
        else:
            raise ValueError(f"AirSpace.transmit: unrecognised statement {_u(s)}")
    return steps


def _air_can_transmit(air: ast.ClassDef) -> str:
    b = _body(find_method(air, "can_transmit_frame"))
    hz = "self.bandwidth_load[sender_network_interface.frequency.frequency_hz]"
    if not (len(b) == 2 and isinstance(b[0], ast.If)
            and _u(b[0].test) == "sender_network_interface.frequency.frequency_hz not in self.bandwidth_load"
            and [_u(x) for x in b[0].body] == [f"{hz} = 0.0"]):
        raise ValueError("AirSpace.can_transmit_frame: unexpected shape (missing-key initialisation)")
    return _admission(b[1], [hz], ["self.get_frequency_max_capacity_mbps(sender_network_interface.frequency.name)"])


def _reject_means_node_not_involved(fn: ast.FunctionDef, who: str) -> bool:
    """In a receive_frame: the node's receive_frame is called only on a path that then returns True (so a False answer
    means no node processing, hence nothing can have been sent while the frame was being refused)."""
    calls = 0

    def visit(block: List[ast.stmt]):
        nonlocal calls
        for i, s in enumerate(block):
            if isinstance(s, ast.Expr) and "_connected_node.receive_frame(" in _u(s):
                calls += 1
                if i + 1 >= len(block) or _u(block[i + 1]) != "return True":
                    raise ValueError(f"{who}.receive_frame: node call not followed by `return True`")
            elif isinstance(s, ast.If):
                visit(s.body)
                visit(s.orelse)
            elif isinstance(s, (ast.For, ast.While, ast.Try, ast.With)):
                raise ValueError(f"{who}.receive_frame: unexpected compound statement")
    visit(_body(fn))
    if calls != 1:
        raise ValueError(f"{who}.receive_frame: expected exactly one call of the node's receive_frame, found {calls}")
    b = _body(fn)
    if not (isinstance(b[0], ast.If) and _u(b[0].test) == "self.enabled" and _u(b[-1]) == "return False"):
        raise ValueError(f"{who}.receive_frame: not `if self.enabled: …` / `return False`")
    return True


def _bytes_per_mbit() -> int:
    fn = find_function(parse(UTILS), "convert_bytes_to_megabits")
    srcs = [_u(s) for s in _body(fn)]
    if srcs[-2:] != ["bits = B * 8.0", "return bits / 1024.0 ** 2.0"]:
        raise ValueError(f"convert_bytes_to_megabits: unexpected body {srcs}")
    return 1024 * 1024 // 8


def lst(xs: List[str]) -> str:
    return "[" + ", ".join(f'"{x}"' for x in xs) + "]"


def emit() -> str:
    base = parse(BASE)
    air_t = parse(AIR)
    link = class_def(base, "Link")
    air = class_def(air_t, "AirSpace")
    op_link = _link_can_transmit(link)
    op_air = _air_can_transmit(air)
    is_up = _is_up(link)
    tx = _link_transmit(link)
    wired = _send_order(find_method(class_def(base, "WiredNetworkInterface"), "send_frame"), "WiredNetworkInterface")
    sw = _send_order(find_method(class_def(parse(SWITCH), "SwitchPort"), "send_frame"), "SwitchPort")
    wl = _send_order(find_method(class_def(air_t, "WirelessNetworkInterface"), "send_frame"), "WirelessNetworkInterface")
    atx = _air_transmit(air)
    # per-tick reset
    pre = [_u(s) for s in _body(find_method(link, "pre_timestep"))]
    if "self.current_load = 0.0" not in pre:
        raise ValueError("Link.pre_timestep does not reset current_load to 0.0")
    rb = [_u(s) for s in _body(find_method(air, "reset_bandwidth_load"))]
    if rb != ["self.bandwidth_load = {}"]:
        raise ValueError("AirSpace.reset_bandwidth_load does not clear bandwidth_load")
    npre = find_method(class_def(parse(CONTAINER), "Network"), "pre_timestep")
    nsrc = [_u(s) for s in _body(npre)]
    if "self.airspace.reset_bandwidth_load()" not in nsrc or "for link in self.links.values():\n    link.pre_timestep(timestep)" not in nsrc:
        raise ValueError("Network.pre_timestep does not reset the airspace and every link")
    # endpoint_down
    ed = _body(find_method(link, "endpoint_down"))
    if not (len(ed) == 1 and isinstance(ed[0], ast.If) and _u(ed[0].test) == "not self.is_up" and not ed[0].orelse):
        raise ValueError("Link.endpoint_down: unexpected shape")
    ed_inner = [x for x in ed[0].body if not (isinstance(x, ast.Expr) and _u(x).startswith("_LOGGER."))]
    if not ed_inner:
        disable_clears = False       # F-40 repaired: the load is kept until pre_timestep
    elif [_u(x) for x in ed_inner] == ["self.current_load = 0.0"]:
        disable_clears = True        # the code before the repair: named, so that the obligation fails visibly
    else:
        raise ValueError(f"Link.endpoint_down: unrecognised statements {[_u(x) for x in ed_inner]}")
    # nothing but transmit_frame (+=, -=), pre_timestep (= 0.0) and, before the repair, endpoint_down writes current_load
    writers = set()
    for fn in link.body:
        if isinstance(fn, ast.FunctionDef):
            for node in ast.walk(fn):
                tgt = node.target if isinstance(node, (ast.AugAssign, ast.AnnAssign)) else None
                tgts = node.targets if isinstance(node, ast.Assign) else ([tgt] if tgt is not None else [])
                if any(_u(t) == "self.current_load" for t in tgts):
                    writers.add(fn.name)
    allowed = {"transmit_frame", "pre_timestep"} | ({"endpoint_down"} if disable_clears else set())
    if writers != allowed:
        raise ValueError(f"Link: current_load is written by {sorted(writers)}, expected {sorted(allowed)}")
    # disable() calls endpoint_down after clearing the flag; enable()/disable() are no-ops when already in that state
    wni = class_def(base, "WiredNetworkInterface")
    dis = [_u(s) for s in _body(find_method(wni, "disable"))]
    if not (dis[0].startswith("if not self.enabled:\n    return True") and dis[1] == "self.enabled = False"
            and any("self._connected_link.endpoint_down()" in d for d in dis[2:])):
        raise ValueError("WiredNetworkInterface.disable: unexpected shape")
    en = [_u(s) for s in _body(find_method(wni, "enable"))]
    if not en[0].startswith("if self.enabled:\n    return True"):
        raise ValueError("WiredNetworkInterface.enable: unexpected shape")
    rej = all([
        _reject_means_node_not_involved(find_method(class_def(parse(HOST), "NIC"), "receive_frame"), "NIC"),
        _reject_means_node_not_involved(find_method(class_def(parse(ROUTER), "RouterInterface"), "receive_frame"), "RouterInterface"),
        _reject_means_node_not_involved(find_method(class_def(parse(SWITCH), "SwitchPort"), "receive_frame"), "SwitchPort"),
        _reject_means_node_not_involved(find_method(class_def(parse(WROUTER), "WirelessAccessPoint"), "receive_frame"), "WirelessAccessPoint"),
    ])
    return f"""namespace Primaite.Gen.Link
/-- `Link.can_transmit_frame`: `if self.is_up: return self.current_load + frame.size_Mbits <= self.bandwidth`; `return False` -/
def admits (load size cap : Nat) : Bool := decide (load + size {op_link} cap)
/-- `AirSpace.can_transmit_frame`: `return bandwidth_load[hz] + frame.size_Mbits <= get_frequency_max_capacity_mbps(name)` -/
def airAdmits (load size cap : Nat) : Bool := decide (load + size {op_air} cap)
/-- `Link.is_up` over (`endpoint_a.enabled`, `endpoint_b.enabled`) -/
def isUp (a b : Bool) : Bool := {is_up}
/-- order of the steps of `Link.transmit_frame` -/
def transmitOrder : List String := {lst(tx)}
/-- order of the steps of `AirSpace.transmit` -/
def airTransmitOrder : List String := {lst(atx)}
def wiredSendOrder : List String := {lst(wired)}
def switchSendOrder : List String := {lst(sw)}
def wirelessSendOrder : List String := {lst(wl)}
/-- `Link.pre_timestep` sets `current_load = 0.0`; `Network.pre_timestep` calls it for every link and clears the airspace loads -/
def tickResetsEveryLoad : Bool := true
/-- `WiredNetworkInterface.disable` clears the flag, then calls `Link.endpoint_down`; does that assign `current_load = 0.0`?
(no other method than `transmit_frame` and `pre_timestep` writes `current_load`: enforced by the extractor) -/
def disableClearsLoad : Bool := {"true" if disable_clears else "false"}
/-- `AirSpace`: `bandwidth_load` and the receiver lists are keyed by `frequency.frequency_hz`; the capacity of the admission
test is `get_frequency_max_capacity_mbps(sender.frequency.name)` (both shapes are enforced by the extractor) -/
def airLoadKey : String := "frequency_hz"
def airCapacityKey : String := "name"
/-- NIC / RouterInterface / SwitchPort / WirelessAccessPoint `.receive_frame` call their node only on the path that returns True -/
def rejectedMeansNodeNotInvolved : Bool := {"true" if rej else "false"}
/-- `convert_bytes_to_megabits`: `B * 8.0 / 1024.0 ** 2.0`, i.e. this many bytes per unit of load -/
def bytesPerMbit : Nat := {_bytes_per_mbit()}
end Primaite.Gen.Link
"""
