"""E3/E11 for C18: the admission tests, the order of the steps of transmit/send, the per-tick reset and the `is_up` condition of
Link / AirSpace / the three send_frame methods / the four receive_frame methods, read from the source with `ast`.

Strict: every function must have exactly the statement shapes listed here; anything else raises (a broken tie)."""
import ast
from typing import List

from harness.extract.util import class_def, find_function, find_method, parse

GEN_NAME = "Link"

BASE = "simulator/network/hardware/base.py"
AIR = "simulator/network/airspace.py"
SWITCH = "simulator/network/hardware/nodes/network/switch.py"
HOST = "simulator/network/hardware/nodes/host/host_node.py"
ROUTER = "simulator/network/hardware/nodes/network/router.py"
WROUTER = "simulator/network/hardware/nodes/network/wireless_router.py"
CONTAINER = "simulator/network/container.py"
UTILS = "simulator/network/utils.py"


def _body(fn: ast.FunctionDef) -> List[ast.stmt]:
    b = list(fn.body)
    if b and isinstance(b[0], ast.Expr) and isinstance(b[0].value, ast.Constant) and isinstance(b[0].value.value, str):
        b = b[1:]
    return b


def _u(n: ast.AST) -> str:
    return ast.unparse(n)


def _cmp_op(op: ast.cmpop) -> str:
    if isinstance(op, ast.LtE):
        return "≤"
    if isinstance(op, ast.Lt):
        return "<"
    raise ValueError(f"admission test uses {type(op).__name__}, expected <= or <")


def _admission(ret: ast.stmt, load_src: List[str], cap_src: List[str]) -> str:
    """`return LOAD + frame.size_Mbits <= CAP`  →  the comparison operator."""
    if not (isinstance(ret, ast.Return) and isinstance(ret.value, ast.Compare) and len(ret.value.ops) == 1):
        raise ValueError(f"admission: not `return a + b <= c`: {_u(ret)}")
    c = ret.value
    if not (isinstance(c.left, ast.BinOp) and isinstance(c.left.op, ast.Add)):
        raise ValueError(f"admission: left side is not a sum: {_u(c.left)}")
    if _u(c.left.left) not in load_src or _u(c.left.right) != "frame.size_Mbits":
        raise ValueError(f"admission: unexpected sum {_u(c.left)}")
    if _u(c.comparators[0]) not in cap_src:
        raise ValueError(f"admission: unexpected capacity {_u(c.comparators[0])}")
    return _cmp_op(c.ops[0])


def _link_can_transmit(link: ast.ClassDef) -> str:
    b = _body(find_method(link, "can_transmit_frame"))
    if not (len(b) == 2 and isinstance(b[0], ast.If) and _u(b[0].test) == "self.is_up" and not b[0].orelse
            and isinstance(b[1], ast.Return) and _u(b[1]) == "return False"):
        raise ValueError("Link.can_transmit_frame: not `if self.is_up: … return <test>` / `return False`")
    inner = [s for s in b[0].body if not (isinstance(s, ast.Assign) and _u(s.value) == "frame.size_Mbits")]
    if len(inner) != 1:
        raise ValueError("Link.can_transmit_frame: unexpected statements under `if self.is_up`")
    return _admission(inner[0], ["self.current_load"], ["self.bandwidth"])


def _is_up(link: ast.ClassDef) -> str:
    b = _body(find_method(link, "is_up"))
    if len(b) == 1 and _u(b[0]) == "return self.endpoint_a.enabled and self.endpoint_b.enabled":
        return "a && b"
    raise ValueError(f"Link.is_up: unexpected body {[_u(s) for s in b]}")


def _link_transmit(link: ast.ClassDef) -> List[str]:
    """Order of: reading the size, adding it to the load, calling the receiver, subtracting it again."""
    steps: List[str] = []
    size_var = None
    for s in _body(find_method(link, "transmit_frame")):
        src = _u(s)
        if isinstance(s, ast.Assign) and _u(s.value) == "frame.size_Mbits" and len(s.targets) == 1:
            size_var = _u(s.targets[0])
            steps.append("size")
        elif isinstance(s, ast.AugAssign) and _u(s.target) == "self.current_load":
            if size_var is None or _u(s.value) != size_var:
                raise ValueError(f"Link.transmit_frame: load changed by something other than the size read: {src}")
            steps.append("reserve" if isinstance(s.op, ast.Add) else "rollback" if isinstance(s.op, ast.Sub) else "?")
        elif isinstance(s, ast.If) and _u(s.test) == "receiver.receive_frame(frame)":
            inner = [x for x in s.body if not (isinstance(x, ast.Expr) and _u(x).startswith("_LOGGER."))]
            if s.orelse or len(inner) != 1 or _u(inner[0]) != "return True":
                # a load change inside the branch is a different accounting scheme: name it so the obligation fails visibly
                if any(isinstance(x, ast.AugAssign) and _u(x.target) == "self.current_load" for x in s.body):
                    steps.append("deliver")
                    steps.append("add-after-delivery")
                    continue
                raise ValueError("Link.transmit_frame: unexpected body under `if receiver.receive_frame(frame)`")
            steps.append("deliver")
        elif isinstance(s, ast.Assign) and _u(s.targets[0]) == "receiver":
            continue
        elif isinstance(s, ast.If) and _u(s.test) == "receiver == sender_nic":
            continue
        elif src == "return False":
            continue
        else:
            raise ValueError(f"Link.transmit_frame: unrecognised statement {src}")
    return steps


def skeleton(term: str, marks) -> List[str]:
    """order of first occurrence of each constructor pattern in a translated body (`Gen.LinkBody`)"""
    pos = sorted((term.find(pat), name) for pat, name in marks if term.find(pat) >= 0)
    return [n for _, n in pos]


SEND_MARKS = [(".ite (.not .enabled)", "enabled"), (".stamp", "stamp"), (".ifCan", "admission"), (".transmit", "transmit")]
# `.ifCanWith` (the caller hands the admission test a size) is an admission step too: `.ifCan` is a prefix of it
TX_MARKS = [(".size", "size"), (".setLoad (.add", "reserve"), (".deliver ", "deliver"), (".setLoad (.sub", "rollback")]
ATX_MARKS = [(".setLoad (.add", "reserve"), (".deliverAll", "deliver")]


def _send_order(fn: ast.FunctionDef, who: str) -> List[str]:
    """The order of the steps of a `send_frame`: read off the statement-by-statement translation of the body (so a rewrite the
    translator understands — an `else` branch, a positive test — gives the same order); what the body MEANS is `C18_gen_*_send_body`."""
    from harness.extract.link_body import Tr, Unrecognised
    try:
        return skeleton(Tr(fn).prog(_body(fn)), SEND_MARKS)
    except Unrecognised as e:
        # named, not raised: only `C18_gen_orders` (and the body theorem of this method) fail, the other Gen.Link obligations stay tied
        return [f"unreadable: {who}.send_frame: {e}".replace('"', "'")]


def _send_order_textual(fn: ast.FunctionDef, who: str) -> List[str]:
    steps: List[str] = []
    for s in _body(fn):
        src = _u(s)
        if isinstance(s, ast.If) and _u(s.test) == "not self.enabled" and [_u(x) for x in s.body] == ["return False"]:
            steps.append("enabled")
        elif src == "frame.set_sent_timestamp()":
            steps.append("stamp")
        elif (isinstance(s, ast.If) and isinstance(s.test, ast.UnaryOp) and isinstance(s.test.op, ast.Not)
              and _u(s.test.operand) in ("self._connected_link.can_transmit_frame(frame)", "self.airspace.can_transmit_frame(frame, self)")
              and _u(s.body[-1]) == "return False" and not s.orelse):
            steps.append("admission")
        elif src in ("super().send_frame(frame)", "self.pcap.capture_outbound(frame)"):
            continue
        elif src in ("self._connected_link.transmit_frame(sender_nic=self, frame=frame)", "self.airspace.transmit(frame, self)"):
            steps.append("transmit")
        elif src == "return True":
            continue
        else:
            raise ValueError(f"{who}.send_frame: unrecognised statement {src}")
    return steps


class _Subst(ast.NodeTransformer):
    def __init__(self, env):
        self.env = env

    def visit_Name(self, n):
        if isinstance(n.ctx, ast.Load) and n.id in self.env:
            return self.env[n.id]
        return n


def _inline_aliases(stmts: List[ast.stmt]) -> List[ast.stmt]:
    """Drop top-level `name = <attribute chain>` statements (`hz = sender_network_interface.frequency.frequency_hz`) and
    `name = self.bandwidth_load.setdefault(KEY, 0.0)` (read as `self.bandwidth_load[KEY]` after the missing-key initialisation),
    substituting them in what follows: the same meaning in another shape is read as the same."""
    import copy
    env, out = {}, []
    for st in stmts:
        st = _Subst(env).visit(copy.deepcopy(st))
        if isinstance(st, ast.Assign) and len(st.targets) == 1 and isinstance(st.targets[0], ast.Name):
            v = st.value
            chain = v
            while isinstance(chain, ast.Attribute):
                chain = chain.value
            if isinstance(v, ast.Attribute) and isinstance(chain, ast.Name):
                env[st.targets[0].id] = v
                continue
            if (isinstance(v, ast.Call) and _u(v.func) == "self.bandwidth_load.setdefault" and len(v.args) == 2
                    and _u(v.args[1]) == "0.0" and not v.keywords):
                env[st.targets[0].id] = ast.parse(f"self.bandwidth_load[{_u(v.args[0])}]", mode="eval").body
                out.append(ast.parse(f"if {_u(v.args[0])} not in self.bandwidth_load:\n    self.bandwidth_load[{_u(v.args[0])}] = 0.0").body[0])
                continue
        out.append(st)
    return out


def _key_name(src: str) -> str:
    """`sender_network_interface.frequency.frequency_hz` -> `frequency_hz` (what the per-frequency budget is indexed by)"""
    pre = "sender_network_interface.frequency."
    return src[len(pre):] if src.startswith(pre) else src


def _air_transmit(air: ast.ClassDef):
    """(steps, key of the `+=`, key the receivers are looked up by)"""
    b = _inline_aliases(_body(find_method(air, "transmit")))
    steps = []
    load_key = recv_key = None
    for s in b:
        if (isinstance(s, ast.AugAssign) and isinstance(s.target, ast.Subscript) and _u(s.target.value) == "self.bandwidth_load"
                and isinstance(s.op, ast.Add) and _u(s.value) == "frame.size_Mbits"):
            steps.append("reserve")
            load_key = _key_name(_u(s.target.slice))
        elif isinstance(s, ast.For):
            if len(s.body) != 1 or not isinstance(s.body[0], ast.If):
                raise ValueError("AirSpace.transmit: loop body is not a single `if`")
            test = _u(s.body[0].test)
            if test != "wireless_interface != sender_network_interface and wireless_interface.enabled":
                raise ValueError(f"AirSpace.transmit: unexpected receiver filter {test}")
            if [_u(x) for x in s.body[0].body] != ["wireless_interface.receive_frame(frame)"]:
                raise ValueError("AirSpace.transmit: unexpected delivery statement")
            it = s.iter
            if not (isinstance(it, ast.Call) and _u(it.func) == "self.wireless_interfaces_by_frequency.get" and len(it.args) == 2
                    and _u(it.args[1]) == "[]"):
                raise ValueError(f"AirSpace.transmit: receivers are not looked up in wireless_interfaces_by_frequency: {_u(it)}")
            recv_key = _key_name(_u(it.args[0]))
            steps.append("deliver")
        else:
            raise ValueError(f"AirSpace.transmit: unrecognised statement {_u(s)}")
    return steps, load_key, recv_key


def _air_can_transmit(air: ast.ClassDef):
    """(comparison operator, key of the budget the admission test reads)"""
    b = _inline_aliases(_body(find_method(air, "can_transmit_frame")))
    if not (len(b) == 2 and isinstance(b[0], ast.If) and not b[0].orelse and isinstance(b[0].test, ast.Compare)
            and len(b[0].test.ops) == 1 and isinstance(b[0].test.ops[0], ast.NotIn)
            and _u(b[0].test.comparators[0]) == "self.bandwidth_load"):
        raise ValueError("AirSpace.can_transmit_frame: unexpected shape (missing-key initialisation)")
    key = _u(b[0].test.left)
    hz = f"self.bandwidth_load[{key}]"
    if [_u(x) for x in b[0].body] != [f"{hz} = 0.0"]:
        raise ValueError("AirSpace.can_transmit_frame: unexpected shape (missing-key initialisation)")
    return (_admission(b[1], [hz], ["self.get_frequency_max_capacity_mbps(sender_network_interface.frequency.name)"]),
            _key_name(key))


def _reject_means_node_not_involved(fn: ast.FunctionDef, who: str) -> bool:
    """In a receive_frame: the node's receive_frame is called only on a path that then returns True (so a False answer
    means no node processing, hence nothing can have been sent while the frame was being refused)."""
    calls = 0

    def visit(block: List[ast.stmt]):
        nonlocal calls
        for i, s in enumerate(block):
            if isinstance(s, ast.Expr) and "_connected_node.receive_frame(" in _u(s):
                calls += 1
                if i + 1 >= len(block) or _u(block[i + 1]) != "return True":
                    raise ValueError(f"{who}.receive_frame: node call not followed by `return True`")
            elif isinstance(s, ast.If):
                visit(s.body)
                visit(s.orelse)
            elif isinstance(s, (ast.For, ast.While, ast.Try, ast.With)):
                raise ValueError(f"{who}.receive_frame: unexpected compound statement")
    visit(_body(fn))
    if calls != 1:
        raise ValueError(f"{who}.receive_frame: expected exactly one call of the node's receive_frame, found {calls}")
    b = _body(fn)
    if not (isinstance(b[0], ast.If) and _u(b[0].test) == "self.enabled" and _u(b[-1]) == "return False"):
        raise ValueError(f"{who}.receive_frame: not `if self.enabled: …` / `return False`")
    return True


def _bytes_per_mbit() -> int:
    fn = find_function(parse(UTILS), "convert_bytes_to_megabits")
    srcs = [_u(s) for s in _body(fn)]
    if srcs[-2:] != ["bits = B * 8.0", "return bits / 1024.0 ** 2.0"]:
        raise ValueError(f"convert_bytes_to_megabits: unexpected body {srcs}")
    return 1024 * 1024 // 8


# ------------------------------------------------------------------------------------------------- inventories (round 3)
SIM = "simulator"


def _py_files(sub: str) -> List[str]:
    from harness.lib.core import SRC
    root = SRC / sub
    return sorted(str(f.relative_to(SRC)) for f in root.rglob("*.py"))


def _iface_classes():
    """Every class under simulator/ that (transitively, by base-class name) derives from NetworkInterface, with its file."""
    classes = {}
    for rel in _py_files(SIM):
        for n in ast.walk(parse(rel)):
            if isinstance(n, ast.ClassDef):
                bases = [_u(b).split(".")[-1] for b in n.bases]
                classes.setdefault(n.name, []).append((rel, n, bases))
    derived = {"NetworkInterface"}
    changed = True
    while changed:
        changed = False
        for name, defs in classes.items():
            if name not in derived and any(b in derived for _, _, bs in defs for b in bs):
                derived.add(name)
                changed = True
    out = []
    for name in sorted(derived):
        for rel, node, _ in classes.get(name, []):
            out.append((name, rel, node))
    return out


def _is_log(s: ast.stmt) -> bool:
    src = _u(s)
    return isinstance(s, ast.Expr) and (src.startswith("_LOGGER.") or ".sys_log." in src)


def _only_logs_then(stmts: List[ast.stmt], last: str) -> bool:
    body = [x for x in stmts if not _is_log(x)]
    return [_u(x) for x in body] == [last]


def _is_stub(b: List[ast.stmt]) -> bool:
    return all(isinstance(x, ast.Pass) or _u(x) in ("return True", "return False") for x in b)


def _enable_shape(fn: ast.FunctionDef, who: str) -> List[str]:
    b = _body(fn)
    if _is_stub(b):
        return ["abstract"] if any("abstractmethod" in _u(d) for d in fn.decorator_list) else ["stub"]
    steps: List[str] = []
    for st in b:
        src = _u(st)
        if isinstance(st, ast.If) and _u(st.test) == "self.enabled" and [_u(x) for x in st.body] == ["return True"] and not st.orelse:
            steps.append("noop-if-enabled")
        elif isinstance(st, ast.If) and _u(st.test) == "not self._connected_node" and _only_logs_then(st.body, "return False"):
            steps.append("needs-node")
        elif (isinstance(st, ast.If) and _u(st.test) == "self._connected_node.operating_state != NodeOperatingState.ON"
              and _only_logs_then(st.body, "return False")):
            steps.append("needs-node-on")
        elif isinstance(st, ast.If) and _u(st.test) == "not self._connected_link" and _only_logs_then(st.body, "return False"):
            steps.append("needs-link")
        elif src == "self.enabled = True":
            steps.append("set")
        elif _is_log(st) or (isinstance(st, ast.Assign) and _u(st.targets[0]) == "self.pcap"):
            continue
        elif (isinstance(st, ast.If) and _u(st.test) == "self._connected_link" and not st.orelse
              and [_u(x) for x in st.body] == ["self._connected_link.endpoint_up()"]):
            steps.append("endpoint_up")
        elif src == "self.airspace.add_wireless_interface(self)":
            steps.append("join-airspace")
        elif src in ("super().enable()", "enabled = super().enable()"):
            steps.append("super")
        elif (isinstance(st, ast.If) and _u(st.test) == "hasattr(self._connected_node, 'default_gateway_hello')" and not st.orelse
              and [_u(x) for x in st.body] == ["self._connected_node.default_gateway_hello()"]):
            steps.append("hello")
        elif src in ("return True", "return enabled"):
            continue
        else:
            raise ValueError(f"{who}.enable: unrecognised statement {src}")
    return steps


def _disable_shape(fn: ast.FunctionDef, who: str) -> List[str]:
    b = _body(fn)
    if _is_stub(b):
        return ["abstract"] if any("abstractmethod" in _u(d) for d in fn.decorator_list) else ["stub"]
    steps: List[str] = []
    for st in b:
        src = _u(st)
        if isinstance(st, ast.If) and _u(st.test) == "not self.enabled" and [_u(x) for x in st.body] == ["return True"] and not st.orelse:
            steps.append("noop-if-disabled")
        elif src == "self.enabled = False":
            steps.append("clear")
        elif isinstance(st, ast.If) and _u(st.test) == "self._connected_node" and all(_is_log(x) for x in st.body + st.orelse):
            continue
        elif (isinstance(st, ast.If) and _u(st.test) == "self._connected_link" and not st.orelse
              and [_u(x) for x in st.body] == ["self._connected_link.endpoint_down()"]):
            steps.append("endpoint_down")
        elif src == "self.airspace.remove_wireless_interface(self)":
            steps.append("leave-airspace")
        elif src == "return True":
            continue
        else:
            raise ValueError(f"{who}.disable: unrecognised statement {src}")
    return steps


def _send_shape(fn: ast.FunctionDef, who: str) -> List[str]:
    b = _body(fn)
    if _is_stub(b):
        return ["stub"]
    if [_u(x) for x in b] == ["self._capture_nmne(frame, inbound=False)", "self._capture_traffic(frame, inbound=False)"]:
        return ["capture"]          # NetworkInterface.send_frame: bookkeeping only, reached through super()
    if who == "NetworkInterface":
        # the abstract base's bookkeeping has changed: named (what it does to the frame is in `frameCallsBetween…` / `frameWritesBetween…`)
        return ["capture", "and-more"]
    return _send_order(fn, who)


def iface_methods() -> List[tuple]:
    """(class, method, steps) for every class of the NetworkInterface hierarchy that defines send_frame / enable / disable."""
    out = []
    for name, rel, node in _iface_classes():
        for m in node.body:
            if isinstance(m, ast.FunctionDef) and m.name in ("send_frame", "enable", "disable"):
                shape = {"send_frame": _send_shape, "enable": _enable_shape, "disable": _disable_shape}[m.name](m, name)
                out.append((name, rel.split("/")[-1], m.name, shape))
    return sorted(out)


def _enclosing(tree: ast.Module):
    """node -> 'Class.function' / 'function' of the innermost enclosing def"""
    where = {}

    def visit(n, ctx):
        for c in ast.iter_child_nodes(n):
            nctx = ctx
            if isinstance(c, ast.ClassDef):
                nctx = (c.name, None)
            elif isinstance(c, (ast.FunctionDef, ast.AsyncFunctionDef)):
                nctx = (ctx[0], c.name) if ctx[1] is None else ctx
            where[c] = nctx
            visit(c, nctx)
    visit(tree, (None, None))
    return where


def _site(rel: str, ctx) -> str:
    cls, fn = ctx
    return f"{rel.split('/')[-1]}:{(cls + '.') if cls else ''}{fn or '<module>'}"


def capacity_writers() -> List[str]:
    """Every place in src/primaite that assigns a link bandwidth or a frequency data rate, or calls
    set_frequency_max_capacity_mbps / register_frequency (definitions excluded)."""
    out = set()
    for rel in _py_files(""):
        tree = parse(rel)
        where = _enclosing(tree)
        for n in ast.walk(tree):
            tgts = []
            if isinstance(n, ast.Assign):
                tgts = n.targets
            elif isinstance(n, (ast.AugAssign, ast.AnnAssign)) and getattr(n, "value", None) is not None:
                tgts = [n.target]
            for t in tgts:
                if isinstance(t, ast.Attribute) and t.attr in ("bandwidth", "data_rate_bps"):
                    out.add(f"{_site(rel, where[n])}:{_u(t)}=")
            if isinstance(n, ast.Call) and isinstance(n.func, ast.Attribute) and n.func.attr in (
                    "set_frequency_max_capacity_mbps", "register_frequency"):
                out.add(f"{_site(rel, where[n])}:{n.func.attr}()")
    return sorted(out)


def try_sites() -> List[str]:
    """Every function under simulator/network and simulator/system that contains a `try` (an exception raised below it may be
    caught there instead of reaching the caller of the action)."""
    out = set()
    for sub in ("simulator/network", "simulator/system"):
        for rel in _py_files(sub):
            tree = parse(rel)
            where = _enclosing(tree)
            for n in ast.walk(tree):
                if isinstance(n, ast.Try):
                    out.add(_site(rel, where[n]))
    return sorted(out)


def remote_executors() -> List[str]:
    """Software that executes a request on its node: call sites of `.apply_request(` under simulator/system, and call sites of
    `.execute(` on a terminal connection (the callers through which a frame's payload becomes a request)."""
    out = set()
    for rel in _py_files("simulator/system"):
        tree = parse(rel)
        where = _enclosing(tree)
        for n in ast.walk(tree):
            if isinstance(n, ast.Call) and isinstance(n.func, ast.Attribute):
                if n.func.attr == "apply_request":
                    out.add(f"{_site(rel, where[n])}:apply_request")
                elif n.func.attr == "execute" and ("terminal" in _u(n.func.value).lower() or "connection" in _u(n.func.value).lower()):
                    out.add(f"{_site(rel, where[n])}:execute")
    return sorted(out)


def toggle_sites() -> List[str]:
    """Every call of `.enable()` / `.disable()` on something that is (by its name) a network interface or port, and of
    `enable_port` / `disable_port`, under simulator/ — the code that can change `enabled` of an interface."""
    out = set()
    iface_names = {c for c, _, _ in _iface_classes()}
    for rel in _py_files(SIM):
        tree = parse(rel)
        where = _enclosing(tree)
        for n in ast.walk(tree):
            if isinstance(n, ast.Assign) and rel.startswith("simulator/network"):
                for t in n.targets:      # direct writes of the flag
                    if isinstance(t, ast.Attribute) and t.attr == "enabled":
                        out.add(f"{_site(rel, where[n])}:{_u(t)}={_u(n.value)}")
            if not (isinstance(n, ast.Call) and isinstance(n.func, ast.Attribute)):
                continue
            recv = _u(n.func.value)
            if n.func.attr in ("enable_port", "disable_port"):
                out.add(f"{_site(rel, where[n])}:{n.func.attr}")
            elif n.func.attr in ("enable", "disable") and not n.args and not n.keywords:
                # every zero-argument enable()/disable() call, except a non-interface class (Service) calling its own
                cls = where[n][0] or ""
                if recv in ("self", "super()") and cls not in iface_names:
                    continue
                out.add(f"{_site(rel, where[n])}:{recv}.{n.func.attr}")
    return sorted(out)


def size_is_whole_bytes() -> bool:
    """`Frame.size` = float(len(json)) + payload_size, payload_size = DataPacket.get_packet_size() = packet_payload_size +
    float(len(json)); the only writer of packet_payload_size passes `file.sim_size`, declared `Optional[int]`.  So every size is
    an integer-valued float."""
    frame = class_def(parse("simulator/network/transmission/data_link_layer.py"), "Frame")
    sz = [_u(x) for x in _body(find_method(frame, "size"))]
    if sz != ["payload_size = 0.0", "if isinstance(self.payload, DataPacket):\n    payload_size = self.payload.get_packet_size()",
              "return float(len(self.model_dump_json().encode('utf-8'))) + payload_size"]:
        raise ValueError(f"Frame.size: unexpected body {sz}")
    if [_u(x) for x in _body(find_method(frame, "size_Mbits"))] != ["return convert_bytes_to_megabits(self.size)"]:
        raise ValueError("Frame.size_Mbits: unexpected body")
    pk = class_def(parse("simulator/network/protocols/packet.py"), "DataPacket")
    if [_u(x) for x in _body(find_method(pk, "get_packet_size"))] != [
            "return self.packet_payload_size + float(len(self.model_dump_json().encode('utf-8')))"]:
        raise ValueError("DataPacket.get_packet_size: unexpected body")
    writers = []
    for rel in _py_files(""):
        for n in ast.walk(parse(rel)):
            if isinstance(n, ast.keyword) and n.arg == "packet_payload_size":
                writers.append((rel.split("/")[-1], _u(n.value)))
            if isinstance(n, (ast.Assign, ast.AugAssign)):
                for t in (n.targets if isinstance(n, ast.Assign) else [n.target]):
                    if isinstance(t, ast.Attribute) and t.attr == "packet_payload_size":
                        writers.append((rel.split("/")[-1], "assignment"))
    if writers != [("ftp_service.py", "file.sim_size")]:
        raise ValueError(f"packet_payload_size is written by {writers}")
    fcls = class_def(parse("simulator/file_system/file.py"), "File")
    ann = [_u(x) for x in fcls.body if isinstance(x, ast.AnnAssign) and _u(x.target) == "sim_size"]
    if ann != ["sim_size: Optional[int] = None"]:
        raise ValueError(f"File.sim_size: unexpected declaration {ann}")
    return True


# ------------------------------------------------------------------------------------------------- round 4
def _writes_of(attr: str) -> List[str]:
    """Every place in src/primaite that writes the attribute `attr` (a dict or a number): assignment / augmented assignment /
    annotated declaration / `del` of the attribute or of a subscript of it, and calls of a mutating dict method on it."""
    out = set()
    mutators = {"pop", "clear", "update", "setdefault", "popitem", "__setitem__", "__delitem__"}

    def hits(t: ast.AST) -> bool:
        while isinstance(t, ast.Subscript):
            t = t.value
        return (isinstance(t, ast.Attribute) and t.attr == attr) or (isinstance(t, ast.Name) and t.id == attr)

    for rel in _py_files(""):
        tree = parse(rel)
        where = _enclosing(tree)
        for n in ast.walk(tree):
            tgts, kind = [], None
            if isinstance(n, ast.Assign):
                tgts, kind = n.targets, "="
            elif isinstance(n, ast.AugAssign):
                tgts, kind = [n.target], type(n.op).__name__ + "="
            elif isinstance(n, ast.AnnAssign):
                tgts, kind = [n.target], "declared"
            elif isinstance(n, ast.Delete):
                tgts, kind = n.targets, "del"
            for t in tgts:
                base_t = t
                while isinstance(base_t, ast.Subscript):
                    base_t = base_t.value
                if isinstance(base_t, ast.Name) and where[n][1] is not None:
                    continue        # a LOCAL variable of that name inside a function is not the attribute (class-level declarations are)
                if hits(t):
                    sub = "[…]" if isinstance(t, ast.Subscript) else ""
                    out.add(f"{_site(rel, where[n])}:{attr}{sub} {kind}")
            if (isinstance(n, ast.Call) and isinstance(n.func, ast.Attribute) and n.func.attr in mutators and hits(n.func.value)):
                out.add(f"{_site(rel, where[n])}:{attr}.{n.func.attr}()")
    return sorted(out)


# methods whose whole body is translated statement by statement (harness/extract/link_body.py, `C18_gen_*_body`): HOW they write the
# load is what those theorems are about, so the inventory only says THAT they do (a rewrite of the same meaning keeps the inventory)
TRANSLATED = {"airspace.py:AirSpace.can_transmit_frame", "airspace.py:AirSpace.transmit", "base.py:Link.transmit_frame"}


def _collapse_translated(ws: List[str]) -> List[str]:
    out = set()
    for w in ws:
        site = ":".join(w.split(":")[:2])
        out.add(site + ":(body translated)" if site in TRANSLATED else w)
    return sorted(out)


def air_load_writers() -> List[str]:
    return _collapse_translated(_writes_of("bandwidth_load"))


def link_load_writers() -> List[str]:
    return _collapse_translated(_writes_of("current_load"))


def air_membership_ops() -> List[tuple]:
    """`AirSpace.add_wireless_interface` / `remove_wireless_interface` / `clear`: strict shapes; they handle the interface registry
    and the per-frequency interface lists and NOTHING else (in particular not `bandwidth_load`)."""
    air = class_def(parse(AIR), "AirSpace")
    hz = "wireless_interface.frequency.frequency_hz"
    add = [_u(x) for x in _body(find_method(air, "add_wireless_interface"))]
    exp_add = [f"if wireless_interface.mac_address not in self.wireless_interfaces:\n"
               f"    self.wireless_interfaces[wireless_interface.mac_address] = wireless_interface\n"
               f"    if {hz} not in self.wireless_interfaces_by_frequency:\n"
               f"        self.wireless_interfaces_by_frequency[{hz}] = []\n"
               f"    self.wireless_interfaces_by_frequency[{hz}].append(wireless_interface)"]
    steps_add = ["if-absent", "register", "ensure-list", "append-to-list"] if add == exp_add else ["unrecognised"]
    rem = [_u(x) for x in _body(find_method(air, "remove_wireless_interface"))]
    exp_rem = [f"if wireless_interface.mac_address in self.wireless_interfaces:\n"
               f"    self.wireless_interfaces.pop(wireless_interface.mac_address)\n"
               f"    self.wireless_interfaces_by_frequency[{hz}].remove(wireless_interface)"]
    steps_rem = ["if-present", "unregister", "remove-from-list"] if rem == exp_rem else ["unrecognised"]
    clr = [_u(x) for x in _body(find_method(air, "clear"))]
    steps_clr = (["clear-registry", "clear-lists"]
                 if clr == ["self.wireless_interfaces.clear()", "self.wireless_interfaces_by_frequency.clear()"] else ["unrecognised"])
    # an unexpected body is NAMED (not raised) so that exactly `C18_gen_air_membership_ops` (and, if a load is touched,
    # `C18_gen_load_writers`) fails
    return [("add_wireless_interface", steps_add), ("clear", steps_clr), ("remove_wireless_interface", steps_rem)]


def _frame_touches(fn: ast.FunctionDef, var: str = "frame"):
    """(writes, calls) a function makes on its frame argument: assignments / augmented assignments / deletes whose target is rooted at
    `var`, and method calls on `var` or on something reached from it."""
    writes, calls = set(), set()

    def root(t):
        while isinstance(t, (ast.Attribute, ast.Subscript)):
            t = t.value
        return t.id if isinstance(t, ast.Name) else None

    for n in ast.walk(fn):
        tgts = n.targets if isinstance(n, (ast.Assign, ast.Delete)) else [n.target] if isinstance(n, (ast.AugAssign, ast.AnnAssign)) else []
        for t in tgts:
            if not isinstance(t, ast.Name) and root(t) == var:
                writes.add(_u(t))
        if isinstance(n, ast.Call) and isinstance(n.func, ast.Attribute) and root(n.func.value) == var:
            calls.add(_u(n.func) + "()")
    return writes, calls


def size_window() -> dict:
    """F-28b's class, for every send path: the size the admission test sees and the size the accounting loads are two evaluations of
    `frame.size_Mbits` (one inside `can_transmit_frame`, one at the top of `transmit_frame` / `AirSpace.transmit`).  What is
    extracted: (1) how often each of the four functions evaluates it; (2) the statements between the admission `if` and the transmit
    call in every transmitting `send_frame` (already restricted by `_send_order` to `super().send_frame(frame)` and
    `self.pcap.capture_outbound(frame)`); (3) everything those callees — `NetworkInterface.send_frame`, `_capture_nmne`,
    `_capture_traffic`, `PacketCapture.capture_outbound` — do to the frame: writes (must be none) and method calls (read-only
    serialisation); (4) nothing precedes the size read in `transmit_frame` / `transmit` except choosing the receiver."""
    base = parse(BASE)
    air = class_def(parse(AIR), "AirSpace")
    link = class_def(base, "Link")
    ni = class_def(base, "NetworkInterface")
    pcap = class_def(parse("simulator/system/core/packet_capture.py"), "PacketCapture")

    def n_evals(fn):
        return sum(1 for n in ast.walk(fn) if isinstance(n, ast.Attribute) and n.attr in ("size_Mbits", "size") and _u(n.value) == "frame")
    evals = [("AirSpace.can_transmit_frame", n_evals(find_method(air, "can_transmit_frame"))),
             ("AirSpace.transmit", n_evals(find_method(air, "transmit"))),
             ("Link.can_transmit_frame", n_evals(find_method(link, "can_transmit_frame"))),
             ("Link.transmit_frame", n_evals(find_method(link, "transmit_frame")))]
    writes, calls = set(), set()
    for cls, m in ((ni, "send_frame"), (ni, "_capture_nmne"), (ni, "_capture_traffic"), (pcap, "capture_outbound")):
        w_, c_ = _frame_touches(find_method(cls, m))
        writes |= {f"{cls.name}.{m}:{x}" for x in w_}
        calls |= {f"{cls.name}.{m}:{x}" for x in c_}
    # the first load-relevant statement of AirSpace.transmit is the `+= frame.size_Mbits`; of Link.transmit_frame the size read
    first_air = _u(_body(find_method(air, "transmit"))[0])
    if "frame.size_Mbits" not in first_air:
        raise ValueError("AirSpace.transmit: the size is not read first")
    pre = []
    for st in _body(find_method(link, "transmit_frame")):
        if isinstance(st, ast.Assign) and _u(st.value) == "frame.size_Mbits":
            break
        pre.append(_u(st))
    if pre != ["receiver = self.endpoint_a", "if receiver == sender_nic:\n    receiver = self.endpoint_b"]:
        raise ValueError(f"Link.transmit_frame: unexpected statements before the size is read: {pre}")
    return {"evals": evals, "writes": sorted(writes), "calls": sorted(calls)}


# ------------------------------------------------------------------------------------------------- round 6: the reset path
EXPECTED_RESET_PATH = [
    ("PrimaiteGame.pre_timestep", ["self.simulation.pre_timestep(self.step_counter)"]),
    ("Simulation.pre_timestep", ["super", "self.network.pre_timestep(timestep)"]),
    ("Network.pre_timestep", ["super", "self.airspace.reset_bandwidth_load()", "every node: pre_timestep (unconditional)",
                              "every link: pre_timestep (unconditional)"]),
    ("Link.pre_timestep", ["super", "self.current_load = 0.0"]),
    ("AirSpace.reset_bandwidth_load", ["self.bandwidth_load = {}"]),
    ("Network.connect", ["registers the link in self.links"]),
]


def _reset_steps(fn: ast.FunctionDef) -> List[str]:
    out = []
    for st in _body(fn):
        src = _u(st)
        if src.startswith("super().pre_timestep("):
            out.append("super")
        elif (isinstance(st, ast.For) and not st.orelse and isinstance(st.target, ast.Name)
              and _u(st.iter) in ("self.nodes.values()", "self.links.values()")):
            what = "node" if "nodes" in _u(st.iter) else "link"
            body = [_u(x) for x in st.body]
            if body == [f"{st.target.id}.pre_timestep(timestep)"]:
                out.append(f"every {what}: pre_timestep (unconditional)")
            else:
                out.append(f"every {what}: " + " ; ".join(b.replace("\n", " ") for b in body))
        else:
            out.append(src.replace("\n", " "))
    return out


def tick_reset_path() -> List[tuple]:
    game = class_def(parse("game/game.py"), "PrimaiteGame")
    sim = class_def(parse("simulator/sim_container.py"), "Simulation")
    net = class_def(parse(CONTAINER), "Network")
    link = class_def(parse(BASE), "Link")
    air = class_def(parse(AIR), "AirSpace")
    return [("PrimaiteGame.pre_timestep", _reset_steps(find_method(game, "pre_timestep"))),
            ("Simulation.pre_timestep", _reset_steps(find_method(sim, "pre_timestep"))),
            ("Network.pre_timestep", _reset_steps(find_method(net, "pre_timestep"))),
            ("Link.pre_timestep", _reset_steps(find_method(link, "pre_timestep"))),
            ("AirSpace.reset_bandwidth_load", _reset_steps(find_method(air, "reset_bandwidth_load"))),
            ("Network.connect", ["registers the link in self.links" if any(_u(x) == "self.links[link.uuid] = link"
                                                                            for x in ast.walk(find_method(net, "connect")) if isinstance(x, ast.Assign))
                                 else "does NOT register the link in self.links"])]


STEP_CALLS = ("pre_timestep", "apply_agent_actions", "advance_timestep")


def _game_receiver(f: ast.AST, in_game_class: bool) -> bool:
    """`self.game.<m>` / `<x>.game.<m>` anywhere, `self.<m>` inside `PrimaiteGame` itself"""
    if not isinstance(f, ast.Attribute):
        return False
    r = _u(f.value)
    return r.endswith(".game") or r == "game" or (in_game_class and r == "self")


def step_loops() -> List[tuple]:
    """The loop of ONE step of an episode, wherever it is written: every function of src/primaite that calls the game's
    `apply_agent_actions()` or `advance_timestep()` (`PrimaiteGame.step`, `PrimaiteGymEnv.step`, `PrimaiteRayMARLEnv.step`), with
    its calls of pre_timestep / apply_agent_actions / advance_timestep in source order.  A call that is not a plain top-level
    statement of the function (under an `if` / loop / `try` / `with`, or part of a larger expression) is marked `(conditional)`:
    the tick of the property is the step, and the reset must be the unconditional first of the three."""
    out = []
    for rel in _py_files(""):
        tree = parse(rel)
        for cls in [n for n in ast.walk(tree) if isinstance(n, ast.ClassDef)] + [None]:
            fns = [f for f in (cls.body if cls is not None else tree.body) if isinstance(f, (ast.FunctionDef, ast.AsyncFunctionDef))]
            for fn in fns:
                in_game = cls is not None and cls.name == "PrimaiteGame"
                top = {id(st.value) for st in _body(fn) if isinstance(st, ast.Expr)}
                calls = []
                for n in ast.walk(fn):
                    if isinstance(n, ast.Call) and isinstance(n.func, ast.Attribute) and n.func.attr in STEP_CALLS \
                            and _game_receiver(n.func, in_game):
                        calls.append((n.lineno, n.col_offset, n.func.attr + ("" if id(n) in top else " (conditional)")))
                names = [c[2] for c in sorted(calls)]
                if any(x.split()[0] in ("apply_agent_actions", "advance_timestep") for x in names):
                    out.append((f"{rel.split('/')[-1]}:{(cls.name + '.') if cls is not None else ''}{fn.name}", names))
    return sorted(out)


def timestep_drivers() -> List[str]:
    """Every call in src/primaite of `pre_timestep` / `apply_timestep` on a *simulation* or *network* object (the calls that open
    and that run a tick of the whole simulation), by enclosing function."""
    out = set()
    for rel in _py_files(""):
        tree = parse(rel)
        where = _enclosing(tree)
        for n in ast.walk(tree):
            if isinstance(n, ast.Call) and isinstance(n.func, ast.Attribute) and n.func.attr in ("pre_timestep", "apply_timestep"):
                r = _u(n.func.value)
                if r.split(".")[-1] in ("simulation", "sim", "network", "net"):
                    out.add(f"{_site(rel, where[n])}:{r}.{n.func.attr}")
    return sorted(out)


def link_construction_sites() -> List[str]:
    out = set()
    for rel in _py_files(""):
        tree = parse(rel)
        where = _enclosing(tree)
        for n in ast.walk(tree):
            if isinstance(n, ast.Call) and _u(n.func).split(".")[-1] == "Link":
                out.add(_site(rel, where[n]))
    return sorted(out)


def airspace_argument_sites() -> List[str]:
    out = set()
    for rel in _py_files(""):
        tree = parse(rel)
        where = _enclosing(tree)
        for n in ast.walk(tree):
            if isinstance(n, ast.Call):
                for kw in n.keywords:
                    if kw.arg == "airspace":
                        out.add(f"{_site(rel, where[n])}:airspace={_u(kw.value)}")
    return sorted(out)


def lst(xs: List[str]) -> str:
    return "[" + ", ".join(f'"{x}"' for x in xs) + "]"


def emit() -> str:
    base = parse(BASE)
    air_t = parse(AIR)
    link = class_def(base, "Link")
    air = class_def(air_t, "AirSpace")
    try:
        op_link = _link_can_transmit(link)
    except ValueError:
        # another shape: the comparison is read off the statement-by-statement translation (what the body MEANS — the `is_up` test
        # included — is `C18_gen_link_can_transmit_body`, which then has no proof if the meaning changed)
        from harness.extract.link_body import Tr as _Tr
        try:
            _fn = find_method(link, "can_transmit_frame")
            term = _Tr(_fn).prog(_body(_fn))
        except Exception as e:
            term = f"unreadable {e}"
        import re as _re
        les = _re.findall(r"\.le \(\.add \.load (?:\.size|\.arg|\(\.var \d+\))\) \.cap", term)
        lts = _re.findall(r"\.lt \(\.add \.load (?:\.size|\.arg|\(\.var \d+\))\) \.cap", term)
        if les and ".lt " not in term:
            op_link = "≤"
        elif lts and ".le " not in term:
            op_link = "<"
        else:
            # named, not raised: `C18_gen_admit` alone fails (with the body theorem), the rest of Gen.Link stays tied
            op_link = "≤ cap ∧ False ∧ 0 ≤"

    op_air, key_admit = _air_can_transmit(air)
    is_up = _is_up(link)
    from harness.extract.link_body import Tr
    try:
        _tf = find_method(link, "transmit_frame")
        tx = skeleton(Tr(_tf).prog(_body(_tf)), TX_MARKS)
    except Exception as e:
        tx = [f"unreadable: Link.transmit_frame: {e}".replace('"', "'")]
    wired = _send_order(find_method(class_def(base, "WiredNetworkInterface"), "send_frame"), "WiredNetworkInterface")
    sw = _send_order(find_method(class_def(parse(SWITCH), "SwitchPort"), "send_frame"), "SwitchPort")
    wl = _send_order(find_method(class_def(air_t, "WirelessNetworkInterface"), "send_frame"), "WirelessNetworkInterface")
    atx, key_load, key_recv = _air_transmit(air)
    # per-tick reset: NAMED step by step (round 6) instead of raised, so that exactly `C18_gen_tick_reset_path` / `C18_gen_flags` fail
    reset_path = tick_reset_path()
    tick_resets = reset_path == EXPECTED_RESET_PATH
    # endpoint_down
    ed = _body(find_method(link, "endpoint_down"))
    if not (len(ed) == 1 and isinstance(ed[0], ast.If) and _u(ed[0].test) == "not self.is_up" and not ed[0].orelse):
        raise ValueError("Link.endpoint_down: unexpected shape")
    ed_inner = [x for x in ed[0].body if not (isinstance(x, ast.Expr) and _u(x).startswith("_LOGGER."))]
    if not ed_inner:
        disable_clears = False       # F-40 repaired: the load is kept until pre_timestep
    elif [_u(x) for x in ed_inner] == ["self.current_load = 0.0"]:
        disable_clears = True        # the code before the repair: named, so that the obligation fails visibly
    else:
        raise ValueError(f"Link.endpoint_down: unrecognised statements {[_u(x) for x in ed_inner]}")
    # nothing but transmit_frame (+=, -=), pre_timestep (= 0.0) and, before the repair, endpoint_down writes current_load
    writers = set()
    for fn in link.body:
        if isinstance(fn, ast.FunctionDef):
            for node in ast.walk(fn):
                tgt = node.target if isinstance(node, (ast.AugAssign, ast.AnnAssign)) else None
                tgts = node.targets if isinstance(node, ast.Assign) else ([tgt] if tgt is not None else [])
                if any(_u(t) == "self.current_load" for t in tgts):
                    writers.add(fn.name)
    allowed = {"transmit_frame", "pre_timestep"} | ({"endpoint_down"} if disable_clears else set())
    if writers != allowed:
        raise ValueError(f"Link: current_load is written by {sorted(writers)}, expected {sorted(allowed)}")
    # disable() calls endpoint_down after clearing the flag; enable()/disable() are no-ops when already in that state
    wni = class_def(base, "WiredNetworkInterface")
    dis = [_u(s) for s in _body(find_method(wni, "disable"))]
    if not (dis[0].startswith("if not self.enabled:\n    return True") and dis[1] == "self.enabled = False"
            and any("self._connected_link.endpoint_down()" in d for d in dis[2:])):
        raise ValueError("WiredNetworkInterface.disable: unexpected shape")
    en = [_u(s) for s in _body(find_method(wni, "enable"))]
    if not en[0].startswith("if self.enabled:\n    return True"):
        raise ValueError("WiredNetworkInterface.enable: unexpected shape")
    rej = all([
        _reject_means_node_not_involved(find_method(class_def(parse(HOST), "NIC"), "receive_frame"), "NIC"),
        _reject_means_node_not_involved(find_method(class_def(parse(ROUTER), "RouterInterface"), "receive_frame"), "RouterInterface"),
        _reject_means_node_not_involved(find_method(class_def(parse(SWITCH), "SwitchPort"), "receive_frame"), "SwitchPort"),
        _reject_means_node_not_involved(find_method(class_def(parse(WROUTER), "WirelessAccessPoint"), "receive_frame"), "WirelessAccessPoint"),
    ])
    szw = size_window()
    ifm = ",\n".join(f'  ("{c}", "{f}", "{m}", {lst(st)})' for c, f, m, st in iface_methods())
    return f"""namespace Primaite.Gen.Link
/-- `Link.can_transmit_frame`: `if self.is_up: return self.current_load + frame.size_Mbits <= self.bandwidth`; `return False` -/
def admits (load size cap : Nat) : Bool := decide (load + size {op_link} cap)
/-- `AirSpace.can_transmit_frame`: `return bandwidth_load[hz] + frame.size_Mbits <= get_frequency_max_capacity_mbps(name)` -/
def airAdmits (load size cap : Nat) : Bool := decide (load + size {op_air} cap)
/-- `Link.is_up` over (`endpoint_a.enabled`, `endpoint_b.enabled`) -/
def isUp (a b : Bool) : Bool := {is_up}
/-- order of the steps of `Link.transmit_frame` -/
def transmitOrder : List String := {lst(tx)}
/-- order of the steps of `AirSpace.transmit` -/
def airTransmitOrder : List String := {lst(atx)}
def wiredSendOrder : List String := {lst(wired)}
def switchSendOrder : List String := {lst(sw)}
def wirelessSendOrder : List String := {lst(wl)}
/-- `Link.pre_timestep` sets `current_load = 0.0`; `Network.pre_timestep` calls it for every link and clears the airspace loads -/
def tickResetsEveryLoad : Bool := {"true" if tick_resets else "false"}
/-- the reset path of a tick boundary, statement by statement: `PrimaiteGame.pre_timestep`, `Simulation.pre_timestep`,
`Network.pre_timestep` (a loop is `unconditional` when its body is exactly the one call), `Link.pre_timestep`,
`AirSpace.reset_bandwidth_load` -/
def tickResetPath : List (String × List String) := [{", ".join(f'("{n}", {lst(st)})' for n, st in reset_path)}]
/-- every place in src/primaite that constructs a `Link` (a link that is not made by `Network.connect` is not in `Network.links` and
would never be reset) and every place that passes an `airspace=` argument (a wireless node built on another AirSpace than its
network's would never be reset) -/
def linkConstructionSites : List String := {lst(link_construction_sites())}
def airspaceArgumentSites : List String := {lst(airspace_argument_sites())}
/-- `WiredNetworkInterface.disable` clears the flag, then calls `Link.endpoint_down`; does that assign `current_load = 0.0`?
(no other method than `transmit_frame` and `pre_timestep` writes `current_load`: enforced by the extractor) -/
def disableClearsLoad : Bool := {"true" if disable_clears else "false"}
/-- `AirSpace`: `bandwidth_load` and the receiver lists are keyed by `frequency.frequency_hz`; the capacity of the admission
test is `get_frequency_max_capacity_mbps(sender.frequency.name)` (both shapes are enforced by the extractor) -/
def airLoadKey : String := "{key_load}"
/-- what each place indexes by: the budget the admission test reads, the budget `transmit` adds to, and the list of receivers
`transmit` walks (the PHYSICAL channel: who hears the frame).  A budget indexed by anything else than the receivers' key is not a
budget of the channel the frames go out on. -/
def airKeys : List (String × String) := [("can_transmit_frame:budget", "{key_admit}"), ("transmit:budget", "{key_load}"), ("transmit:receivers", "{key_recv}")]
def airCapacityKey : String := "name"
/-- NIC / RouterInterface / SwitchPort / WirelessAccessPoint `.receive_frame` call their node only on the path that returns True -/
def rejectedMeansNodeNotInvolved : Bool := {"true" if rej else "false"}
/-- `convert_bytes_to_megabits`: `B * 8.0 / 1024.0 ** 2.0`, i.e. this many bytes per unit of load -/
def bytesPerMbit : Nat := {_bytes_per_mbit()}
/-- `Frame.size`, `DataPacket.get_packet_size`, the only writer of `packet_payload_size` and `File.sim_size : Optional[int]`
have the shapes that make every frame size an integer-valued float (enforced by the extractor) -/
def sizeIsWholeBytes : Bool := {"true" if size_is_whole_bytes() else "false"}
/-- every class of the `NetworkInterface` hierarchy (all of simulator/) that defines `send_frame`, `enable` or `disable`:
(class, file, method, steps in source order) -/
def ifaceMethods : List (String × String × String × List String) := [
{ifm}
]
/-- every place in src/primaite that assigns a `bandwidth` / `data_rate_bps` attribute or calls
`set_frequency_max_capacity_mbps` / `register_frequency` -/
def capacityWriters : List String := {lst(capacity_writers())}
/-- every function under simulator/network and simulator/system that contains a `try` statement -/
def trySites : List String := {lst(try_sites())}
/-- software that turns a received payload into a request on its node: call sites of `apply_request` under simulator/system, and
of `.execute(` on a terminal connection -/
def remoteExecutors : List String := {lst(remote_executors())}
/-- every call that can change `enabled` of a network interface (under simulator/) -/
def toggleSites : List String := {lst(toggle_sites())}
/-- every place in src/primaite that writes `bandwidth_load` (the airspace's per-frequency load) -/
def airLoadWriters : List String := {lst(air_load_writers())}
/-- every place in src/primaite that writes `current_load` (a link's load) -/
def linkLoadWriters : List String := {lst(link_load_writers())}
/-- `AirSpace.add_wireless_interface` / `clear` / `remove_wireless_interface`: the steps of each (strict shapes: registry and
per-frequency interface lists only) -/
def airMembershipOps : List (String × List String) := [{", ".join(f'("{n}", {lst(st)})' for n, st in air_membership_ops())}]
/-- how many times each admission / accounting function evaluates `frame.size_Mbits` -/
def sizeEvaluations : List (String × Nat) := [{", ".join(f'("{n}", {k})' for n, k in szw["evals"])}]
/-- what the code that runs between the admission test and the accounting (`NetworkInterface.send_frame`, `_capture_nmne`,
`_capture_traffic`, `PacketCapture.capture_outbound`) writes on the frame, and which methods of the frame it calls -/
def frameWritesBetweenAdmissionAndAccounting : List String := {lst(szw["writes"])}
def frameCallsBetweenAdmissionAndAccounting : List String := {lst(szw["calls"])}
/-- the loop of one step of an episode wherever it is written (every function that calls the game's `apply_agent_actions` or
`advance_timestep`): its calls of pre_timestep / apply_agent_actions / advance_timestep in source order; `(conditional)` = not a
plain top-level statement of the function -/
def stepLoops : List (String × List String) := [{", ".join(f'("{n}", {lst(st)})' for n, st in step_loops())}]
/-- every call of `pre_timestep` / `apply_timestep` on a simulation / network object -/
def timestepDrivers : List String := {lst(timestep_drivers())}
end Primaite.Gen.Link
"""
