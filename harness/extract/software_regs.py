"""C13: TRANSLATE the port-table / class-map statements of `SoftwareManager.install` and `SoftwareManager.uninstall` into Lean
functions over the Registries model's association lists (Gen/SoftwareRegs.lean).  Props/C13Regs.lean proves them equal to what
`Registries.Node.uninstall` / `registerSvc` / `registerApp` do, for every registry state — including programs that SHARE a
(port, protocol) key.  Semantic: the clean-up of `uninstall` may be the shipped search loop (`for key, value in D.items(): if <test on
value>: D.pop(key); break`), a pop by key, or a `del`; each is translated to what it does (then the equality theorem decides).
Strict: anything else raises.  Pure `ast`."""
import ast
from typing import List

from harness.extract.util import class_def, find_method, parse

GEN_NAME = "SoftwareRegs"
SM = "simulator/system/core/software_manager.py"
TABLES = {"self.port_protocol_mapping": "pm", "self._software_class_to_name_map": "cm"}


class Unsupported(Exception):
    pass


def _value_test(t: ast.AST, table: str) -> str:
    """test on the loop's `value` -> Lean predicate body over the entry `e`"""
    s = ast.unparse(t)
    if table == "pm":
        if s == "value.name == software_name":
            return "nameOf e.2 == some name"
        if s in ("value is software", "value == software", "value.uuid == software.uuid"):
            return "e.2 == u"
    if table == "cm":
        if s == "value == software_name":
            return "e.2 == name"
        if s in ("value == software.name",):
            return "e.2 == oname"
        if s in ("key is type(software)", "key == type(software)"):
            return "e.1 == cid"
    raise Unsupported(f"test of the clean-up loop over {table}: {s}")


def _cleanup(stmts: List[ast.stmt], expr_of: str, table: str) -> str:
    """all statements of `uninstall` that mutate the table -> a Lean expression over `pm` / `cm`"""
    out = table
    for st in stmts:
        touched = any(ast.unparse(n).startswith(expr_of) for n in ast.walk(st) if isinstance(n, (ast.Attribute,)))
        if not touched:
            continue
        if isinstance(st, ast.For) and ast.unparse(st.iter) == expr_of + ".items()" and ast.unparse(st.target) in ("key, value", "(key, value)") \
                and len(st.body) == 1 and isinstance(st.body[0], ast.If) and not st.body[0].orelse and not st.orelse:
            body = st.body[0].body
            if [ast.unparse(b) for b in body] != [f"{expr_of}.pop(key)", "break"]:
                raise Unsupported("body of the clean-up loop: " + "; ".join(ast.unparse(b) for b in body))
            out = f"(delFirst (fun e => {_value_test(st.body[0].test, table)}) {out})"
            continue
        s = ast.unparse(st)
        if table == "pm" and s in (f"{expr_of}.pop((software.port, software.protocol), None)", f"{expr_of}.pop((software.port, software.protocol))",
                                   f"del {expr_of}[software.port, software.protocol]", f"del {expr_of}[(software.port, software.protocol)]"):
            out = f"(ddel key {out})"
            continue
        if table == "cm" and s in (f"{expr_of}.pop(type(software), None)", f"{expr_of}.pop(type(software))", f"del {expr_of}[type(software)]"):
            out = f"(ddel cid {out})"
            continue
        raise Unsupported(f"statement of uninstall touching {expr_of}: {s[:100]}")
    return out


NOOPS = ("self.software[software_name].uninstall()", "software.uninstall()", "software.parent = None", "del software", "return")


def _is_log(st: ast.stmt) -> bool:
    return isinstance(st, ast.Expr) and isinstance(st.value, ast.Call) and \
        any(ast.unparse(st.value.func).startswith(p) for p in ("self.sys_log.", "self.node.sys_log.", "_LOGGER."))


def _kind_test(t: ast.AST) -> str:
    s = ast.unparse(t)
    if s == "isinstance(software, Application)":
        return "(n.findApp u).isSome"
    if s == "isinstance(software, Service)":
        return "(n.findSvc u).isSome"
    raise Unsupported("test in uninstall: " + s)


def _un_block(stmts: List[ast.stmt], ind: int) -> str:
    """statements of `uninstall` after the object was popped -> Lean, threading `st : Node` through `Option` (`none` = raises)"""
    pad = "  " * ind
    if not stmts:
        return pad + "some st"
    st, rest = stmts[0], stmts[1:]
    s = ast.unparse(st)
    if s in NOOPS or _is_log(st) or (isinstance(st, ast.Expr) and isinstance(st.value, ast.Constant)):
        return _un_block(rest, ind)
    if s == "self.node.applications.pop(software.uuid)":
        return f"{pad}let st : Node := {{ st with applications := st.applications.filter (· != u) }}\n" + _un_block(rest, ind)
    if s == "self.node.services.pop(software.uuid)":
        return f"{pad}let st : Node := {{ st with services := st.services.filter (· != u) }}\n" + _un_block(rest, ind)
    # `software.name` is the popped OBJECT's name (`oname`), `software_name` the key it was popped under (`name`); that the two are
    # equal is an invariant of `install` (C13_regwf_*: every entry of `software` is stored under its object's name), not an assumption
    for mgr, fld in (("_application_request_manager", "appRoutes"), ("_service_request_manager", "svcRoutes")):
        for arg, nm in (("software.name", "oname"), ("software_name", "name")):
            if s == f"self.node.{mgr}.remove_request({arg})":
                return (f"{pad}(if dhas {nm} st.{fld} then some {{ st with {fld} := ddel {nm} st.{fld} }} else none).bind fun st =>\n"
                        + _un_block(rest, ind))
    if isinstance(st, ast.If):
        branches, cur = [], st
        while True:
            branches.append((_kind_test(cur.test), cur.body))
            if len(cur.orelse) == 1 and isinstance(cur.orelse[0], ast.If):
                cur = cur.orelse[0]
                continue
            tail = cur.orelse
            break
        out = pad + "("
        for k, (t, body) in enumerate(branches):
            out += ("if " if k == 0 else f"{pad} else if ") + t + " then\n" + _un_block(body, ind + 2) + "\n"
        out += f"{pad} else\n" + _un_block(tail, ind + 2) + ").bind fun st =>\n"
        return out + _un_block(rest, ind)
    for expr_of, table, field in (("self.port_protocol_mapping", "pm", "portMap"), ("self._software_class_to_name_map", "cm", "classMap")):
        if any(ast.unparse(x).startswith(expr_of) for x in ast.walk(st) if isinstance(x, ast.Attribute)):
            e = _cleanup([st], expr_of, table)
            e = e.replace("nameOf e.2", "n.nameOf e.2")
            if "ddel key" in e:
                e = f"(match n.metaOf u with | some m => {e.replace('ddel key', 'ddel (m.cls.port, m.cls.proto)')} | none => {table})"
            if "ddel cid" in e or "e.1 == cid" in e:
                e = f"(match n.metaOf u with | some m => {e.replace('cid', 'm.cls.cid')} | none => {table})"
            return f"{pad}let st : Node := {{ st with {field} := (fun {table} => {e}) st.{field} }}\n" + _un_block(rest, ind)
    raise Unsupported("statement of uninstall: " + s[:100])


def uninstall_method() -> str:
    un = find_method(class_def(parse(SM), "SoftwareManager"), "uninstall")
    body = [s for s in un.body if not (isinstance(s, ast.Expr) and isinstance(s.value, ast.Constant))]
    # 1. the guard: `if software_name not in self.software: <log>; return`
    g = body[0]
    if not (isinstance(g, ast.If) and ast.unparse(g.test) == "software_name not in self.software" and not g.orelse
            and all(_is_log(x) or ast.unparse(x) == "return" for x in g.body) and ast.unparse(g.body[-1]) == "return"):
        raise Unsupported("guard of uninstall: " + ast.unparse(g)[:100])
    rest = body[1:]
    # 2. statements before the pop may only be no-ops; then `software = self.software.pop(software_name)`
    k = next((i for i, s in enumerate(rest) if ast.unparse(s) == "software = self.software.pop(software_name)"), None)
    if k is None or any(ast.unparse(s) not in NOOPS and not _is_log(s) for s in rest[:k]):
        raise Unsupported("uninstall does not start with (no-ops and) `software = self.software.pop(software_name)`")
    return f"""/-- TRANSLATED statement by statement: `SoftwareManager.uninstall(software_name)`.  `u` = the popped object; `isinstance` is read off
the heap the object lives in; `software.name` is the popped object's own name `oname` (NOT assumed equal to the key `software_name`:
`C13_regwf_named` proves it on every reachable node); `none` = raises -/
def uninstallMethod (n : Node) (name : String) : Option Node :=
  if !(dhas name n.software) then some n else
  match dget name n.software with
  | none => some n
  | some u =>
    let oname : String := (n.nameOf u).getD ""
    let st : Node := {{ n with software := ddel name n.software }}
{_un_block(rest[k + 1:], 2)}
"""


def _ctor_ok(st: ast.stmt) -> bool:
    """`if software_config is None: software = software_class(…) else: software = software_class(…, config=software_config)`"""
    if not (isinstance(st, ast.If) and ast.unparse(st.test) == "software_config is None" and len(st.body) == 1 and len(st.orelse) == 1):
        return False
    for b, with_cfg in ((st.body[0], False), (st.orelse[0], True)):
        if not (isinstance(b, ast.Assign) and ast.unparse(b.targets[0]) == "software" and isinstance(b.value, ast.Call)
                and ast.unparse(b.value.func) == "software_class" and not b.value.args):
            return False
        kws = {k.arg: ast.unparse(k.value) for k in b.value.keywords}
        if ("config" in kws) != with_cfg or (with_cfg and kws["config"] != "software_config"):
            return False
    return True


def _in_block(stmts: List[ast.stmt], kind: str, ind: int) -> str:
    """statements of `install` after the constructor, for an object of the given kind (`isinstance` tests evaluated), threading
    `st : Node` (registries) and `o` (the new object)"""
    pad = "  " * ind
    if not stmts:
        heap = "svcs" if kind == "svc" else "apps"
        fld = "s" if kind == "svc" else "a"
        return (f"{pad}some {{ st with {heap} := st.{heap} ++ [{{ m := {{ uid := u, cls := c, listen := listen }}, {fld} := o }}], "
                f"next := u + 1 }}")
    st, rest = stmts[0], stmts[1:]
    s = ast.unparse(st)
    Obj = "Svc" if kind == "svc" else "App"
    if _is_log(st) or s in ("software.parent = self.node", "software.software_manager = self"):
        return _in_block(rest, kind, ind)
    if isinstance(st, ast.If) and ast.unparse(st.test) == "software.name in self.software" and not st.orelse:
        inner = [x for x in st.body if not _is_log(x)]
        if [ast.unparse(x) for x in inner] != ["self.uninstall(software.name)"]:
            raise Unsupported("eviction branch of install: " + "; ".join(ast.unparse(x) for x in inner))
        return (f"{pad}(if dhas c.name st.software then uninstallMethod st c.name else some st).bind fun st =>\n" + _in_block(rest, kind, ind))
    if isinstance(st, ast.If) and ast.unparse(st.test).startswith("isinstance(software, "):
        cur, chosen = st, None
        while True:
            t = ast.unparse(cur.test)
            if t not in ("isinstance(software, Application)", "isinstance(software, Service)"):
                raise Unsupported("test in install: " + t)
            if (t == "isinstance(software, Application)") == (kind == "app"):
                chosen = cur.body
                break
            if len(cur.orelse) == 1 and isinstance(cur.orelse[0], ast.If):
                cur = cur.orelse[0]
                continue
            chosen = cur.orelse
            break
        return _in_block(list(chosen) + rest, kind, ind)
    if s == "self.node.applications[software.uuid] = software":
        return f"{pad}let st : Node := {{ st with applications := st.applications ++ [u] }}\n" + _in_block(rest, kind, ind)
    if s == "self.node.services[software.uuid] = software":
        return f"{pad}let st : Node := {{ st with services := st.services ++ [u] }}\n" + _in_block(rest, kind, ind)
    if s == "self.node._application_request_manager.add_request(software.name, RequestType(func=software._request_manager))":
        return f"{pad}let st : Node := {{ st with appRoutes := dset c.name u st.appRoutes }}\n" + _in_block(rest, kind, ind)
    if s == "self.node._service_request_manager.add_request(software.name, RequestType(func=software._request_manager))":
        return f"{pad}let st : Node := {{ st with svcRoutes := dset c.name u st.svcRoutes }}\n" + _in_block(rest, kind, ind)
    if s == "software.start()" and kind == "svc":
        return f"{pad}let o : Svc := (o.start st.isOn).1\n" + _in_block(rest, kind, ind)
    if s == "software.install()":
        if kind == "svc":   # Software.install is a no-op for the lifecycle layer (class-specific set-up: DNSClient, DatabaseService)
            return _in_block(rest, kind, ind)
        return f"{pad}let o : App := (o.apply .install).1\n" + _in_block(rest, kind, ind)
    if s == "software.operating_state = ApplicationOperatingState.CLOSED" and kind == "app":
        return f"{pad}let o : App := (o.apply .forceClosed).1\n" + _in_block(rest, kind, ind)
    if s == "self.software[software.name] = software":
        return f"{pad}let st : Node := {{ st with software := dset c.name u st.software }}\n" + _in_block(rest, kind, ind)
    if s == "self._software_class_to_name_map[software_class] = software.name":
        return f"{pad}let st : Node := {{ st with classMap := dset c.cid c.name st.classMap }}\n" + _in_block(rest, kind, ind)
    if s == "self.port_protocol_mapping[software.port, software.protocol] = software":
        return f"{pad}let st : Node := {{ st with portMap := dset (c.port, c.proto) u st.portMap }}\n" + _in_block(rest, kind, ind)
    raise Unsupported(f"statement of install ({kind}): " + s[:110])


def install_methods() -> str:
    ins = find_method(class_def(parse(SM), "SoftwareManager"), "install")
    body = [s for s in ins.body if not (isinstance(s, ast.Expr) and isinstance(s.value, ast.Constant))]
    g = body[0]
    if not (isinstance(g, ast.If) and ast.unparse(g.test) == "software_class in self._software_class_to_name_map and software_config is None"
            and not g.orelse and all(_is_log(x) or ast.unparse(x) == "return" for x in g.body) and ast.unparse(g.body[-1]) == "return"):
        raise Unsupported("guard of install: " + ast.unparse(g)[:120])
    if not _ctor_ok(body[1]):
        raise Unsupported("constructor statement of install: " + ast.unparse(body[1])[:120])
    out = ""
    for kind, Obj, ctor in (("svc", "Svc", "{ sw := Soft.configured health fixDur }"),
                            ("app", "App", "(if c.ctorRuns then ({ sw := Soft.configured health fixDur } : App).run n.isOn else { sw := Soft.configured health fixDur })")):
        out += f"""/-- TRANSLATED statement by statement: `SoftwareManager.install(software_class, software_config)` for {'a Service' if kind == 'svc' else 'an Application'} class `c`
(`cfg` = a configuration was passed; `listen`, `health`, `fixDur` = what the constructor reads from it or the class defaults; the
constructor of an application class with `ctorRuns` calls `self.run()`); the new object `o` joins the heap as it is when the method
returns; `none` = raises -/
def installMethod{Obj} (n : Node) (c : Cls) (cfg : Bool) (listen : List Nat) (health : Health) (fixDur : Int) : Option Node :=
  if (dhas c.cid n.classMap && !cfg) then some n else
  let u : Nat := n.next
  let o : {Obj} := {ctor}
  let st : Node := n
{_in_block(body[2:], kind, 1)}

"""
    return out


def emit() -> str:
    cls = class_def(parse(SM), "SoftwareManager")
    un = find_method(cls, "uninstall")
    ins = find_method(cls, "install")
    body = [s for s in un.body if not (isinstance(s, ast.Expr) and isinstance(s.value, ast.Constant))]
    pm = _cleanup(body, "self.port_protocol_mapping", "pm")
    cm = _cleanup(body, "self._software_class_to_name_map", "cm")
    # install: every statement that writes one of the two tables
    ipm, icm = "pm", "cm"
    for st in ast.walk(ins):
        if isinstance(st, ast.Assign) and len(st.targets) == 1 and isinstance(st.targets[0], ast.Subscript):
            tgt = ast.unparse(st.targets[0].value)
            if tgt == "self.port_protocol_mapping":
                if ast.unparse(st.targets[0].slice) not in ("(software.port, software.protocol)",) or ast.unparse(st.value) != "software":
                    raise Unsupported("port-table write of install: " + ast.unparse(st))
                ipm = f"(dset key u {ipm})"
            if tgt == "self._software_class_to_name_map":
                if ast.unparse(st.targets[0].slice) != "software_class" or ast.unparse(st.value) != "software.name":
                    raise Unsupported("class-map write of install: " + ast.unparse(st))
                icm = f"(dset cid name {icm})"
        if isinstance(st, ast.Call) and isinstance(st.func, ast.Attribute) and ast.unparse(st.func.value) in TABLES \
                and st.func.attr in ("pop", "update", "setdefault", "clear", "popitem"):
            raise Unsupported("install mutates a table through " + ast.unparse(st)[:80])
    return f"""import PrimaiteModel.Model.Registries
namespace Primaite.Gen.SoftwareRegs
open Primaite Primaite.Lifecycle Primaite.Registries

/-- TRANSLATED: what `SoftwareManager.uninstall(name)` does to `port_protocol_mapping` (`u` = the removed object, `key` = its
`(port, protocol)`, `nameOf` = the `.name` of an object) -/
def uninstallPortMap (nameOf : Nat → Option String) (name : String) (u : Nat) (key : Nat × Nat)
    (pm : List ((Nat × Nat) × Nat)) : List ((Nat × Nat) × Nat) :=
  {pm}
/-- … and to `_software_class_to_name_map` (`cid` = the removed object's class) -/
def uninstallClassMap (name : String) (cid : String) (cm : List (String × String)) : List (String × String) :=
  {cm}
/-- TRANSLATED: the table writes of `SoftwareManager.install` for the new object `u` of class `cid`, name `name`, key `key` -/
def installPortMap (u : Nat) (key : Nat × Nat) (pm : List ((Nat × Nat) × Nat)) : List ((Nat × Nat) × Nat) :=
  {ipm}
def installClassMap (name : String) (cid : String) (cm : List (String × String)) : List (String × String) :=
  {icm}

{uninstall_method()}
{install_methods()}
end Primaite.Gen.SoftwareRegs
"""
