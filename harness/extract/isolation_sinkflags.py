"""E10b-3 (C04): objects whose EXISTENCE depends on a process-wide output flag, and every place that dereferences them. Pure ast.

`SIM_OUTPUT` (written by every `PrimaiteIO(...)`, one per environment) is classified sink-only: its readers are log calls, and a log call
is modelled as having no effect on the trajectory (`Cmd.log`). That abstraction is sound only if a log call cannot RAISE or take another
path through the simulation on account of the flag. The way it did (finding F-C04-r7-1): an attribute is CREATED under a test on the flag
when the object is built (`SysLog.setup_logger` returns early when `save_sys_logs` is off; `PacketCapture.__init__` sets its loggers up
only when `save_pcap_logs` is on) and DEREFERENCED under a test on the flag when something is logged - the flag being whatever the
environment built LAST left there.

Emits (Gen/IsolationSinkFlags.lean):
  sinkGlobals     the module-level objects treated as process-wide output settings (tied to the derived class in Props/C04)
  flagReaders     every function with an `if` whose test mentions `<sink global>.<attr>`, with the attributes tested
  condAttrs       (class, attribute, how): `self.<attribute>` is assigned under control of such a test - inside the `if`, after an early
                  `return` / `raise` guarded by it, or in a method that is CALLED under control of such a test (by method name)
  condAttrUses    (class, function, expression, verdict) for every dereference `<recv>.<attribute>.<…>` / `<recv>.<attribute>(…)` /
                  `<recv>.<attribute>[…]` of a conditional attribute anywhere in the package; verdict:
                    "assigned-before"  an earlier statement of the same block (or an enclosing one) of the same function assigns it
                    "guarded"          an enclosing `if` has the conjunct `<recv>.<attribute> is not None` / `<recv>.<attribute>` (truthiness),
                                       or the use is in the `else` of `… is None` / `not …`, or an earlier `if <recv>.<attribute> is None: return`
                    "UNGUARDED"        anything else: whether the dereference works depends on the flag at build time AND at use time
  condAttrInit    (class, attribute, initialised): the class gives the attribute a value unconditionally (top-level statement of `__init__`
                  before any call on self, or a class-level default), so that the guard itself cannot raise AttributeError
"""
from __future__ import annotations

import ast
from typing import Dict, List, Optional, Set, Tuple

from harness.extract.sharedstate import _Mod, _class_table, _files, _walk_same_scope

GEN_NAME = "IsolationSinkFlags"

SINK_GLOBALS = ["SIM_OUTPUT"]


def _mentions_flag(test: ast.AST) -> List[str]:
    out = []
    for n in ast.walk(test):
        if isinstance(n, ast.Attribute) and isinstance(n.value, ast.Name) and n.value.id in SINK_GLOBALS:
            out.append(f"{n.value.id}.{n.attr}")
    return out


def _ends_block(body: List[ast.stmt]) -> bool:
    return bool(body) and isinstance(body[-1], (ast.Return, ast.Raise, ast.Continue, ast.Break))


def _self_assigned(stmts: List[ast.stmt]) -> List[str]:
    """attributes of `self` (re)bound by these statements (any depth, same function)"""
    out = []
    for st in stmts:
        for n in _walk_same_scope(st):
            tg = []
            if isinstance(n, ast.Assign):
                tg = n.targets
            elif isinstance(n, ast.AnnAssign) and n.value is not None:
                tg = [n.target]
            for t in tg:
                for tt in (t.elts if isinstance(t, (ast.Tuple, ast.List)) else [t]):
                    if isinstance(tt, ast.Attribute) and isinstance(tt.value, ast.Name) and tt.value.id == "self" and tt.attr not in out:
                        out.append(tt.attr)
    return out


def _method_calls(stmts: List[ast.stmt]) -> List[str]:
    """names of methods called on any receiver (`x.m(...)`) by these statements"""
    out = []
    for st in stmts:
        for n in _walk_same_scope(st):
            if isinstance(n, ast.Call) and isinstance(n.func, ast.Attribute) and n.func.attr not in out:
                out.append(n.func.attr)
    return out


def _controlled(fn: ast.AST) -> List[Tuple[List[str], List[ast.stmt]]]:
    """(flags tested, statements under control of that test) for every flag test of the function: the branches of the `if`, and - when a
    branch ends the block (early return / raise) - the statements that follow the `if` in its block"""
    out = []

    def block(stmts: List[ast.stmt]):
        for i, st in enumerate(stmts):
            if isinstance(st, ast.If):
                flags = _mentions_flag(st.test)
                if flags:
                    ctl = list(st.body) + list(st.orelse)
                    if _ends_block(st.body) or _ends_block(st.orelse):
                        ctl += stmts[i + 1:]
                    out.append((flags, ctl))
            for field in ("body", "orelse", "finalbody"):
                sub = getattr(st, field, None)
                if isinstance(sub, list) and sub and isinstance(sub[0], ast.stmt):
                    block(sub)
            for h in getattr(st, "handlers", []) or []:
                block(h.body)
    block(fn.body)
    return out


def _functions(mods: List[_Mod]):
    """(module, class name or None, qualified name, FunctionDef) for every function / method of the package"""
    def visit(m, body, prefix, cls):
        for n in body:
            if isinstance(n, ast.ClassDef):
                yield from visit(m, n.body, prefix + n.name + ".", n.name)
            elif isinstance(n, (ast.FunctionDef, ast.AsyncFunctionDef)):
                yield (m, cls, prefix + n.name, n)
                yield from visit(m, n.body, prefix + n.name + ".", cls)
    for m in mods:
        yield from visit(m, m.tree.body, "", None)


def _is_attr_of(e: ast.AST, attr: str) -> bool:
    return isinstance(e, ast.Attribute) and e.attr == attr


def _guard_conjuncts(test: ast.AST) -> List[ast.AST]:
    if isinstance(test, ast.BoolOp) and isinstance(test.op, ast.And):
        out = []
        for v in test.values:
            out += _guard_conjuncts(v)
        return out
    return [test]


def _is_present_test(c: ast.AST, target: str) -> bool:
    """`<target> is not None`, `<target>` (truthiness), `<target> != None`"""
    if ast.unparse(c) == target:
        return True
    if isinstance(c, ast.Compare) and len(c.ops) == 1 and ast.unparse(c.left) == target and isinstance(c.comparators[0], ast.Constant) \
            and c.comparators[0].value is None:
        return isinstance(c.ops[0], (ast.IsNot, ast.NotEq))
    return False


def _is_absent_test(c: ast.AST, target: str) -> bool:
    """`<target> is None`, `not <target>`, `<target> == None`"""
    if isinstance(c, ast.UnaryOp) and isinstance(c.op, ast.Not) and ast.unparse(c.operand) == target:
        return True
    if isinstance(c, ast.Compare) and len(c.ops) == 1 and ast.unparse(c.left) == target and isinstance(c.comparators[0], ast.Constant) \
            and c.comparators[0].value is None:
        return isinstance(c.ops[0], (ast.Is, ast.Eq))
    return False


def _verdict(fn: ast.AST, use: ast.AST, target_expr: ast.AST) -> str:
    """is the dereference `use` of `target_expr` (= `<recv>.<attr>`) protected inside `fn`?"""
    target = ast.unparse(target_expr)

    def search(stmts: List[ast.stmt], protected: bool) -> Optional[str]:
        assigned = False
        for st in stmts:
            inside = any(n is use for n in ast.walk(st))
            if inside:
                if isinstance(st, ast.If):
                    in_test = any(n is use for n in ast.walk(st.test))
                    if in_test:
                        # `a is not None and a.b` inside one test: protected by an earlier conjunct
                        conj = _guard_conjuncts(st.test)
                        for k, c in enumerate(conj):
                            if any(n is use for n in ast.walk(c)):
                                if any(_is_present_test(p, target) for p in conj[:k]):
                                    return "guarded"
                        return "guarded" if protected else ("assigned-before" if assigned else "UNGUARDED")
                    pos = any(_is_present_test(c, target) for c in _guard_conjuncts(st.test))
                    neg = _is_absent_test(st.test, target)
                    in_body = any(n is use for b in st.body for n in ast.walk(b))
                    if in_body:
                        r = search(st.body, protected or pos)
                    else:
                        r = search(st.orelse, protected or neg)
                    if r == "UNGUARDED" and assigned:
                        return "assigned-before"
                    return r
                for field in ("body", "orelse", "finalbody"):
                    sub = getattr(st, field, None)
                    if isinstance(sub, list) and sub and isinstance(sub[0], ast.stmt) and any(n is use for b in sub for n in ast.walk(b)):
                        r = search(sub, protected)
                        if r == "UNGUARDED" and assigned:
                            return "assigned-before"
                        return r
                for h in getattr(st, "handlers", []) or []:
                    if any(n is use for b in h.body for n in ast.walk(b)):
                        r = search(h.body, protected)
                        return "assigned-before" if (r == "UNGUARDED" and assigned) else r
                if protected:
                    return "guarded"
                return "assigned-before" if assigned else "UNGUARDED"
            # statements before the use, in this block
            if isinstance(st, (ast.Assign, ast.AnnAssign)):
                tg = st.targets if isinstance(st, ast.Assign) else [st.target]
                val = st.value
                if any(ast.unparse(t) == target for t in tg) and val is not None and not (isinstance(val, ast.Constant) and val.value is None):
                    assigned = True
            if isinstance(st, ast.If) and _is_absent_test(st.test, target) and _ends_block(st.body):
                protected = True     # `if x is None: return` earlier in the block
        return None
    return search(fn.body, False) or "UNGUARDED"


def build() -> dict:
    mods = [_Mod(f) for f in _files()]
    classes = _class_table(mods)
    fns = list(_functions(mods))
    readers: List[Tuple[str, List[str]]] = []
    cond: Dict[Tuple[str, str], str] = {}
    called_under_flag: Dict[str, str] = {}     # method name -> where it is called under control of a flag test
    for m, cls, qual, fn in fns:
        ctl = _controlled(fn)
        if not ctl:
            continue
        flags: List[str] = []
        for fl, stmts in ctl:
            for f in fl:
                if f not in flags:
                    flags.append(f)
            if cls is not None:
                for a in _self_assigned(stmts):
                    cond.setdefault((cls, a), f"assigned in {m.name}:{qual} under a test on {', '.join(fl)}")
            for name in _method_calls(stmts):
                called_under_flag.setdefault(name, f"{m.name}:{qual} under a test on {', '.join(fl)}")
        readers.append((f"{m.name}:{qual}", flags))
    # methods called under control of a flag test: what they assign on their own object is conditional as well (by method name, over the
    # classes that define a method of that name; logging / print / file methods of other libraries define nothing here)
    def init_calls_unconditionally(cls: str, name: str) -> bool:
        """does the class's own `__init__` call `self.<name>(…)` in a top-level statement (then what the method assigns always exists)?"""
        for (_, c, _) in classes.get(cls, []):
            for st in c.body:
                if isinstance(st, ast.FunctionDef) and st.name == "__init__":
                    for s2 in st.body:
                        if isinstance(s2, (ast.Expr, ast.Assign, ast.AnnAssign)) and any(
                                isinstance(n, ast.Call) and isinstance(n.func, ast.Attribute) and n.func.attr == name
                                and isinstance(n.func.value, ast.Name) and n.func.value.id == "self" for n in ast.walk(s2)):
                            return True
        return False
    for m, cls, qual, fn in fns:
        if cls is None or fn.name not in called_under_flag or fn.name.startswith("__"):
            continue
        if init_calls_unconditionally(cls, fn.name):
            continue
        for a in _self_assigned(fn.body):
            cond.setdefault((cls, a), f"assigned by {m.name}:{qual}, which is called in {called_under_flag[fn.name]}")
    # a class-level declaration / unconditional __init__ assignment = initialised
    init_rows = []
    for (cls, a), how in sorted(cond.items()):
        ok = False
        for (_, c, _) in classes.get(cls, []):
            for st in c.body:
                if isinstance(st, ast.AnnAssign) and isinstance(st.target, ast.Name) and st.target.id == a and st.value is not None:
                    ok = True
                if isinstance(st, ast.Assign) and any(isinstance(t, ast.Name) and t.id == a for t in st.targets):
                    ok = True
                if isinstance(st, ast.FunctionDef) and st.name == "__init__":
                    for s2 in st.body:
                        # top-level statements of __init__ up to the first call on self (which may already use the attribute)
                        if a in _self_assigned([s2]) and not isinstance(s2, (ast.If, ast.For, ast.While, ast.Try, ast.With)):
                            ok = True
                            break
                        if any(isinstance(n, ast.Call) and isinstance(n.func, ast.Attribute) and isinstance(n.func.value, ast.Name)
                               and n.func.value.id == "self" for n in ast.walk(s2)):
                            break
        init_rows.append((cls, a, ok))
    # names that hold an object of an owning class: annotated `x: C` / `x: Optional[C]` (fields, arguments), or bound to `C(…)`
    import re
    owner_classes = {c for (c, _) in cond}
    holders: Dict[str, Set[str]] = {}
    for m in mods:
        for n in ast.walk(m.tree):
            if isinstance(n, ast.AnnAssign):
                names, ann, val = [n.target], ast.unparse(n.annotation), n.value
            elif isinstance(n, ast.arg) and n.annotation is not None:
                names, ann, val = [ast.Name(id=n.arg)], ast.unparse(n.annotation), None
            elif isinstance(n, ast.Assign):
                names, ann, val = n.targets, "", n.value
            else:
                continue
            ctor = ast.unparse(val.func).split(".")[-1] if isinstance(val, ast.Call) else ""
            for c in owner_classes:
                if re.search(r"\b" + re.escape(c) + r"\b", ann) or ctor == c:
                    for t in names:
                        nm = t.attr if isinstance(t, ast.Attribute) else (t.id if isinstance(t, ast.Name) else "")
                        if nm:
                            holders.setdefault(c, set()).add(nm)
    # dereferences anywhere in the package
    attr_names: Set[str] = {a for (_, a) in cond}
    uses = []
    for m, cls, qual, fn in fns:
        for n in _walk_same_scope(fn):
            tgt = None
            if isinstance(n, ast.Attribute) and isinstance(n.value, ast.Attribute) and n.value.attr in attr_names and isinstance(n.ctx, ast.Load):
                tgt = n.value
            elif isinstance(n, ast.Subscript) and isinstance(n.value, ast.Attribute) and n.value.attr in attr_names:
                tgt = n.value
            elif isinstance(n, ast.Call) and isinstance(n.func, ast.Attribute) and n.func.attr in attr_names:
                tgt = n.func
            if tgt is None or n is fn:
                continue
            # whose attribute is it? `self.<a>` inside a class that owns a conditional attribute of that name, or a foreign receiver
            # (`self.sys_log.logger`): by attribute name over the owning classes, the receiver's class is not known syntactically
            owners = sorted(c for (c, a) in cond if a == tgt.attr)
            recv = ast.unparse(tgt.value)
            if recv != "self":
                # a foreign receiver counts when its last name is known to HOLD an object of an owning class (`sys_log: SysLog`,
                # `self.pcap = PacketCapture(…)`); `agent.logger` (an AgentLog) is somebody else's attribute of the same name
                last = tgt.value.attr if isinstance(tgt.value, ast.Attribute) else (tgt.value.id if isinstance(tgt.value, ast.Name) else "")
                owners = [c for c in owners if last in holders.get(c, set())]
                if not owners:
                    continue
            if recv == "self" and cls is not None and cls not in owners:
                # `self.<a>` of a class that has no conditional attribute of that name (e.g. an agent's own `logger`): another object
                anc = {cls}
                for (_, c, _) in classes.get(cls, []):
                    for b in c.bases:
                        anc.add(ast.unparse(b).split(".")[-1])
                if not (anc & set(owners)):
                    continue
            uses.append(("/".join(owners), f"{m.name}:{qual}", ast.unparse(n)[:90], _verdict(fn, n, tgt)))
    return {"readers": sorted(readers), "cond": sorted((c, a, how) for (c, a), how in cond.items()), "init": init_rows,
            "uses": sorted(set(uses)), "holders": {c: sorted(v) for c, v in sorted(holders.items())}}


def _s(x: str) -> str:
    return '"' + x.replace("\\", "\\\\").replace('"', "'").replace("\n", " ") + '"'


def emit() -> str:
    b = build()
    lines = ["-- GENERATED by harness/extract/isolation_sinkflags.py from the PrimAITE source. Do not edit.",
             "namespace Primaite.Gen.IsolationSinkFlags", "",
             "/-- module-level objects treated as process-wide output settings -/",
             "def sinkGlobals : List String := [" + ", ".join(_s(g) for g in SINK_GLOBALS) + "]", "",
             "/-- functions with an `if` whose test mentions an attribute of a sink global, and the attributes tested -/",
             "def flagReaders : List (String × List String) := ["]
    lines.append(",\n".join(f"  ({_s(f)}, [" + ", ".join(_s(x) for x in fl) + "])" for f, fl in b["readers"]) + "]")
    lines += ["", "/-- (class, attribute, how): `self.<attribute>` is created under control of a test on a sink global -/",
              "def condAttrs : List (String × String × String) := ["]
    lines.append(",\n".join(f"  ({_s(c)}, {_s(a)}, {_s(h)})" for c, a, h in b["cond"]) + "]")
    lines += ["", "/-- (owning class(es), function, expression, verdict) for every dereference of such an attribute -/",
              "def condAttrUses : List (String × String × String × String) := ["]
    lines.append(",\n".join(f"  ({_s(c)}, {_s(f)}, {_s(e)}, {_s(v)})" for c, f, e, v in b["uses"]) + "]")
    lines += ["", "/-- (class, attribute, has an unconditional initial value) -/",
              "def condAttrInit : List (String × String × Bool) := ["]
    lines.append(",\n".join(f"  ({_s(c)}, {_s(a)}, {'true' if ok else 'false'})" for c, a, ok in b["init"]) + "]")
    lines += ["", "end Primaite.Gen.IsolationSinkFlags", ""]
    return "\n".join(lines)


if __name__ == "__main__":
    import json
    print(json.dumps(build(), indent=1))
