"""Statement-by-statement translation of the FTP layer as far as the database's two transfers use it (C17, round 4)

    FTPClient.send_file / request_file / _connect_to_server / _disconnect_from_server / receive / _process_ftp_command
    FTPServer.receive / _process_ftp_command
    FTPServiceABC._process_ftp_command / _store_data / _send_data / _retrieve_data / send        (once per side)
    IOSoftware.send                                                                              (once per side)

into Lean functions over `FtpW` (both ends of the conversation: the database host's `Server`, the backup host's `Backup`,
and the path between them; Model/Database.lean).  Props/C17Ftp.lean proves the translated `send_file` / `request_file`
EQUAL to the model's `ftpSendFile` / `ftpRequestFile`, so a changed branch, status code, guard or order in the FTP code
breaks a proof obligation.

What is NOT translated but stated as glue (constant Lean text below, kept as small as possible): the delivery of a frame
from one host to the other (`netToServer` / `netToClient`): a frame reaches the other side iff the path in that direction is
open (and, when it carries a file, no link refuses it), and is then handed to the other side's TRANSLATED `receive`, which
mutates the packet object the sender still holds (in the real code the payload object itself travels).  What `send` reports
for a frame that is lost on the way is an adversarial input (`w.lost`).

Vocabulary (the abstraction the translation commits to):
  a (folder name, file name) pair          -> one `Loc` (database/database.db, <uuid>/database.db, downloads/database.db)
  self.file_system.get_file(pair)          -> `w.getFile side loc`            create_file(pair) -> `w.createFile side loc`
                                              (`none` = it raises: a live file of that name exists)
  payload.ftp_command / status_code        -> `p.cmd` / `p.status`            ftp_command_args[...] -> `p.src`, `p.dest`, `p.health`
  self._can_perform_action()               -> `w.canAct side`                 len(self.connections) -> `w.s.ftpConn` (client)
  client add_connection(...)               -> `ftpConn := true`               server add/terminate_connection -> not modelled
  isinstance(payload, FTPPacket)           -> true (only FTP packets are addressed to port 21 here)
  is_valid_port(args)                      -> `p.portArg`
Pure `ast`, never imports primaite.  Strict: any statement outside this vocabulary raises Unsupported; a method that cannot be
translated gets a stub that makes the theorems about it fail, and is reported as its own broken obligation.
"""
import ast
from typing import Dict, List, Optional

from harness.extract.util import class_def, find_method, parse

GEN_NAME = "DatabaseFtpTr"
CLI = "simulator/system/services/ftp/ftp_client.py"
SRV = "simulator/system/services/ftp/ftp_server.py"
ABC = "simulator/system/services/ftp/ftp_service.py"
SW = "simulator/system/software.py"
SVC = "simulator/system/services/service.py"


class Unsupported(Exception):
    pass


def u(n: ast.AST) -> str:
    return ast.unparse(n)


def is_doc(st: ast.stmt) -> bool:
    return isinstance(st, ast.Expr) and isinstance(st.value, ast.Constant) and isinstance(st.value.value, str)


def skippable(st: ast.stmt) -> bool:
    if is_doc(st):
        return True
    if isinstance(st, ast.Expr) and isinstance(st.value, ast.Call) and u(st.value.func).startswith(("self.sys_log.", "_LOGGER.")):
        return True
    if isinstance(st, ast.Assign) and len(st.targets) == 1 and u(st.targets[0]) == "self._active":
        return True
    if isinstance(st, (ast.Assign, ast.AnnAssign)) and u(st.targets[0] if isinstance(st, ast.Assign) else st.target) == "software_manager" \
            and u(st.value) == "self.software_manager":
        return True
    if isinstance(st, ast.If) and st.body and all(skippable(x) for x in st.body + st.orelse):
        return True
    return False


CMD = {"PORT": "port", "STOR": "stor", "RETR": "retr", "QUIT": "quit"}
STATUS = {"OK": "ok", "ERROR": "error", "NOT_FOUND": "notFound"}
SEND_KW_OK = {"payload", "dest_ip_address", "dest_port", "session_id", "ip_protocol"}


class Tr:
    """One method, one side.  State threaded: `w : FtpW`; packets are Lean variables named after the Python ones."""

    def __init__(self, side: str, kind: str, names: Dict[str, str]):
        self.side = side            # "client" | "server"
        self.kind = kind            # "wb" (FtpW × Bool) | "wp" (FtpW × FtpPkt) | "wpb" (FtpW × FtpPkt × Bool)
        self.N = names              # python callee -> lean function name (for this side)
        self.n = 0

    def fresh(self, b: str) -> str:
        self.n += 1
        return f"{b}{self.n}"

    @property
    def S(self) -> str:
        return f"Side.{self.side}"

    # ---- results
    def ret(self, env: dict, b: str) -> str:
        p = env.get("#pkt")
        if self.kind == "wb":
            return f"(w, {b})"
        if self.kind == "wp":
            return f"(w, {p})"
        return f"(w, {p}, {b})"

    # ---- a (folder, file) pair -> Loc
    def loc_of(self, kw: Dict[str, ast.AST], env: dict, fkey="folder_name", nkey="file_name") -> str:
        if fkey not in kw or nkey not in kw:
            raise Unsupported(f"file-system call without {fkey}/{nkey}")
        a, b = env.get(u(kw[fkey])), env.get(u(kw[nkey]))
        if not (a and b and a[0] == "locpart" and b[0] == "locpart" and a[1] == b[1]):
            raise Unsupported(f"file-system call on ({u(kw[fkey])}, {u(kw[nkey])}): not one location")
        return a[2]

    def bexp(self, e: ast.AST, env: dict) -> str:
        """a pure Boolean expression"""
        t = u(e)
        if isinstance(e, ast.Constant) and isinstance(e.value, bool):
            return "true" if e.value else "false"
        if isinstance(e, ast.UnaryOp) and isinstance(e.op, ast.Not):
            return f"(!{self.bexp(e.operand, env)})"
        if isinstance(e, ast.BoolOp):
            op = " && " if isinstance(e.op, ast.And) else " || "
            return "(" + op.join(self.bexp(v, env) for v in e.values) + ")"
        if t in ("self._can_perform_action()", "super()._can_perform_action()"):
            return f"(w.canAct {self.S})"
        if t == "len(self.connections)":
            if self.side != "client":
                raise Unsupported("len(self.connections) on the server side")
            return "w.s.ftpConn"
        if t == "isinstance(payload, FTPPacket)":
            return "true"
        if isinstance(e, ast.Name) and env.get(t, ("",))[0] == "bool":
            return env[t][1]
        if isinstance(e, ast.Name) and env.get(t, ("",))[0] == "file":
            return f"(w.getFile {self.S} {env[t][1]}).isSome"
        if isinstance(e, ast.Call) and u(e.func) == "is_valid_port" and len(e.args) == 1 and u(e.args[0]).endswith(".ftp_command_args"):
            return f"{self.pkt(e.args[0].value, env)}.portArg"
        if isinstance(e, ast.Compare) and len(e.ops) == 1:
            l, op, r = e.left, e.ops[0], e.comparators[0]
            neg = isinstance(op, (ast.NotEq, ast.IsNot))
            if isinstance(l, ast.Attribute) and l.attr in ("status_code", "ftp_command"):
                pk = self.pkt(l.value, env)
                fld = "status" if l.attr == "status_code" else "cmd"
                if u(r) == "None":
                    c = f"{pk}.{fld}.isNone"
                elif isinstance(r, ast.Attribute) and u(r.value) == "FTPStatusCode" and fld == "status" and r.attr in STATUS:
                    c = f"({pk}.status == some FtpStatus.{STATUS[r.attr]})"
                elif isinstance(r, ast.Attribute) and u(r.value) == "FTPCommand" and fld == "cmd":
                    c = f"({pk}.cmd == some FtpCmd.{CMD.get(r.attr, 'other')})"
                else:
                    raise Unsupported(f"comparison {t}")
                return f"(!{c})" if neg else c
            if isinstance(l, ast.Name) and env.get(l.id, ("",))[0] == "file" and u(r) == "None":
                c = f"(w.getFile {self.S} {env[l.id][1]}).isNone"
                return f"(!{c})" if neg else c
            if isinstance(l, ast.Call) and u(l.func) == "self.file_system.get_file" and u(r) == "None" and not l.args:
                loc = self.loc_of({k.arg: k.value for k in l.keywords}, env)
                c = f"(w.getFile {self.S} {loc}).isNone"
                return f"(!{c})" if neg else c
        raise Unsupported(f"condition {t}")

    def pkt(self, e: ast.AST, env: dict) -> str:
        t = u(e)
        if env.get(t, ("",))[0] == "pkt":
            return env[t][1]
        raise Unsupported(f"not a packet: {t}")

    # ---- calls with an effect: returns (prefix lines, lean Bool term of the result, env')
    def call(self, c: ast.Call, env: dict, pad: str):
        f = u(c.func)
        kw = {k.arg: k.value for k in c.keywords}
        if c.args:
            raise Unsupported(f"positional arguments in {u(c)}")
        # self.send(payload=...) / super().send(...)  -> FTPServiceABC.send / IOSoftware.send of this side
        if f in ("self.send", "super().send"):
            if not set(k for k in kw if k is not None) <= SEND_KW_OK or "payload" not in kw:
                raise Unsupported(f"send call {u(c)}")
            p = self.pkt(kw["payload"], env)
            fn = self.N["self.send" if f == "self.send" else "super().send"]
            r = self.fresh("r")
            return [f"let {r} := {fn} w {p}", f"let w := {r}.1", f"let {p} := {r}.2.1"], f"{r}.2.2", env
        if f in ("software_manager.send_payload_to_session_manager", "self.software_manager.send_payload_to_session_manager"):
            if "payload" not in kw or not set(kw) <= {"payload", "dest_ip_address", "dest_port", "session_id", "ip_protocol"}:
                raise Unsupported(f"session-manager call {u(c)}")
            p = self.pkt(kw["payload"], env)
            r = self.fresh("r")
            return [f"let {r} := {self.N['net']} w {p}", f"let w := {r}.1", f"let {p} := {r}.2.1"], f"{r}.2.2", env
        if f == "self._connect_to_server":
            if self.side != "client" or not set(kw) <= {"dest_ip_address", "dest_port", "session_id", "is_reattempt"}:
                raise Unsupported(u(c))
            re = "false"
            if "is_reattempt" in kw:
                if not (isinstance(kw["is_reattempt"], ast.Constant) and isinstance(kw["is_reattempt"].value, bool)):
                    raise Unsupported(u(c))
                re = "true" if kw["is_reattempt"].value else "false"
            if env.get("#in_connect") and re != "true":
                raise Unsupported("unbounded recursion of _connect_to_server")
            if env.get("#no_recursion"):
                raise Unsupported("_connect_to_server recurses more than once")
            fn = "connectRetryC" if env.get("#in_connect") else "connectC"
            r = self.fresh("r")
            return [f"let {r} := {fn} w", f"let w := {r}.1"], f"{r}.2", env
        if f == "self._disconnect_from_server":
            r = self.fresh("r")
            return [f"let {r} := disconnectC w", f"let w := {r}.1"], f"{r}.2", env
        if f == "self._send_data":
            fl = env.get(u(kw.get("file", ast.Name(id="?"))))
            if not fl or fl[0] != "file":
                raise Unsupported(f"_send_data file argument {u(c)}")
            dest = self.loc_of(kw, env, "dest_folder_name", "dest_file_name")
            resp = "false"
            if "is_response" in kw:
                resp = self.bexp(kw["is_response"], env)
            if not set(kw) <= {"file", "dest_folder_name", "dest_file_name", "dest_ip_address", "dest_port", "session_id", "is_response"}:
                raise Unsupported(u(c))
            r = self.fresh("r")
            return [f"let {r} := {self.N['_send_data']} w {fl[1]} {dest} {resp}", f"let w := {r}.1"], f"{r}.2", env
        if f in ("self._store_data", "self._retrieve_data"):
            if "payload" not in kw or not set(kw) <= {"payload", "session_id"}:
                raise Unsupported(u(c))
            p = self.pkt(kw["payload"], env)
            r = self.fresh("r")
            return [f"let {r} := {self.N[f[5:]]} w {p}", f"let w := {r}.1"], f"{r}.2", env
        if f == "self.add_connection":
            if self.side == "client":
                return ["let w := { w with s := { w.s with ftpConn := true } }"], "true", env
            return [], "true", env          # the FTP server's own table of sessions is not modelled (never at capacity here)
        if f == "self.terminate_connection":
            return [], "true", env          # server: not modelled; client: reachable only for a QUIT *answer*, which no server sends
        if f in ("super().receive",):
            # Service.receive -> IOSoftware.receive: `return self._can_perform_action()` (checked in `emit`)
            return [], f"(w.canAct {self.S})", env
        raise Unsupported(f"call {u(c)}")

    def pcall(self, c: ast.Call, env: dict):
        """calls that return the (mutated) packet: `_process_ftp_command`"""
        f = u(c.func)
        kw = {k.arg: k.value for k in c.keywords}
        if f in ("self._process_ftp_command", "super()._process_ftp_command") and "payload" in kw \
                and set(k for k in kw if k is not None) <= {"payload", "session_id"}:
            p = self.pkt(kw["payload"], env)
            fn = self.N[f]
            r = self.fresh("r")
            return [f"let {r} := {fn} w {p}", f"let w := {r}.1", f"let {p} := {r}.2"], p
        raise Unsupported(f"packet-returning call {u(c)}")

    # ---- statements
    def go(self, body: List[ast.stmt], env: dict, ind: int, handler: Optional[str] = None) -> str:
        """`handler`: the (already translated, at this indentation-free form) text generator for "an exception was raised"."""
        pad = "  " * ind
        body = [x for x in body]
        while body and skippable(body[0]):
            body.pop(0)
        if not body:
            if env.get("#implicit_none"):
                return pad + self.ret(env, "false")      # falls off the end: returns None
            raise Unsupported("control falls off the end")
        st, rest = body[0], body[1:]

        def emit(pre: List[str]) -> str:
            return "".join(f"{pad}{x}\n" for x in pre)

        if isinstance(st, ast.Try):
            if len(st.handlers) != 1 or st.orelse or st.finalbody or u(st.handlers[0].type or ast.Name(id="")) != "Exception":
                raise Unsupported("try shape")
            hbody = st.handlers[0].body
            h = lambda ind2, env2=env, hbody=hbody: self.go(list(hbody) + rest, env2, ind2, handler)   # noqa: E731
            return self.go(list(st.body) + rest, env, ind, h)
        if isinstance(st, ast.Return):
            v = st.value
            if v is None:
                return pad + self.ret(env, "false")
            if isinstance(v, ast.Call) and u(v.func) in ("self._process_ftp_command", "super()._process_ftp_command"):
                pre, p = self.pcall(v, env)
                return emit(pre) + pad + self.ret(dict(env, **{"#pkt": p}), "true")
            if isinstance(v, ast.Call) and not u(v.func).startswith(("is_valid_port", "isinstance", "len")):
                pre, b, env2 = self.call(v, env, pad)
                return emit(pre) + pad + self.ret(env2, b)
            if isinstance(v, ast.Name) and env.get(v.id, ("",))[0] == "pkt":
                return pad + self.ret(dict(env, **{"#pkt": env[v.id][1]}), "true")
            return pad + self.ret(env, self.bexp(v, env))
        if isinstance(st, ast.If):
            test = st.test
            # a call with an effect as (part of) the condition: bind it first
            pre, c = [], None
            call = test.operand if isinstance(test, ast.UnaryOp) and isinstance(test.op, ast.Not) else test
            if isinstance(call, ast.Call) and u(call.func).startswith(("self.send", "self._send_data", "self._store_data", "self._retrieve_data",
                                                                        "super().receive")):
                pre, b, env = self.call(call, env, pad)
                c = f"(!{b})" if call is not test else b
            elif isinstance(test, ast.BoolOp) and isinstance(test.op, ast.And) and len(test.values) == 2 \
                    and isinstance(test.values[0], ast.Name) and env.get(test.values[0].id, ("",))[0] == "bool":
                c = self.bexp(test, env)
            else:
                c = self.bexp(test, env)
            if not pre and c in ("true", "(!false)"):      # decided by a literal argument (is_reattempt=True/False): the other branch is dead
                return self.go(list(st.body) + rest, env, ind, handler)
            if not pre and c in ("false", "(!true)"):
                return self.go(list(st.orelse) + rest, env, ind, handler)
            return (emit(pre) + f"{pad}if {c} then\n{self.go(list(st.body) + rest, env, ind + 1, handler)}\n{pad}else\n"
                    f"{self.go(list(st.orelse) + rest, env, ind + 1, handler)}")
        tgt = val = None
        if isinstance(st, ast.AnnAssign) and st.value is not None:
            tgt, val = st.target, st.value
        elif isinstance(st, ast.Assign) and len(st.targets) == 1:
            tgt, val = st.targets[0], st.value
        if tgt is not None:
            tn, vs = u(tgt), u(val)
            # packet field writes
            if isinstance(tgt, ast.Attribute) and tgt.attr == "status_code" and isinstance(val, ast.Attribute) and u(val.value) == "FTPStatusCode":
                p = self.pkt(tgt.value, env)
                return f"{pad}let {p} := {{ {p} with status := some FtpStatus.{STATUS[val.attr]} }}\n" + self.go(rest, env, ind, handler)
            if isinstance(tgt, ast.Attribute) and tgt.attr == "health_status" and env.get(u(tgt.value), ("",))[0] == "file" \
                    and env.get(vs, ("",))[0] == "health":
                return (f"{pad}let w := w.setHealth {self.S} {env[u(tgt.value)][1]} {env[vs][1]}\n" + self.go(rest, env, ind, handler))
            if isinstance(tgt, ast.Attribute) and tgt.attr in ("sim_size",) and env.get(u(tgt.value), ("",))[0] == "file":
                return self.go(rest, env, ind, handler)      # the size of a file is not modelled
            if not isinstance(tgt, ast.Name):
                raise Unsupported(f"assignment {u(st)[:100]}")
            # packet construction
            if isinstance(val, ast.Call) and u(val.func) == "FTPPacket":
                return self.packet_literal(tn, val, env, rest, ind, handler)
            # payload.ftp_command_args[...]: may raise inside a try
            if isinstance(val, ast.Subscript) and u(val.value).endswith(".ftp_command_args") and isinstance(val.slice, ast.Constant):
                p = self.pkt(val.value.value, env)
                key = val.slice.value
                if key == "file_size":
                    return self.go(rest, dict(env, **{tn: ("ignored",)}), ind, handler)
                field = {"dest_file_name": "dest", "dest_folder_name": "dest", "src_file_name": "src", "src_folder_name": "src",
                         "health_status": "health"}.get(key)
                if field is None:
                    raise Unsupported(f"packet argument {key}")
                if handler is None:
                    raise Unsupported(f"{u(st)} outside a try block (the key may be missing)")
                v = self.fresh(field)
                kind = ("health", v) if field == "health" else ("locpart", f"{p}.{field}", v)
                return (f"{pad}match {p}.{field} with\n{pad}| none =>\n{handler(ind + 1)}\n{pad}| some {v} =>\n"
                        + self.go(rest, dict(env, **{tn: kind}), ind + 1, handler))
            if isinstance(val, ast.Call) and u(val.func) == "self.file_system.get_file" and not val.args:
                loc = self.loc_of({k.arg: k.value for k in val.keywords}, env)
                return self.go(rest, dict(env, **{tn: ("file", loc)}), ind, handler)
            if isinstance(val, ast.Call) and u(val.func) == "self.file_system.create_file" and not val.args:
                kw = {k.arg: k.value for k in val.keywords}
                if not set(kw) <= {"file_name", "folder_name", "size"}:
                    raise Unsupported(u(val))
                loc = self.loc_of(kw, env)
                if handler is None:
                    raise Unsupported("create_file outside a try block (it raises on an existing name)")
                return (f"{pad}match w.createFile {self.S} {loc} with\n{pad}| none =>\n{handler(ind + 1)}\n{pad}| some w =>\n"
                        + self.go(rest, dict(env, **{tn: ("file", loc)}), ind + 1, handler))
            if isinstance(val, ast.Call):
                pre, b, env2 = self.call(val, env, pad)
                v = self.fresh("b")
                return emit(pre + [f"let {v} : Bool := {b}"]) + self.go(rest, dict(env2, **{tn: ("bool", v)}), ind, handler)
            raise Unsupported(f"assignment {u(st)[:100]}")
        if isinstance(st, ast.AugAssign) and isinstance(st.target, ast.Attribute) and st.target.attr == "num_access" \
                and env.get(u(st.target.value), ("",))[0] == "file":
            return self.go(rest, env, ind, handler)          # access counters are not modelled
        if isinstance(st, ast.Expr) and isinstance(st.value, ast.Call):
            c = st.value
            if u(c.func) in ("self._process_ftp_command", "super()._process_ftp_command"):
                pre, p = self.pcall(c, env)
                return emit(pre) + self.go(rest, env, ind, handler)
            pre, _b, env2 = self.call(c, env, pad)
            return emit(pre) + self.go(rest, env2, ind, handler)
        raise Unsupported(f"statement {u(st)[:100]}")

    def packet_literal(self, tn: str, val: ast.Call, env: dict, rest, ind: int, handler) -> str:
        pad = "  " * ind
        kw = {k.arg: k.value for k in val.keywords}
        if val.args or "ftp_command" not in kw or u(kw["ftp_command"].value) != "FTPCommand":
            raise Unsupported(f"packet literal {u(val)}")
        cmd = CMD.get(kw["ftp_command"].attr)
        if cmd is None:
            raise Unsupported(f"packet command {u(kw['ftp_command'])}")
        fields = [f"cmd := some FtpCmd.{cmd}"]
        args = kw.get("ftp_command_args")
        if cmd == "port":
            if args is None or u(args) != "PORT_LOOKUP['FTP']":
                raise Unsupported(f"PORT argument {u(args) if args else None}")
            fields.append("portArg := true")
        elif isinstance(args, ast.Dict):
            d = {k.value: v for k, v in zip(args.keys, args.values) if isinstance(k, ast.Constant)}
            for a, b, fld in (("dest_folder_name", "dest_file_name", "dest"), ("src_folder_name", "src_file_name", "src")):
                if a in d or b in d:
                    fields.append(f"{fld} := some {self.loc_of(d, env, a, b)}")
            if "health_status" in d:
                h = d["health_status"]
                if not (isinstance(h, ast.Attribute) and h.attr == "health_status" and env.get(u(h.value), ("",))[0] == "file"):
                    raise Unsupported(f"health_status argument {u(h)}")
                fields.append(f"health := w.getFile {self.S} {env[u(h.value)][1]}")
            extra = set(d) - {"dest_folder_name", "dest_file_name", "src_folder_name", "src_file_name", "health_status", "file_size"}
            if extra:
                raise Unsupported(f"packet arguments {sorted(extra)}")
        elif args is not None:
            raise Unsupported(f"packet arguments {u(args)}")
        sc = kw.get("status_code")
        if sc is not None:
            if isinstance(sc, ast.IfExp) and u(sc.body) == "FTPStatusCode.OK" and u(sc.orelse) == "None":
                fields.append(f"status := if {self.bexp(sc.test, env)} then some FtpStatus.ok else none")
            else:
                raise Unsupported(f"status_code argument {u(sc)}")
        if set(kw) - {"ftp_command", "ftp_command_args", "packet_payload_size", "status_code"}:
            raise Unsupported(f"packet literal {u(val)}")
        return (f"{pad}let {tn} : FtpPkt := {{ {', '.join(fields)} }}\n"
                + self.go(rest, dict(env, **{tn: ("pkt", tn)}), ind, handler))


GLUE_TYPES = '''
/-- delivery backup host -> database host (the STOR that answers a RETR; it carries the file): refused by the backup host's
own link: `send` reports False; lost further down (path closed, a link refusing it): `send` reports True, nothing arrives -/
def netToClient (w : FtpW) (p : FtpPkt) : FtpW × FtpPkt × Bool :=
  if !w.sendOk then (w, p, false)
  else if w.pathResp then let r := clientReceive w p; (r.1, r.2.1, true)
  else (w, p, true)
'''
GLUE_TO_SERVER = '''
/-- delivery database host -> backup host: the frame arrives iff the request path is open and - when it carries a file (STOR) -
no link refuses it; what `send` reports for a lost frame is the adversarial input `w.lost` -/
def netToServer (w : FtpW) (p : FtpPkt) : FtpW × FtpPkt × Bool :=
  if w.pathReq && (!(p.cmd == some FtpCmd.stor) || w.big) then let r := serverReceive w p; (r.1, r.2.1, true)
  else (w, p, w.lost)
'''

FAILED: Dict[str, str] = {}

# (lean name, file, class, method, side, kind, parameters after `w`, env builder, stub)
SIG = {
    "wb": "FtpW × Bool", "wp": "FtpW × FtpPkt", "wpb": "FtpW × FtpPkt × Bool",
}


def _check_plumbing():
    """the two inherited one-liners the translation relies on"""
    io = class_def(parse(SW), "IOSoftware")
    rc = [x for x in find_method(io, "receive").body if not is_doc(x) and not isinstance(x, ast.Expr)]
    if [u(x) for x in rc] != ["return self._can_perform_action()"]:
        raise Unsupported("IOSoftware.receive is not `return self._can_perform_action()`")
    sv = class_def(parse(SVC), "Service")
    rs = [x for x in find_method(sv, "receive").body if not is_doc(x)]
    if len(rs) != 1 or not u(rs[0]).startswith("return super().receive("):
        raise Unsupported("Service.receive does not delegate to IOSoftware.receive")


def emit() -> str:
    FAILED.clear()
    cli = class_def(parse(CLI), "FTPClient")
    srv = class_def(parse(SRV), "FTPServer")
    abc = class_def(parse(ABC), "FTPServiceABC")
    io = class_def(parse(SW), "IOSoftware")
    plumbing_error = None
    try:
        _check_plumbing()
    except Exception as e:  # noqa: BLE001
        plumbing_error = f"{type(e).__name__}: {e}"

    pk = {"payload": ("pkt", "payload"), "#pkt": "payload"}
    locs = {"src_folder_name": ("locpart", "param:src", "src"), "src_file_name": ("locpart", "param:src", "src"),
            "dest_folder_name": ("locpart", "param:dest", "dest"), "dest_file_name": ("locpart", "param:dest", "dest")}

    def names(side: str) -> Dict[str, str]:
        x = "C" if side == "client" else "S"
        return {"self.send": f"ftpSend{x}", "super().send": f"send{x}", "net": "netToServer" if side == "client" else "netToClient",
                "_send_data": f"sendData{x}", "_store_data": f"storeData{x}", "_retrieve_data": f"retrieveData{x}",
                "self._process_ftp_command": f"process{x}", "super()._process_ftp_command": f"processAbc{x}"}

    def one(cls, meth, side, kind, env, extra_env=None):
        fn = find_method(cls, meth)
        e = dict(env)
        if extra_env:
            e.update(extra_env)
        return Tr(side, kind, names(side)).go(fn.body, e, 1)

    send_data_env = dict(locs, file=("file", "file"), is_response=("bool", "isResponse"))
    parts = []

    def add(name, doc, params, kind, thunk, stub):
        try:
            if plumbing_error:
                raise Unsupported(plumbing_error)
            txt = thunk()
        except Exception as e:  # noqa: BLE001
            FAILED[name] = f"{type(e).__name__}: {e}"
            txt = f"  {stub}   -- NOT TRANSLATED ({type(e).__name__})"
        parts.extend([f"/-- {doc} -/", f"def {name} (w : FtpW){params} : {SIG[kind]} :=", txt, ""])

    # ---------------- level 0: the client's handling of an incoming packet (no sends)
    add("storeDataC", "`FTPServiceABC._store_data` on the database host", " (payload : FtpPkt)", "wb",
        lambda: one(abc, "_store_data", "client", "wb", pk), "(w, true)")
    add("processAbcC", "`FTPServiceABC._process_ftp_command` on the database host (RETR is never addressed to the client: stubbed `retrieveDataC`)",
        " (payload : FtpPkt)", "wp", lambda: one(abc, "_process_ftp_command", "client", "wp", pk), "(w, { payload with status := none })")
    add("processC", "`FTPClient._process_ftp_command`", " (payload : FtpPkt)", "wp",
        lambda: one(cli, "_process_ftp_command", "client", "wp", pk), "(w, { payload with status := none })")
    add("clientReceive", "`FTPClient.receive`", " (payload : FtpPkt)", "wpb",
        lambda: one(cli, "receive", "client", "wpb", pk), "(w, payload, false)")
    # ---------------- level 1: the server side
    add("sendS", "`IOSoftware.send` on the backup host", " (payload : FtpPkt)", "wpb",
        lambda: one(io, "send", "server", "wpb", pk), "(w, payload, true)")
    add("ftpSendS", "`FTPServiceABC.send` on the backup host", " (payload : FtpPkt)", "wpb",
        lambda: one(abc, "send", "server", "wpb", pk), "(w, payload, true)")
    add("sendDataS", "`FTPServiceABC._send_data` on the backup host (the STOR that answers a RETR)", " (file dest : Loc) (isResponse : Bool)", "wb",
        lambda: one(abc, "_send_data", "server", "wb", send_data_env), "(w, true)")
    add("retrieveDataS", "`FTPServiceABC._retrieve_data` on the backup host", " (payload : FtpPkt)", "wb",
        lambda: one(abc, "_retrieve_data", "server", "wb", pk), "(w, true)")
    add("storeDataS", "`FTPServiceABC._store_data` on the backup host", " (payload : FtpPkt)", "wb",
        lambda: one(abc, "_store_data", "server", "wb", pk), "(w, true)")
    add("processAbcS", "`FTPServiceABC._process_ftp_command` on the backup host", " (payload : FtpPkt)", "wp",
        lambda: one(abc, "_process_ftp_command", "server", "wp", pk), "(w, { payload with status := none })")
    add("processS", "`FTPServer._process_ftp_command`", " (payload : FtpPkt)", "wp",
        lambda: one(srv, "_process_ftp_command", "server", "wp", pk), "(w, { payload with status := none })")
    add("serverReceive", "`FTPServer.receive`", " (payload : FtpPkt)", "wpb",
        lambda: one(srv, "receive", "server", "wpb", pk), "(w, payload, false)")
    # ---------------- level 2: the client's own calls
    add("sendC", "`IOSoftware.send` on the database host", " (payload : FtpPkt)", "wpb",
        lambda: one(io, "send", "client", "wpb", pk), "(w, payload, true)")
    add("ftpSendC", "`FTPServiceABC.send` on the database host", " (payload : FtpPkt)", "wpb",
        lambda: one(abc, "send", "client", "wpb", pk), "(w, payload, true)")
    add("connectRetryC", "`FTPClient._connect_to_server(is_reattempt=True)` (the one retry)", "", "wb",
        lambda: one(cli, "_connect_to_server", "client", "wb", {"is_reattempt": ("bool", "true"), "#implicit_none": True, "#in_connect": True,
                                                                  "#no_recursion": True}), "(w, true)")
    add("connectC", "`FTPClient._connect_to_server`", "", "wb",
        lambda: one(cli, "_connect_to_server", "client", "wb", {"is_reattempt": ("bool", "false"), "#implicit_none": True, "#in_connect": True}),
        "(w, true)")
    add("sendDataC", "`FTPServiceABC._send_data` on the database host (the STOR of a backup)", " (file dest : Loc) (isResponse : Bool)", "wb",
        lambda: one(abc, "_send_data", "client", "wb", send_data_env), "(w, true)")
    add("disconnectC", "`FTPClient._disconnect_from_server`", "", "wb",
        lambda: one(cli, "_disconnect_from_server", "client", "wb", {}), "(w, false)")
    add("sendFile", "`FTPClient.send_file`", " (src dest : Loc)", "wb",
        lambda: one(cli, "send_file", "client", "wb", locs), "(w, true)")
    add("requestFile", "`FTPClient.request_file`", " (src dest : Loc)", "wb",
        lambda: one(cli, "request_file", "client", "wb", locs), "(w, true)")

    # assemble: glue goes between the levels
    text = "\n".join(parts)
    i1 = text.index("/-- `IOSoftware.send` on the backup host -/")
    i2 = text.index("/-- `IOSoftware.send` on the database host -/")
    retr_stub = ("/-- RETR is never addressed to the FTP client here (it is the one that sends it): `_retrieve_data` on the database host is not\n"
                 "translated; the branch that would call it is dead for the packets of the two transfers (`C17_tr_ftp_*` restrict to them) -/\n"
                 "def retrieveDataC (w : FtpW) (_payload : FtpPkt) : FtpW × Bool := (w, false)\n\n")
    return "\n".join(["import PrimaiteModel.Model.Database", "namespace Primaite.Gen.DatabaseFtpTr", "open Primaite.Database", "",
                      retr_stub + text[:i1] + GLUE_TYPES.strip() + "\n\n" + text[i1:i2] + GLUE_TO_SERVER.strip() + "\n\n" + text[i2:],
                      "end Primaite.Gen.DatabaseFtpTr", ""])
