"""Inventory of the code OUTSIDE src/primaite/simulator/file_system that reaches into a file system (property C15,
Gen/FileSystemCallers.lean).  Pure `ast`; strict.

What it reads: every .py file under src/primaite except simulator/file_system/ (and notebooks / tests), and lists
  * `callSites`: every call of a structural method of FileSystem / Folder / File by attribute name, with the kind of the
    receiver ("fs" / "folder" / "file") decided from the receiver's text; a receiver that is neither recognisably a file
    system / folder / file nor on the explicit list of unrelated receivers raises;
  * `nonStructuralCalls`: `.corrupt() / .repair() / .scan() / .reveal_to_red() / .check_hash()` on a receiver whose text
    mentions file / folder (they never move a file between the dictionaries);
  * `directDictWrites`: every statement that writes one of the dictionaries / route managers / the `deleted` flag of a
    file-system object from outside (assignment, augmented assignment, `del`, subscript store, `.pop/.clear/.update/
    .setdefault/.popitem/.__setitem__/.__delitem__(`, `setattr`) — the obligation is that this list is EMPTY;
  * `ownAttrNamesakes`: writes of `self.files` / `self.folders` … inside a class that is not a file-system class (the
    observation classes keep lists of that name): listed, not an obligation;
  * `directCounterWrites`: writes of `num_file_creations` / `num_file_deletions` from outside;
  * `mutatorsUsed`: the distinct `Class.method` names used from outside (class from the receiver kind).
"""
import ast
from typing import Dict, List, Optional, Tuple

from harness.extract.filesystem import lean_str
from harness.lib.core import SRC

GEN_NAME = "FileSystemCallers"

EXCLUDED_DIR = "simulator/file_system"
SKIP_PARTS = {"notebooks", "tests", "__pycache__"}

STRUCTURAL = ["create_file", "create_folder", "delete_file", "delete_folder", "delete_file_by_id", "delete_folder_by_id",
              "restore_file", "restore_folder", "copy_file", "move_file", "add_file", "remove_file", "remove_file_by_id",
              "remove_file_by_name", "remove_all_files"]
ITEM_STRUCTURAL = ["delete", "restore"]                       # File.delete / File.restore / Folder.delete / Folder.restore
ITEM_OTHER = ["corrupt", "repair", "scan", "reveal_to_red", "check_hash"]
DICTS = ["files", "deleted_files", "folders", "deleted_folders", "_folder_request_manager", "_file_request_manager"]
COUNTERS = ["num_file_creations", "num_file_deletions"]
DICT_METHODS = ["pop", "clear", "update", "setdefault", "popitem", "__setitem__", "__delitem__", "append", "remove", "extend", "insert"]
FS_CLASSES = {"FileSystem", "Folder", "File", "FileSystemItemABC"}
KIND_CLASS = {"fs": "FileSystem", "folder": "Folder", "file": "File"}

# receivers of a STRUCTURAL attribute name that are known not to be file-system objects (exact receiver text)
UNRELATED_RECEIVERS: Dict[str, str] = {}


def _u(n: ast.AST) -> str:
    return ast.unparse(n)


def _ident_kind(name: str) -> Optional[str]:
    n = name.lower()
    if "file_system" in n or "filesystem" in n or n in ("fs", "_fs") or n.endswith("_fs"):
        return "fs"
    if "folder" in n:
        return "folder"
    if "file" in n:
        return "file"
    return None


def receiver_kind(text: str) -> Optional[str]:
    """"fs" / "folder" / "file" from the receiver expression (given as text); None when it does not look like one."""
    e = ast.parse(text, mode="eval").body
    while isinstance(e, ast.Subscript):      # fs.folders[k] is a folder, g.files[k] a file
        e = e.value
    if isinstance(e, ast.Call):               # fs.get_folder(...) / self._return_database_folder() / fs.create_file(...)
        f = e.func
        name = f.attr if isinstance(f, ast.Attribute) else (f.id if isinstance(f, ast.Name) else "")
        k = _ident_kind(name)
        return None if k == "fs" and "get" not in name.lower() else k
    if isinstance(e, ast.Attribute):
        return _ident_kind(e.attr)
    if isinstance(e, ast.Name):
        return _ident_kind(e.id)
    return None


def _files() -> List[Tuple[str, ast.Module]]:
    out = []
    for path in sorted(SRC.rglob("*.py")):
        rel = str(path.relative_to(SRC))
        parts = set(path.relative_to(SRC).parts)
        if rel.startswith(EXCLUDED_DIR + "/") or parts & SKIP_PARTS:
            continue
        out.append((rel, ast.parse(path.read_text())))
    return out


def _strip_subscripts(t: ast.AST) -> ast.AST:
    while isinstance(t, ast.Subscript):
        t = t.value
    return t


def _flat_targets(t: ast.AST) -> List[ast.AST]:
    if isinstance(t, (ast.Tuple, ast.List)):
        return [x for e in t.elts for x in _flat_targets(e)]
    if isinstance(t, ast.Starred):
        return _flat_targets(t.value)
    return [t]


class _Walker(ast.NodeVisitor):
    def __init__(self, rel: str):
        self.rel = rel
        self.stack: List[Tuple[str, ast.AST]] = []
        self.calls: List[Tuple[str, str, str, str]] = []
        self.other: List[Tuple[str, str, str, str]] = []
        self.dict_writes: List[Tuple[str, str, str]] = []
        self.namesakes: List[Tuple[str, str, str]] = []
        self.counter_writes: List[Tuple[str, str, str]] = []
        self.stmt: Optional[ast.stmt] = None

    # ---- scope
    def qual(self) -> str:
        return ".".join(n for n, _ in self.stack) or "<module>"

    def _in_fs_class(self) -> bool:
        for _, node in reversed(self.stack):
            if isinstance(node, ast.ClassDef):
                return any(_u(b).split(".")[-1] in FS_CLASSES for b in node.bases)
        return False

    def _scoped(self, node):
        self.stack.append((node.name, node))
        self.generic_visit(node)
        self.stack.pop()

    visit_ClassDef = _scoped
    visit_FunctionDef = _scoped
    visit_AsyncFunctionDef = _scoped

    def _row(self, st: ast.AST) -> Tuple[str, str, str]:
        return (self.rel, self.qual(), " ".join(_u(st).split())[:100])

    # ---- writes
    def _target(self, t: ast.AST, st: ast.stmt, direct: bool):
        """`t` is a store / del target; `direct` = the attribute itself is rebound (not an element of it)."""
        sub = isinstance(t, ast.Subscript)
        base = _strip_subscripts(t)
        if not isinstance(base, ast.Attribute):
            return
        recv = _u(base.value)
        if base.attr in COUNTERS:
            self.counter_writes.append(self._row(st))
        elif base.attr in DICTS:
            if recv == "self" and not self._in_fs_class():
                self.namesakes.append(self._row(st))
            else:
                self.dict_writes.append(self._row(st))
        elif base.attr == "deleted" and not sub:
            if recv == "self" and not self._in_fs_class():
                self.namesakes.append(self._row(st))
            elif receiver_kind(recv) is not None:
                self.dict_writes.append(self._row(st))
            else:
                raise ValueError(f"{self.rel}:{st.lineno}: write of `.deleted` on a receiver that cannot be classified: {_u(st)[:100]}")

    def visit_Assign(self, st: ast.Assign):
        for t in st.targets:
            for x in _flat_targets(t):
                self._target(x, st, True)
        self.generic_visit(st)

    def visit_AugAssign(self, st: ast.AugAssign):
        self._target(st.target, st, True)
        self.generic_visit(st)

    def visit_AnnAssign(self, st: ast.AnnAssign):
        if st.value is not None:
            self._target(st.target, st, True)
        self.generic_visit(st)

    def visit_Delete(self, st: ast.Delete):
        for t in st.targets:
            for x in _flat_targets(t):
                self._target(x, st, True)
        self.generic_visit(st)

    def visit_For(self, st: ast.For):
        for x in _flat_targets(st.target):
            self._target(x, st, True)
        self.generic_visit(st)

    def visit_With(self, st: ast.With):
        for it in st.items:
            if it.optional_vars is not None:
                for x in _flat_targets(it.optional_vars):
                    self._target(x, st, True)
        self.generic_visit(st)

    def visit_NamedExpr(self, e: ast.NamedExpr):
        self.generic_visit(e)

    # ---- calls
    def visit_Call(self, c: ast.Call):
        f = c.func
        if isinstance(f, ast.Name) and f.id in ("setattr", "delattr") and len(c.args) >= 2:
            a = c.args[1]
            if not isinstance(a, ast.Constant):
                if any(k in _u(c.args[0]).lower() for k in ("file", "folder")):
                    raise ValueError(f"{self.rel}:{c.lineno}: {f.id} with a computed name on a file-system-like receiver: {_u(c)[:100]}")
            elif a.value in DICTS or a.value == "deleted":
                self.dict_writes.append(self._row(c))
            elif a.value in COUNTERS:
                self.counter_writes.append(self._row(c))
        if isinstance(f, ast.Attribute):
            recv = _u(f.value)
            if f.attr in STRUCTURAL:
                if recv in UNRELATED_RECEIVERS:
                    pass
                else:
                    k = receiver_kind(recv)
                    if k is None:
                        raise ValueError(f"{self.rel}:{c.lineno}: `{f.attr}` called on a receiver that is neither file-system related "
                                         f"nor on the list of unrelated receivers: {_u(c)[:100]}")
                    if k == "file":
                        raise ValueError(f"{self.rel}:{c.lineno}: `{f.attr}` called on what looks like a File: {_u(c)[:100]}")
                    self.calls.append((self.rel, self.qual(), k, f.attr))
            elif f.attr in ITEM_STRUCTURAL + ITEM_OTHER:
                last = recv.split(".")[-1].lower()
                k = receiver_kind(recv)
                # only receivers whose text mentions file / folder; `self.scan()` of a Software / Node is not ours
                if k is not None and ("file" in recv.lower() or "folder" in recv.lower()) and last != "self":
                    if f.attr in ITEM_STRUCTURAL:
                        if k == "fs":
                            raise ValueError(f"{self.rel}:{c.lineno}: `{f.attr}` on a file system: {_u(c)[:100]}")
                        self.calls.append((self.rel, self.qual(), k, f.attr))
                    else:
                        self.other.append((self.rel, self.qual(), k, f.attr))
            elif f.attr in DICT_METHODS and isinstance(_strip_subscripts(f.value), ast.Attribute):
                base = _strip_subscripts(f.value)
                if base.attr in DICTS:
                    r = _u(base.value)
                    if r == "self" and not self._in_fs_class():
                        self.namesakes.append(self._row(c))
                    else:
                        self.dict_writes.append(self._row(c))
        self.generic_visit(c)


def inventory():
    calls, other, dw, ns, cw = [], [], [], [], []
    for rel, tree in _files():
        w = _Walker(rel)
        w.visit(tree)
        calls += w.calls
        other += w.other
        dw += w.dict_writes
        ns += w.namesakes
        cw += w.counter_writes
    return calls, other, dw, ns, cw


def _counted(rows):
    d: Dict[tuple, int] = {}
    for r in rows:
        d[r] = d.get(r, 0) + 1
    return sorted((k + (n,)) for k, n in d.items())


def _tuple(r) -> str:
    return "(" + ", ".join(lean_str(x) if isinstance(x, str) else str(x) for x in r) + ")"


def _list(name: str, ty: str, rows, doc: str) -> List[str]:
    L = [f"/-- {doc} -/", f"def {name} : List ({ty}) :="]
    if not rows:
        return L + ["  []", ""]
    L.append("  [ " + ",\n    ".join(_tuple(r) for r in rows) + " ]")
    return L + [""]


def emit() -> str:
    calls, other, dw, ns, cw = inventory()
    used = sorted({f"{KIND_CLASS[k]}.{m}" for _, _, k, m in calls} | {f"{KIND_CLASS[k]}.{m}" for _, _, k, m in other})
    L = ["-- GENERATED by harness/extract/filesystem_callers.py from every module of src/primaite outside simulator/file_system. Do not edit.",
         "namespace Primaite.Gen.FileSystemCallers", ""]
    L += _list("callSites", "String × String × String × String × Nat", _counted(calls),
               "(file, enclosing qualname, receiver kind, method, number of calls): structural calls into a file system from outside its module")
    L += _list("nonStructuralCalls", "String × String × String × String × Nat", _counted(other),
               "the same for scan / corrupt / repair / reveal_to_red / check_hash on a file-system object")
    L += _list("directDictWrites", "String × String × String", sorted(set(dw)),
               "(file, qualname, statement): writes of files / deleted_files / folders / deleted_folders / the route managers / `.deleted` from outside")
    L += _list("directCounterWrites", "String × String × String", sorted(cw),
               "(file, qualname, statement): writes of num_file_creations / num_file_deletions from outside (with multiplicity)")
    L += _list("ownAttrNamesakes", "String × String × String", sorted(set(ns)),
               "writes of `self.files` / `self.folders` … inside a class that is not a file-system class (not file-system state)")
    L += ["/-- the distinct `Class.method` names called from outside (class from the receiver kind) -/",
          "def mutatorsUsed : List String :=", "  [" + ", ".join(lean_str(m) for m in used) + "]", "",
          "end Primaite.Gen.FileSystemCallers", ""]
    return "\n".join(L)
