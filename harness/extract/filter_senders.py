"""Extractor for C06's inventory of EMITTERS in the software layer: every call site under simulator/system/{applications,services}
(and software.py, core/software_manager.py) through which software hands something to the network, classified by WHAT is called ON WHAT:

    self.send / super().send                       -> IOSoftware.send (or an override that ends in it)
    [self.]software_manager.send_payload_to_session_manager
    self.software_manager.session_manager.receive_payload_from_software_manager   (ARP, ICMP, NTP: layer-3 helpers)
    <connection>.parent_terminal.send              -> the Terminal of the SAME node that owns the connection object

anything else that looks like sending (`send_frame`, `transmit`, `transmit_frame`, `receive_frame`, a `send` on another receiver, a
`software_manager` that is not the software's own) is reported under `foreign`, as is every attribute that reaches outside the node
(`network`, `get_node_by_hostname`, `nodes`, `links`, `airspace`, `_connected_node`, `endpoint_a/b`, `connected_node`).  Per class the
declared port / protocol.  Pure `ast`."""
import ast
from typing import List, Tuple

from harness.lib.core import SRC

GEN_NAME = "FilterSenders"
ROOTS = ["simulator/system/applications", "simulator/system/services"]
EXTRA = ["simulator/system/software.py", "simulator/system/core/software_manager.py"]
OUTSIDE = {"network", "get_node_by_hostname", "get_node_by_id", "nodes", "links", "airspace", "_connected_node", "endpoint_a", "endpoint_b",
           "connected_node", "_connected_link", "simulation", "sim"}
FRAME_LEVEL = {"send_frame", "transmit", "transmit_frame", "receive_frame"}


def _u(e) -> str:
    return ast.unparse(e)


def _files():
    out = []
    for r in ROOTS:
        out += sorted((SRC / r).rglob("*.py"))
    out += [SRC / e for e in EXTRA]
    return out


def _own_sm(fn: ast.FunctionDef) -> bool:
    """a bare local `software_manager` must be assigned from `self.software_manager` in the same function"""
    for n in ast.walk(fn):
        if isinstance(n, (ast.Assign, ast.AnnAssign)):
            t = n.targets[0] if isinstance(n, ast.Assign) else n.target
            if isinstance(t, ast.Name) and t.id == "software_manager" and n.value is not None and _u(n.value) == "self.software_manager":
                return True
    return False


def scan() -> Tuple[List[Tuple[str, str]], List[str], List[Tuple[str, str, str]]]:
    sites, foreign, ports = [], [], []
    for p in _files():
        rel = str(p.relative_to(SRC / "simulator" / "system"))
        tree = ast.parse(p.read_text())
        for cls in [n for n in ast.walk(tree) if isinstance(n, ast.ClassDef)]:
            port = proto = "-"
            for n in ast.walk(cls):
                if isinstance(n, ast.Assign) and isinstance(n.targets[0], ast.Subscript) and _u(n.targets[0].value) == "kwargs":
                    key = _u(n.targets[0].slice).strip("'\"")
                    if key == "port":
                        port = _u(n.value)
                    if key == "protocol":
                        proto = _u(n.value)
            ports.append((f"{rel}:{cls.name}", port, proto))
            for fn in [f for f in cls.body if isinstance(f, ast.FunctionDef)]:
                where = f"{rel}:{cls.name}.{fn.name}"
                for n in ast.walk(fn):
                    if isinstance(n, ast.Attribute) and n.attr in OUTSIDE:
                        foreign.append(f"{where}: reaches `{_u(n)}`")
                    if not (isinstance(n, ast.Call) and isinstance(n.func, ast.Attribute)):
                        continue
                    recv, name = _u(n.func.value), n.func.attr
                    if name == "send":
                        if recv == "self":
                            sites.append((where, "self.send"))
                        elif recv == "super()":
                            sites.append((where, "super.send"))
                        elif recv == "self.parent_terminal":
                            sites.append((where, "parent_terminal.send"))
                        else:
                            foreign.append(f"{where}: `{recv}.send(..)`")
                    elif name == "send_payload_to_session_manager":
                        if recv == "self.software_manager" or (recv == "software_manager" and _own_sm(fn)):
                            sites.append((where, "sm.send_payload"))
                        else:
                            foreign.append(f"{where}: `{recv}.send_payload_to_session_manager(..)`")
                    elif name == "receive_payload_from_software_manager":
                        if recv in ("self.software_manager.session_manager", "self.session_manager"):
                            sites.append((where, "sess.receive_payload"))
                        else:
                            foreign.append(f"{where}: `{recv}.receive_payload_from_software_manager(..)`")
                    elif name in FRAME_LEVEL:
                        foreign.append(f"{where}: frame-level `{recv}.{name}(..)`")
    return sorted(set(sites)), sorted(set(foreign)), sorted(set(ports))


def _chain() -> List[str]:
    """the two links every `send` goes through"""
    from harness.extract.util import class_def, find_method, parse
    out = []
    io = find_method(class_def(parse("simulator/system/software.py"), "IOSoftware"), "send")
    body = [s for s in io.body if not (isinstance(s, ast.Expr) and isinstance(s.value, ast.Constant))]
    out.append("IOSoftware.send: " + " | ".join(
        ("guard:" + _u(s.test) if isinstance(s, ast.If) else "return:" + _u(s.value.func) if isinstance(s, ast.Return) and isinstance(s.value, ast.Call)
         else "?:" + _u(s)[:40]) for s in body))
    sm = find_method(class_def(parse("simulator/system/core/software_manager.py"), "SoftwareManager"), "send_payload_to_session_manager")
    body = [s for s in sm.body if not (isinstance(s, ast.Expr) and isinstance(s.value, ast.Constant))]
    out.append("SoftwareManager.send_payload_to_session_manager: " + " | ".join(
        ("return:" + _u(s.value.func) if isinstance(s, ast.Return) and isinstance(s.value, ast.Call) else "?:" + _u(s)[:40]) for s in body))
    return out


def _q(x: str) -> str:
    return '"' + x.replace('"', "'") + '"'


def emit() -> str:
    sites, foreign, ports = scan()
    return f"""namespace Primaite.Gen.FilterSenders
/-- every call site in the software layer that hands a payload to the network: (file:Class.method, what is called on what) -/
def sendSites : List (String × String) := [{", ".join(f"({_q(a)}, {_q(b)})" for a, b in sites)}]
/-- anything that looks like sending but is none of the sanctioned kinds, and every attribute that reaches outside the node -/
def foreign : List String := [{", ".join(_q(x) for x in foreign)}]
/-- `IOSoftware.send` and `SoftwareManager.send_payload_to_session_manager`, statement kinds in order -/
def chain : List String := [{", ".join(_q(x) for x in _chain())}]
/-- per class: the port / protocol it declares (`kwargs[..] = ..` in `__init__`) -/
def classPorts : List (String × String × String) := [{", ".join(f"({_q(a)}, {_q(b)}, {_q(c)})" for a, b, c in ports)}]
end Primaite.Gen.FilterSenders
"""
