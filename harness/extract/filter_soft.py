"""E11b (C06 deepening): software-side tables for the cut theorem's hypotheses -> Gen/FilterSoft.lean.

* every site under simulator/ that (re-)enables an interface: `X.enable()`, `X.enable_port(..)`, `X.enabled = True`;
* which of them sit in a function that is reachable — by a NAME-based, hence over-approximating, call graph over simulator/ —
  from a `receive_frame` WITHOUT passing the request dispatcher (`apply_request`); bodies of lambdas are separate nodes (they are
  request handlers, run by the dispatcher only);
* the shape of `ARP.send_arp_request` (which address is really asked for, whose address is the sender),
  `RouterARP._process_arp_request`, `ARP.send_arp_reply` and the first guards of `Router.process_frame`.
Pure `ast`; strict: raises on an unrecognised shape."""
from __future__ import annotations

import ast
from typing import Dict, List, Set, Tuple

from harness.lib.core import SRC

GEN_NAME = "FilterSoft"
SIM = SRC / "simulator"
DISPATCH = {"apply_request"}
BUILDERS = ("network/container.py", "network/creation.py", "network/networks.py")


def _u(n: ast.AST) -> str:
    return ast.unparse(n)


class _Fn:
    def __init__(self, key: str, name: str):
        self.key, self.name = key, name
        self.calls: Set[str] = set()
        self.calls2: Set[Tuple[str, str]] = set()  # (self | super | other, name)
        self.enables: List[str] = []


CLASSES: Dict[str, List[str]] = {}


def _collect() -> Dict[str, _Fn]:
    fns: Dict[str, _Fn] = {}
    CLASSES.clear()
    for f in sorted(SIM.rglob("*.py")):
        rel = str(f.relative_to(SIM))
        tree = ast.parse(f.read_text())

        def visit(node: ast.AST, scope: List[str], cur: _Fn | None):
            for ch in ast.iter_child_nodes(node):
                if isinstance(ch, ast.ClassDef):
                    CLASSES.setdefault(ch.name, [])
                    CLASSES[ch.name] += [b.id if isinstance(b, ast.Name) else b.attr if isinstance(b, ast.Attribute) else _u(b)
                                         for b in ch.bases]
                    visit(ch, scope + [ch.name], None)
                elif isinstance(ch, (ast.FunctionDef, ast.AsyncFunctionDef)):
                    key = f"{rel}:{'.'.join(scope + [ch.name])}"
                    fn = fns.setdefault(key, _Fn(key, ch.name))
                    visit(ch, scope + [ch.name], fn)
                elif isinstance(ch, ast.Lambda):
                    key = f"{rel}:{'.'.join(scope)}.<lambda>"
                    fn = fns.setdefault(key, _Fn(key, "<lambda>"))
                    visit(ch, scope, fn)
                else:
                    if cur is not None:
                        if isinstance(ch, ast.Call):
                            g = ch.func
                            nm = g.attr if isinstance(g, ast.Attribute) else g.id if isinstance(g, ast.Name) else None
                            if nm:
                                cur.calls.add(nm)
                                kind = "other"
                                if isinstance(g, ast.Attribute):
                                    if isinstance(g.value, ast.Name) and g.value.id == "self":
                                        kind = "self"
                                    elif isinstance(g.value, ast.Call) and isinstance(g.value.func, ast.Name) and g.value.func.id == "super":
                                        kind = "super"
                                cur.calls2.add((kind, nm))
                            if isinstance(g, ast.Attribute) and g.attr in ("enable", "enable_port"):
                                cur.enables.append(_u(g))
                        if isinstance(ch, ast.Assign) and any(isinstance(t, ast.Attribute) and t.attr == "enabled" for t in ch.targets) \
                                and isinstance(ch.value, ast.Constant) and ch.value.value is True:
                            cur.enables.append(_u(ch.targets[0]) + " = True")
                    visit(ch, scope, cur)
        visit(tree, [], None)
    return fns


def _ancestors(c: str) -> Set[str]:
    out, todo = set(), [c]
    while todo:
        x = todo.pop()
        if x in out:
            continue
        out.add(x)
        todo += CLASSES.get(x, [])
    return out


def _reach(fns: Dict[str, _Fn]) -> Tuple[Set[str], bool]:
    """Name-based reachability from every `receive_frame`.  A call `f(..)` / `x.f(..)` reaches every function or method named
    `f` under simulator/.  Constructing a class (`C(..)`) reaches the initialisers of `C` and of its ancestors; an explicit
    `super().__init__(..)` reaches nothing more (it is covered by the ancestors rule).  Calls of the request dispatcher are not
    followed (recorded instead)."""
    by_name: Dict[str, List[_Fn]] = {}
    inits: Dict[str, List[_Fn]] = {}
    for fn in fns.values():
        q = fn.key.split(":")[1].split(".")
        if fn.name in ("__init__", "model_post_init", "__post_init__") and len(q) >= 2:
            inits.setdefault(q[-2], []).append(fn)
        else:
            by_name.setdefault(fn.name, []).append(fn)
    todo = [fn for fn in fns.values() if fn.name == "receive_frame"]
    seen = {fn.key for fn in todo}
    dispatch = False
    while todo:
        fn = todo.pop()
        for nm in sorted(fn.calls):
            if nm in DISPATCH:
                dispatch = True
                continue
            targets = list(by_name.get(nm, []))
            if nm in CLASSES:
                for c in sorted(_ancestors(nm)):
                    targets += inits.get(c, [])
            for g in targets:
                if fn.key.startswith("system/") and g.key.startswith(BUILDERS):
                    # software holds no handle to the Network container or the topology builders (Gen.Filter.crossNodeReaches = []):
                    # `client.connect()` is not `Network.connect(a, b)`
                    continue
                if g.name != "<lambda>" and g.key not in seen:
                    seen.add(g.key)
                    todo.append(g)
    return seen, dispatch


def _fn(rel: str, cls: str, name: str) -> ast.FunctionDef:
    tree = ast.parse((SIM / rel).read_text())
    for c in ast.walk(tree):
        if isinstance(c, ast.ClassDef) and c.name == cls:
            for m in c.body:
                if isinstance(m, ast.FunctionDef) and m.name == name:
                    return m
    raise RuntimeError(f"{rel}: {cls}.{name} not found")


def _strip(fn: ast.FunctionDef) -> List[ast.stmt]:
    body = list(fn.body)
    if body and isinstance(body[0], ast.Expr) and isinstance(body[0].value, ast.Constant) and isinstance(body[0].value.value, str):
        body = body[1:]
    return body


def _is_log(st: ast.stmt) -> bool:
    return isinstance(st, ast.Expr) and isinstance(st.value, ast.Call) and "sys_log" in _u(st.value.func)


def _send_arp_request() -> List[str]:
    """`ARP.send_arp_request`, statement by statement."""
    out: List[str] = []
    body = _strip(_fn("system/services/arp/arp.py", "ARP", "send_arp_request"))
    want = 0
    for st in body:
        if _is_log(st):
            continue
        t = _u(st)
        if isinstance(st, ast.If) and _u(st.test) == "target_ip_address in self.arp" and isinstance(st.body[0], ast.Return):
            out.append("guard:cached-return")
        elif isinstance(st, ast.Assign) and t == "use_default_gateway = True":
            out.append("init:use_default_gateway")
        elif isinstance(st, ast.For) and _u(st.iter) == "self.software_manager.node.network_interfaces.values()":
            inner = st.body[0]
            if not (len(st.body) == 1 and isinstance(inner, ast.If) and _u(inner.test) == "target_ip_address in network_interface.ip_network"
                    and _u(inner.body[0]) == "use_default_gateway = False" and isinstance(inner.body[1], ast.Break)):
                raise RuntimeError("send_arp_request: unrecognised subnet loop: " + t)
            out.append("loop:any-interface-network-contains-target")
        elif isinstance(st, ast.If) and _u(st.test) == "use_default_gateway":
            inner = st.body[0]
            if not (isinstance(inner, ast.If) and _u(inner.test) == "self.software_manager.node.config.default_gateway"
                    and _u(inner.body[0]) == "target_ip_address = self.software_manager.node.config.default_gateway"
                    and isinstance(inner.orelse[0], ast.Return)):
                raise RuntimeError("send_arp_request: unrecognised gateway branch: " + t)
            out.append("else:target:=default_gateway-or-return")
        elif isinstance(st, ast.Assign) and _u(st.targets[0]) == "outbound_network_interface":
            if _u(st.value) != "self.software_manager.session_manager.resolve_outbound_network_interface(target_ip_address)":
                raise RuntimeError("send_arp_request: outbound interface resolved differently: " + t)
            out.append("resolve:outbound(target)")
        elif isinstance(st, ast.If) and _u(st.test) == "outbound_network_interface":
            for s2 in st.body:
                if _is_log(s2):
                    continue
                t2 = _u(s2)
                if isinstance(s2, ast.If) and _u(s2.test) == "target_ip_address == outbound_network_interface.ip_network.network_address":
                    out.append("guard:network-address-return")
                elif isinstance(s2, ast.If) and _u(s2.test) == "target_ip_address == outbound_network_interface.ip_network.broadcast_address":
                    out.append("guard:broadcast-address-return")
                elif isinstance(s2, ast.Assign) and _u(s2.targets[0]) == "arp_packet":
                    kw = {k.arg: _u(k.value) for k in s2.value.keywords}
                    if kw != {"sender_ip_address": "outbound_network_interface.ip_address",
                              "sender_mac_addr": "outbound_network_interface.mac_address", "target_ip_address": "target_ip_address"}:
                        raise RuntimeError("send_arp_request: ARPPacket built differently: " + t2)
                    out.append("packet:sender=outbound-interface,target=target")
                elif isinstance(s2, ast.Expr) and "receive_payload_from_software_manager" in t2:
                    kw = {k.arg: _u(k.value) for k in s2.value.keywords}
                    if kw.get("payload") != "arp_packet" or kw.get("dst_ip_address") != "target_ip_address":
                        raise RuntimeError("send_arp_request: sent differently: " + t2)
                    out.append("send:dst=target")
                else:
                    raise RuntimeError("send_arp_request: unrecognised statement: " + t2)
            if not all(_is_log(x) for x in st.orelse):
                raise RuntimeError("send_arp_request: else branch does more than log")
        else:
            raise RuntimeError("send_arp_request: unrecognised statement: " + t)
        want += 1
    return out


def _router_arp() -> List[str]:
    out: List[str] = []
    body = [s for s in _strip(_fn("network/hardware/nodes/network/router.py", "RouterARP", "_process_arp_request")) if not _is_log(s)]
    if not (len(body) == 2 and "super()._process_arp_request" in _u(body[0]) and isinstance(body[1], ast.If)):
        raise RuntimeError("RouterARP._process_arp_request: unrecognised shape")
    if _u(body[1].test) != "from_network_interface.enabled and from_network_interface.ip_address == arp_packet.target_ip_address":
        raise RuntimeError("RouterARP._process_arp_request: reply condition changed: " + _u(body[1].test))
    inner = [_u(s) for s in body[1].body]
    if inner != ["arp_reply = arp_packet.generate_reply(from_network_interface.mac_address)", "self.send_arp_reply(arp_reply)", "return"]:
        raise RuntimeError("RouterARP._process_arp_request: reply built differently: " + repr(inner))
    out.append("request:reply-iff-arrival-interface-enabled-and-is-target")
    body = [s for s in _strip(_fn("system/services/arp/arp.py", "ARP", "send_arp_reply")) if not _is_log(s)]
    if not (isinstance(body[0], ast.Assign) and _u(body[0].value) ==
            "self.software_manager.session_manager.resolve_outbound_network_interface(arp_reply.target_ip_address)"):
        raise RuntimeError("ARP.send_arp_reply: outbound interface resolved differently")
    out.append("reply:outbound=resolve(reply.target=request.sender)")
    body = _strip(_fn("network/hardware/nodes/network/router.py", "RouterSessionManager", "resolve_outbound_network_interface"))
    txt = [_u(s) for s in body]
    if txt != ["network_interface = super().resolve_outbound_network_interface(dst_ip_address)",
               "if not network_interface:\n    route = self.node.route_table.find_best_route(dst_ip_address)\n    if not route:\n        return None\n"
               "    network_interface = super().resolve_outbound_network_interface(route.next_hop_ip_address)",
               "return network_interface"]:
        raise RuntimeError("RouterSessionManager.resolve_outbound_network_interface changed: " + repr(txt))
    out.append("resolve:first-enabled-interface-in-network-else-route-next-hop")
    body = [s for s in _strip(_fn("network/hardware/nodes/network/router.py", "Router", "process_frame")) if not _is_log(s)]
    if not (isinstance(body[0], ast.If) and _u(body[0].test) == "frame.is_broadcast" and isinstance(body[0].body[0], ast.Return)):
        raise RuntimeError("Router.process_frame: first statement is not the broadcast drop")
    out.append("process:drop-broadcast")
    b1 = body[1]
    if not (isinstance(b1, ast.If) and _u(b1.test) == "frame.ip" and isinstance(b1.body[0], ast.For)
            and "network_interface.ip_address == frame.ip.dst_ip_address" in _u(b1.body[0])
            and any(isinstance(x, ast.Return) for x in ast.walk(b1.body[0]))):
        raise RuntimeError("Router.process_frame: second statement is not the own-address drop")
    out.append("process:drop-own-address")
    return out



# ------------------------------------------------------------------------------------------ per-class receive paths (SoftKeeps)
NET_BOUNDARY = {"send_frame", "transmit_frame", "receive_frame"}
NODE_CLASSES = {"router": ("network/hardware/nodes/network/router.py", "Router"),
                "firewall": ("network/hardware/nodes/network/firewall.py", "Firewall"),
                "switch": ("network/hardware/nodes/network/switch.py", "Switch"),
                "host": ("network/hardware/nodes/host/host_node.py", "HostNode")}


def _mro(c: str) -> List[str]:
    out: List[str] = []

    def go(x: str):
        if x in out:
            return
        out.append(x)
        for b in CLASSES.get(x, []):
            go(b)
    go(c)
    return out


def _receive_reach(fns: Dict[str, _Fn], cls: str) -> Tuple[bool, bool, int]:
    """What the code run by `<cls>.receive(payload, …)` can reach WITHOUT leaving the node: calls on `self` / `super()` are resolved
    in the class's own ancestor chain, every other call by name over simulator/ (over-approximation); the traversal stops at the
    network boundary (`send_frame`, `transmit_frame`, `receive_frame`: what a frame does elsewhere is the cut theorem's business)
    and at the request dispatcher, which is recorded.  Returns (reaches an enable site, reaches the dispatcher, functions visited)."""
    by_cls: Dict[Tuple[str, str], _Fn] = {}
    by_name: Dict[str, List[_Fn]] = {}
    for fn in fns.values():
        q = fn.key.split(":")[1].split(".")
        if fn.name == "<lambda>":
            continue
        if len(q) == 2:
            by_cls[(q[0], q[1])] = fn
        if fn.name not in ("__init__", "model_post_init", "__post_init__"):  # constructors: reached through the class rule only
            by_name.setdefault(fn.name, []).append(fn)
    mro = _mro(cls)

    def in_mro(m: str) -> List[_Fn]:
        return [by_cls[(c, m)] for c in mro if (c, m) in by_cls]

    todo: List[Tuple[_Fn, bool]] = [(f, True) for f in in_mro("receive")]
    if not todo:
        raise RuntimeError(f"class {cls} has no receive method in its ancestor chain")
    seen = {f.key for f, _ in todo}
    enable = dispatch = False
    while todo:
        fn, own = todo.pop()
        if fn.enables:
            enable = True
        for kind, nm in sorted(fn.calls2):
            if nm in DISPATCH:
                dispatch = True
                continue
            if nm in NET_BOUNDARY:
                continue
            if own and kind in ("self", "super") and in_mro(nm):
                targets = [(g, True) for g in in_mro(nm)]
            else:
                targets = [(g, False) for g in by_name.get(nm, [])]
                if nm in CLASSES:
                    targets += [(g, False) for c in _mro(nm) for g in [by_cls.get((c, "__init__")), by_cls.get((c, "model_post_init"))] if g]
            for g, o in targets:
                if fn.key.startswith("system/") and g.key.startswith(BUILDERS):
                    continue
                if g.key not in seen:
                    seen.add(g.key)
                    todo.append((g, o))
    return enable, dispatch, len(seen)


def _system_software() -> List[Tuple[str, List[str]]]:
    """Software every router / firewall / switch / host carries as shipped: the class's SYSTEM_SOFTWARE (inherited unless
    overridden) plus the `self.software_manager.install(X)` calls of `_install_system_software` along the ancestor chain that
    the method's own `super()` call follows."""
    out = []
    for label, (rel, cls) in NODE_CLASSES.items():
        names: List[str] = []
        chain = _mro(cls)
        # SYSTEM_SOFTWARE: first class in the chain that defines it
        found = None
        for c in chain:
            for f in sorted(SIM.rglob("*.py")):
                tree = ast.parse(f.read_text())
                for n in ast.walk(tree):
                    if isinstance(n, ast.ClassDef) and n.name == c:
                        for st in n.body:
                            if isinstance(st, ast.AnnAssign) and isinstance(st.target, ast.Name) and st.target.id == "SYSTEM_SOFTWARE":
                                found = found or (c, st.value)
            if found:
                break
        if found is None:
            raise RuntimeError(f"{cls}: SYSTEM_SOFTWARE not found")
        val = found[1]
        if not isinstance(val, ast.Dict):
            raise RuntimeError(f"{found[0]}.SYSTEM_SOFTWARE is not a dict literal")
        for k, v in zip(val.keys, val.values):
            if k is None:
                raise RuntimeError(f"{found[0]}.SYSTEM_SOFTWARE uses ** expansion")
            names.append(_u(v))
        # _install_system_software along the chain
        for c in chain:
            try:
                fn = _any_method(c, "_install_system_software")
            except RuntimeError:
                continue
            body = [s for s in _strip(fn)]
            calls_super = any("super()._install_system_software()" in _u(s) for s in body)
            for n in ast.walk(fn):
                if isinstance(n, ast.Call) and _u(n.func) == "self.software_manager.install":
                    a = n.args[0]
                    if isinstance(a, ast.Name) and a.id != "software_class":
                        names.append(a.id)
            if not calls_super:
                if c == "Switch" and [_u(s) for s in body] == ["pass"]:
                    names = []  # a switch installs nothing (and never calls the base method)
                break
        out.append((label, sorted(set(names))))
    return out


def _any_method(cls: str, name: str) -> ast.FunctionDef:
    for f in sorted(SIM.rglob("*.py")):
        tree = ast.parse(f.read_text())
        for c in ast.walk(tree):
            if isinstance(c, ast.ClassDef) and c.name == cls:
                for m in c.body:
                    if isinstance(m, ast.FunctionDef) and m.name == name:
                        return m
    raise RuntimeError(f"{cls}.{name} not found")


def _switch_receive() -> List[str]:
    body = [s for s in _strip(_fn("network/hardware/nodes/network/switch.py", "Switch", "receive_frame")) if not _is_log(s)]
    txt = [_u(s) for s in body]
    want = ["src_mac = frame.ethernet.src_mac_addr", "dst_mac = frame.ethernet.dst_mac_addr",
            "self._add_mac_table_entry(src_mac, from_network_interface)", "outgoing_port = self.mac_address_table.get(dst_mac)"]
    if txt[:4] != want or len(body) != 5 or not isinstance(body[4], ast.If):
        raise RuntimeError("Switch.receive_frame: unrecognised shape: " + repr(txt[:4]))
    br = body[4]
    if _u(br.test) != "outgoing_port and dst_mac.lower() != 'ff:ff:ff:ff:ff:ff'" or [_u(x) for x in br.body] != ["outgoing_port.send_frame(frame)"]:
        raise RuntimeError("Switch.receive_frame: unicast branch changed")
    loop = [x for x in br.orelse if not _is_log(x)]
    if not (len(loop) == 1 and isinstance(loop[0], ast.For) and _u(loop[0].iter) == "self.network_interface.values()"
            and len(loop[0].body) == 1 and isinstance(loop[0].body[0], ast.If)
            and _u(loop[0].body[0].test) == "port.enabled and port != from_network_interface"
            and [_u(x) for x in loop[0].body[0].body] == ["port.send_frame(frame)"]):
        raise RuntimeError("Switch.receive_frame: flood loop changed")
    # nothing in the method assigns to the frame
    for n in ast.walk(_fn("network/hardware/nodes/network/switch.py", "Switch", "receive_frame")):
        if isinstance(n, (ast.Assign, ast.AugAssign)):
            tg = n.targets if isinstance(n, ast.Assign) else [n.target]
            if any(_u(t).startswith("frame") for t in tg):
                raise RuntimeError("Switch.receive_frame writes to the frame")
    return ["learn:_add_mac_table_entry(src_mac, from_port)", "lookup:mac_address_table.get(dst_mac)",
            "unicast:outgoing_port.send_frame(frame)", "flood:for-port-if-enabled-and-not-from:port.send_frame(frame)"]


def _arp_sites() -> Tuple[List[str], List[str]]:
    """every `ARPPacket(...)` construction and every caller of `send_arp_reply` under src/primaite (not only simulator/)"""
    sites, callers = [], []
    root = SRC
    for f in sorted(root.rglob("*.py")):
        rel = str(f.relative_to(root))
        rel = rel[len("simulator/"):] if rel.startswith("simulator/") else "../" + rel
        tree = ast.parse(f.read_text())

        def visit(node, scope):
            for ch in ast.iter_child_nodes(node):
                if isinstance(ch, (ast.ClassDef, ast.FunctionDef, ast.AsyncFunctionDef)):
                    visit(ch, scope + [ch.name])
                else:
                    if isinstance(ch, ast.Call):
                        g = ch.func
                        nm = g.attr if isinstance(g, ast.Attribute) else g.id if isinstance(g, ast.Name) else None
                        if nm == "ARPPacket":
                            sites.append(f"{rel}:{'.'.join(scope)}")
                        if nm == "send_arp_reply":
                            callers.append(f"{rel}:{'.'.join(scope)}")
                    visit(ch, scope)
        visit(tree, [])
    return sorted(sites), sorted(callers)


def _generate_reply() -> List[str]:
    fn = _fn("network/protocols/arp.py", "ARPPacket", "generate_reply")
    body = _strip(fn)
    if not (len(body) == 1 and isinstance(body[0], ast.Return) and isinstance(body[0].value, ast.Call) and _u(body[0].value.func) == "ARPPacket"):
        raise RuntimeError("ARPPacket.generate_reply: unrecognised shape")
    return sorted(f"{k.arg}={_u(k.value)}" for k in body[0].value.keywords)


def _session_arp_branch() -> List[str]:
    fn = _fn("system/core/session_manager.py", "SessionManager", "receive_payload_from_software_manager")
    first = _strip(fn)[0]
    if not (isinstance(first, ast.If) and _u(first.test) == "isinstance(payload, ARPPacket)"):
        raise RuntimeError("receive_payload_from_software_manager: does not start with the ARP branch")
    txt = [_u(s) for s in first.body]
    want = ["if payload.request:\n    dst_mac_address = 'ff:ff:ff:ff:ff:ff'\nelse:\n    dst_mac_address = payload.target_mac_addr",
            "outbound_network_interface = self.resolve_outbound_network_interface(payload.target_ip_address)",
            "is_broadcast = payload.request", "ip_protocol = PROTOCOL_LOOKUP['UDP']"]
    if txt != want:
        raise RuntimeError("receive_payload_from_software_manager: ARP branch changed: " + repr(txt))
    return ["request:dst_mac=broadcast", "reply:dst_mac=payload.target_mac_addr", "outbound=resolve(payload.target_ip_address)",
            "protocol=udp"]


def _host_arp_request() -> List[str]:
    body = [s for s in _strip(_fn("network/hardware/nodes/host/host_node.py", "HostARP", "_process_arp_request")) if not _is_log(s)]
    txt = [_u(s) for s in body]
    if not (len(body) == 4 and "super()._process_arp_request" in txt[0] and isinstance(body[1], ast.If)
            and _u(body[1].test) == "arp_packet.target_ip_address != from_network_interface.ip_address"
            and [_u(x) for x in body[1].body if not _is_log(x)] == ["return"]
            and txt[2] == "arp_packet = arp_packet.generate_reply(from_network_interface.mac_address)"
            and txt[3] == "self.send_arp_reply(arp_packet)"):
        raise RuntimeError("HostARP._process_arp_request: unrecognised shape: " + repr(txt))
    return ["guard:target-is-not-arrival-interface-return", "reply=generate_reply(arrival-interface.mac)", "send_arp_reply(reply)"]


# ------------------------------------------------------------------------------------------ rtrStd (round 4)
def _router_arp_targets() -> List[str]:
    """The argument of every `self.send_arp_request(..)` in the two RouterARP look-ups, in source order; the request for the looked-up
    address itself must sit under `if self.router.ip_is_in_router_interface_subnet(ip_address):`."""
    out = []
    for name in ("_get_arp_cache_network_interface", "_get_arp_cache_mac_address"):
        fn = _fn("network/hardware/nodes/network/router.py", "RouterARP", name)
        calls = [n for n in ast.walk(fn) if isinstance(n, ast.Call) and _u(n.func) == "self.send_arp_request"]
        calls.sort(key=lambda c: (c.lineno, c.col_offset))
        for c in calls:
            out.append(f"{name}:{_u(c.args[0])}")
        own = [n for n in ast.walk(fn) if isinstance(n, ast.If) and _u(n.test) == "self.router.ip_is_in_router_interface_subnet(ip_address)"]
        if len(own) != 1 or not any(isinstance(c, ast.Call) and _u(c.func) == "self.send_arp_request" and _u(c.args[0]) == "ip_address"
                                    for c in ast.walk(own[0])):
            raise RuntimeError(f"RouterARP.{name}: the request for the looked-up address is not under the interface-subnet test")
        outside = [c for c in calls if _u(c.args[0]) == "ip_address" and c not in list(ast.walk(own[0]))]
        if outside:
            raise RuntimeError(f"RouterARP.{name}: a request for the looked-up address outside the interface-subnet test")
    return out


def _router_icmp_reply() -> str:
    fn = _fn("network/hardware/nodes/network/router.py", "RouterICMP", "_process_icmp_echo_request")
    sends = [n for n in ast.walk(fn) if isinstance(n, ast.Call) and _u(n.func).endswith("receive_payload_from_software_manager")]
    if len(sends) != 1:
        raise RuntimeError("RouterICMP._process_icmp_echo_request: expected one send")
    kw = {k.arg: _u(k.value) for k in sends[0].keywords}
    return kw.get("dst_ip_address", "?")


def _terminal_exec_guards() -> List[str]:
    fn = _fn("system/services/terminal/terminal.py", "Terminal", "receive")
    execs = [n for n in ast.walk(fn) if isinstance(n, ast.Call) and _u(n.func) == "self.execute"]
    out = [f"execute:{len(execs)}-call-site"]
    parents = {}
    for n in ast.walk(fn):
        for ch in ast.iter_child_nodes(n):
            parents[ch] = n
    for c in execs:
        node, tests = c, []
        while node in parents:
            par = parents[node]
            if isinstance(par, ast.If) and node in par.body:
                tests.append(_u(par.test))
            node = par
        if "valid_connection" not in tests:
            raise RuntimeError("Terminal.receive: self.execute is not under `if valid_connection:`")
        branch = [t for t in tests if "SSH_MSG_SERVICE_REQUEST" in t]
        if not branch:
            raise RuntimeError("Terminal.receive: self.execute is not in the SSH_MSG_SERVICE_REQUEST branch")
        out.append("branch:" + branch[0])
    assigns = [_u(n) for n in ast.walk(fn) if isinstance(n, ast.Assign) and _u(n.targets[0]) == "valid_connection"]
    if len(assigns) != 1:
        raise RuntimeError("Terminal.receive: valid_connection assigned more than once")
    out.append("guard:" + assigns[0])
    return out


def _forward_writes() -> List[str]:
    """`Router.process_frame` / `route_frame`: every statement that touches the frame, and what is sent."""
    out = []
    for name in ("process_frame", "route_frame"):
        fn = _fn("network/hardware/nodes/network/router.py", "Router", name)
        for n in ast.walk(fn):
            if isinstance(n, (ast.Assign, ast.AugAssign)):
                tg = n.targets if isinstance(n, ast.Assign) else [n.target]
                if any(_u(t).startswith("frame") for t in tg):
                    out.append(f"{name}:{_u(n)}")
            if isinstance(n, ast.Expr) and isinstance(n.value, ast.Call):
                f = _u(n.value.func)
                if f.startswith("frame."):
                    out.append(f"{name}:{_u(n.value)}")
                if f.endswith(".send_frame"):
                    out.append(f"{name}:send({', '.join(_u(a) for a in n.value.args)})")
    return sorted(out)


def _l(xs: List[str]) -> str:
    return "[" + ", ".join('"' + x.replace('"', "'") + '"' for x in xs) + "]"


def emit() -> str:
    fns = _collect()
    seen, dispatch = _reach(fns)
    sites = sorted(f"{fn.key}: {e}" for fn in fns.values() for e in fn.enables)
    on_path = sorted(f"{fn.key}: {e}" for fn in fns.values() for e in fn.enables if fn.key in seen)
    arp_sites, arp_callers = _arp_sites()
    sysw = _system_software()
    classes = sorted({c for _, cs in sysw for c in cs})
    reach = []
    for c in classes:
        e, d, _n = _receive_reach(fns, c)
        reach.append((c, e, d))
    return f"""namespace Primaite.Gen.FilterSoft
/-- every site under simulator/ that enables an interface / port (or a service, an account: same method name) -/
def enableSites : List String := {_l(sites)}
/-- those that sit in a function reachable (name-based call graph, over-approximation) from a `receive_frame` without passing
the request dispatcher -/
def enableSitesOnFramePath : List String := {_l(on_path)}
/-- the request dispatcher (`apply_request`) is reachable from `receive_frame` (Terminal / C2 command execution) -/
def requestDispatchOnFramePath : Bool := {"true" if dispatch else "false"}
/-- `ARP.send_arp_request`, statement by statement -/
def sendArpRequest : List String := {_l(_send_arp_request())}
/-- `RouterARP._process_arp_request`, `ARP.send_arp_reply`, `RouterSessionManager.resolve_outbound_network_interface`,
first guards of `Router.process_frame` -/
def routerArp : List String := {_l(_router_arp())}
/-- `Switch.receive_frame`, statement by statement; the method never writes to the frame -/
def switchReceive : List String := {_l(_switch_receive())}
/-- every `ARPPacket(..)` construction under src/primaite -/
def arpPacketSites : List String := {_l(arp_sites)}
/-- every caller of `send_arp_reply` under src/primaite -/
def arpReplyCallers : List String := {_l(arp_callers)}
/-- keyword arguments of the `ARPPacket(..)` that `generate_reply` returns -/
def generateReply : List String := {_l(_generate_reply())}
/-- the `isinstance(payload, ARPPacket)` branch of `receive_payload_from_software_manager` -/
def sessionArpBranch : List String := {_l(_session_arp_branch())}
/-- `HostARP._process_arp_request` -/
def hostArpRequest : List String := {_l(_host_arp_request())}
/-- software a node of each kind carries as shipped (class names) -/
def systemSoftware : List (String × List String) := [{", ".join(f'("{a}", {_l(b)})' for a, b in sysw)}]
/-- the address each `send_arp_request(..)` of the two RouterARP look-ups asks for, in source order -/
def routerArpTargets : List String := {_l(_router_arp_targets())}
/-- `RouterICMP._process_icmp_echo_request` sends its reply to -/
def routerIcmpReplyDst : String := "{_router_icmp_reply()}"
/-- where `Terminal.receive` calls `self.execute` (the only path to `apply_request` in the software layer) -/
def terminalExecGuards : List String := {_l(_terminal_exec_guards())}
/-- every statement of `Router.process_frame` / `route_frame` that touches the frame, and what they send -/
def forwardWrites : List String := {_l(_forward_writes())}
/-- per shipped software class: can the code run by its `receive` reach (enable site, request dispatcher) without leaving
the node?  (`self`/`super()` calls resolved in the class's ancestor chain, other calls by name; stops at send_frame /
transmit_frame / receive_frame) -/
def receiveReach : List (String × Bool × Bool) := [{", ".join(f'("{c}", {"true" if e else "false"}, {"true" if d else "false"})' for c, e, d in reach)}]
end Primaite.Gen.FilterSoft
"""
