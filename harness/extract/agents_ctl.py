"""Statement-by-statement TRANSLATION (pure `ast`, never imports primaite) of the methods that move a threat-actor agent
through its kill chain:

    AbstractTAP._tap_outcome_handler, _tap_start, _tap_return_handler, _agent_trial_handler      (abstract_tap.py)
    TAP001._progress_kill_chain, TAP003._progress_kill_chain                                     (TAP001.py, TAP003.py)

into Lean functions over the record `Ctl` of the attributes they read and write (`current_kill_chain_stage`,
`next_kill_chain_stage`, `current_stage_progress`, `actions_concluded`, "chosen_action was set to do-nothing", "an enum
constructor call found no member").  Props/C19Ctl.lean proves (`C19_gen_ctl_*`), for EVERY state, that each translated
function computes what the hand-written model function computes — so a rewrite of one of these methods that keeps its
meaning (guard clauses instead of nested ifs, a reordered test) keeps the theorems, and one that changes it breaks them.

Supported: `self.<attr> = expr`, local variables (`name = expr`), `if / elif / else`, `return [True|False]`, `self.logger.*(…)` (skipped), docstrings;
expressions: the five attributes, `<KillChain>.<MEMBER>`, `KillChainStageProgress.<MEMBER>`, `<kc>.initial_stage(<kc>)`,
`self.selected_kill_chain(e)` (as the whole right-hand side of an assignment: may raise), `e + 1`, `==`, `!=`, `in (…)`, `not in (…)`, `and`, `or`,
`not`, `True`, `False`, the two settings `repeat_kill_chain` / `repeat_kill_chain_stages`, and a few named opaque tests that
become Boolean parameters.  Anything else raises Unsupported (a broken extractor obligation)."""
import ast
from typing import Dict, List, Tuple

from harness.extract.util import class_def, find_method, parse

GEN_NAME = "AgentsCtl"
SA = "game/agent/scripted_agents/"


class Unsupported(Exception):
    pass


ATTR = {"self.current_kill_chain_stage": ("cur", "int"), "self.next_kill_chain_stage": ("nxt", "int"),
        "self.current_stage_progress": ("prog", "int"), "self.actions_concluded": ("concluded", "bool")}
SETTINGS = {"self.config.agent_settings.repeat_kill_chain": "rkc", "self.config.agent_settings.repeat_kill_chain_stages": "rs"}
KC_NAMES = {"self.selected_kill_chain", "BaseKillChain", "MobileMalwareKillChain", "InsiderKillChain", "selected_kill_chain_class",
            "tap_kill_chain"}


def _enum(tree: ast.AST, name: str) -> Dict[str, int]:
    out = {}
    for st in class_def(tree, name).body:
        if isinstance(st, ast.Assign) and len(st.targets) == 1 and isinstance(st.targets[0], ast.Name) \
                and isinstance(st.value, ast.Constant) and isinstance(st.value.value, int):
            out[st.targets[0].id] = st.value.value
    if not out:
        raise Unsupported(f"enum {name} has no members")
    return out


class Tr:
    """One method.  `members`: the enum the method's `<KillChain>.<MEMBER>` refer to; `opaque`: source text of a test or
    call -> Lean Boolean parameter; `ret_bool`: the method returns True/False (result `Ctl × Bool`) or nothing (`Ctl`)."""

    def __init__(self, members: Dict[str, int], progress: Dict[str, int], opaque: Dict[str, str], ret_bool: bool):
        self.members, self.progress, self.opaque, self.ret_bool = members, progress, opaque, ret_bool
        self.locals: Dict[str, Tuple[str, str]] = {}      # local variable -> (Lean name, type)

    def expr(self, e: ast.AST) -> Tuple[str, str]:
        src = ast.unparse(e)
        if src in self.opaque:
            return self.opaque[src], "bool"
        if src in ATTR:
            return "s." + ATTR[src][0], ATTR[src][1]
        if isinstance(e, ast.Name) and e.id in self.locals:
            return self.locals[e.id]
        if src in SETTINGS:
            return SETTINGS[src], "bool"
        if isinstance(e, ast.Constant) and isinstance(e.value, bool):
            return ("true" if e.value else "false"), "bool"
        if isinstance(e, ast.Constant) and isinstance(e.value, int):
            return f"({e.value} : Int)", "int"
        if isinstance(e, ast.Attribute) and ast.unparse(e.value) in KC_NAMES:
            if e.attr not in self.members:
                raise Unsupported(f"{src}: no such member")
            return f"({self.members[e.attr]} : Int)", "int"
        if isinstance(e, ast.Attribute) and ast.unparse(e.value) == "KillChainStageProgress":
            if e.attr not in self.progress:
                raise Unsupported(f"{src}: no such member")
            return f"({self.progress[e.attr]} : Int)", "int"
        if isinstance(e, ast.Call) and isinstance(e.func, ast.Attribute) and e.func.attr == "initial_stage" \
                and ast.unparse(e.func.value) in KC_NAMES and [ast.unparse(a) for a in e.args] == [ast.unparse(e.func.value)]:
            return "initial", "int"
        if isinstance(e, ast.BinOp) and isinstance(e.op, ast.Add):
            l, lt = self.expr(e.left)
            r, rt = self.expr(e.right)
            if lt != "int" or rt != "int":
                raise Unsupported(f"{src}: + on non-integers")
            return f"({l} + {r})", "int"
        if isinstance(e, ast.Compare) and len(e.ops) == 1 and isinstance(e.ops[0], (ast.Eq, ast.NotEq)):
            l, lt = self.expr(e.left)
            r, rt = self.expr(e.comparators[0])
            if lt != rt:
                raise Unsupported(f"{src}: comparison of {lt} with {rt}")
            return (f"({l} == {r})" if isinstance(e.ops[0], ast.Eq) else f"({l} != {r})"), "bool"
        if isinstance(e, ast.Compare) and len(e.ops) == 1 and isinstance(e.ops[0], (ast.In, ast.NotIn)) \
                and isinstance(e.comparators[0], (ast.Tuple, ast.List, ast.Set)) and e.comparators[0].elts:
            l, lt = self.expr(e.left)
            alts = [self.expr(x) for x in e.comparators[0].elts]
            if any(t != lt for _, t in alts):
                raise Unsupported(f"{src}: membership among values of another type")
            disj = "(" + " || ".join(f"({l} == {a})" for a, _ in alts) + ")"
            return (disj if isinstance(e.ops[0], ast.In) else f"(!{disj})"), "bool"
        if isinstance(e, ast.BoolOp):
            parts = [self.expr(v) for v in e.values]
            if any(t != "bool" for _, t in parts):
                raise Unsupported(f"{src}: and/or over non-Booleans (Python would return an operand)")
            return "(" + (" && " if isinstance(e.op, ast.And) else " || ").join(p for p, _ in parts) + ")", "bool"
        if isinstance(e, ast.UnaryOp) and isinstance(e.op, ast.Not):
            v, t = self.expr(e.operand)
            if t != "bool":
                raise Unsupported(f"{src}: not over a non-Boolean")
            return f"(!{v})", "bool"
        raise Unsupported("expression " + src[:100])

    def done(self, value: str = "") -> str:
        return f"(s, {value})" if self.ret_bool else "s"

    def stmts(self, body: List[ast.stmt], ind: int) -> str:
        pad = "  " * ind
        body = [b for b in body if not _inert(b)]
        if not body:
            if self.ret_bool:
                raise Unsupported("a path of a Boolean method ends without return")
            return pad + "s"
        st, rest = body[0], body[1:]
        if isinstance(st, ast.Return):
            if self.ret_bool:
                if not (isinstance(st.value, ast.Constant) and isinstance(st.value.value, bool)):
                    raise Unsupported("return of something other than True / False")
                return pad + self.done("true" if st.value.value else "false")
            if st.value is not None:
                raise Unsupported("return with a value in a method translated as returning nothing")
            return pad + "s"
        if isinstance(st, ast.Assign) and len(st.targets) == 1:
            tgt = ast.unparse(st.targets[0])
            if tgt == "self.chosen_action":
                if ast.unparse(st.value) != "('do-nothing', {})":
                    raise Unsupported("chosen_action set to something other than do-nothing: " + ast.unparse(st.value)[:80])
                return f"{pad}let s : Ctl := {{ s with nothing := true }}\n" + self.stmts(rest, ind)
            if isinstance(st.targets[0], ast.Name):         # a local variable
                lean = "v_" + tgt
                v = st.value
                if isinstance(v, ast.Call) and ast.unparse(v.func) == "self.selected_kill_chain" and len(v.args) == 1 and not v.keywords:
                    arg, at = self.expr(v.args[0])
                    if at != "int":
                        raise Unsupported("enum constructor on a non-integer")
                    self.locals[tgt] = (lean, "int")
                    return (f"{pad}if mem {arg} then\n{pad}  let {lean} : Int := {arg}\n{self.stmts(rest, ind + 1)}\n"
                            f"{pad}else\n{pad}  {self.raised()}")
                val, vt = self.expr(v)
                self.locals[tgt] = (lean, vt)
                return f"{pad}let {lean} : {'Int' if vt == 'int' else 'Bool'} := {val}\n" + self.stmts(rest, ind)
            if tgt not in ATTR:
                raise Unsupported("assignment to " + tgt)
            field, ty = ATTR[tgt]
            v = st.value
            if isinstance(v, ast.Call) and ast.unparse(v.func) == "self.selected_kill_chain" and len(v.args) == 1 and not v.keywords:
                arg, at = self.expr(v.args[0])
                if ty != "int" or at != "int":
                    raise Unsupported("enum constructor on a non-integer")
                return (f"{pad}if mem {arg} then\n{pad}  let s : Ctl := {{ s with {field} := {arg} }}\n{self.stmts(rest, ind + 1)}\n"
                        f"{pad}else\n{pad}  {self.raised()}")
            val, vt = self.expr(v)
            if vt != ty:
                raise Unsupported(f"{tgt} := a value of type {vt}")
            return f"{pad}let s : Ctl := {{ s with {field} := {val} }}\n" + self.stmts(rest, ind)
        if isinstance(st, ast.If):
            t, tt = self.expr(st.test)
            if tt != "bool":
                raise Unsupported("truthiness of a non-Boolean test: " + ast.unparse(st.test)[:80])
            saved = dict(self.locals)                        # each branch (with its continuation) has its own scope
            then_ = self.stmts(list(st.body) + ([] if _ends(st.body) else rest), ind + 1)
            self.locals = dict(saved)
            else_ = self.stmts(list(st.orelse) + ([] if _ends(st.orelse) else rest), ind + 1)
            self.locals = saved
            return f"{pad}if {t} then\n{then_}\n{pad}else\n{else_}"
        raise Unsupported("statement " + ast.unparse(st)[:100])

    def raised(self) -> str:
        return "({ s with raised := true }, false)" if self.ret_bool else "{ s with raised := true }"


def _inert(st: ast.stmt) -> bool:
    """Docstrings, logger calls, `pass`, and an `if` all of whose branches are inert (its test is a pure expression)."""
    if isinstance(st, ast.Pass):
        return True
    if isinstance(st, ast.Expr):
        return isinstance(st.value, ast.Constant) or ast.unparse(st.value).startswith("self.logger.")
    if isinstance(st, ast.If):
        return all(_inert(b) for b in st.body) and all(_inert(b) for b in st.orelse)
    return False


def _ends(body: List[ast.stmt]) -> bool:
    """Does every path through `body` end in `return`?"""
    if not body:
        return False
    last = body[-1]
    if isinstance(last, ast.Return):
        return True
    return isinstance(last, ast.If) and _ends(last.body) and _ends(last.orelse)


def _fn(name: str, params: str, ret: str, body: str, doc: str) -> str:
    return f"/-- {doc} -/\ndef {name} {params} (s : Ctl) : {ret} :=\n{body}\n"


def emit() -> str:
    t_abs, t1, t3 = parse(SA + "abstract_tap.py"), parse(SA + "TAP001.py"), parse(SA + "TAP003.py")
    base, prog = _enum(t_abs, "BaseKillChain"), _enum(t_abs, "KillChainStageProgress")
    mm, ins = _enum(t1, "MobileMalwareKillChain"), _enum(t3, "InsiderKillChain")
    for name, kc in (("MobileMalwareKillChain", mm), ("InsiderKillChain", ins)):
        for k, v in base.items():                  # "These Enums must be included in all kill chains"
            if kc.get(k) != v:
                raise Unsupported(f"{name}.{k} = {kc.get(k)} differs from BaseKillChain.{k} = {v}")
    tap = class_def(t_abs, "AbstractTAP")
    out = ["set_option linter.unusedVariables false", "namespace Primaite.Gen.AgentsCtl",
           "/-- The attributes the control methods of a threat-actor agent read and write.  `nothing`: `self.chosen_action = "
           "(\"do-nothing\", {})` was executed; `raised`: a call `self.selected_kill_chain(v)` found no member with value `v` "
           "(ValueError). -/",
           "structure Ctl where\n  cur : Int\n  nxt : Int\n  prog : Int\n  concluded : Bool\n  nothing : Bool := false\n"
           "  raised : Bool := false\nderiving DecidableEq, Repr\n"]
    common = "(initial : Int) (rkc rs : Bool) (mem : Int → Bool)"
    m = find_method(tap, "_tap_outcome_handler")
    out.append(_fn("tapOutcomeHandler", common, "Ctl", Tr(base, prog, {}, False).stmts(m.body, 1),
                   "`AbstractTAP._tap_outcome_handler`, statement by statement"))
    m = find_method(tap, "_tap_start")
    out.append(_fn("tapStart", common, "Ctl", Tr(base, prog, {}, False).stmts(m.body, 1), "`AbstractTAP._tap_start`"))
    m = find_method(tap, "_tap_return_handler")
    opaque = {"timestep >= len(self.history)": "noItem", "self.history[timestep].response.status != 'success'": "(!respOk)"}
    out.append(_fn("tapReturnHandler", common + " (noItem respOk : Bool)", "Ctl × Bool", Tr(base, prog, opaque, True).stmts(m.body, 1),
                   "`AbstractTAP._tap_return_handler(timestep)`; `noItem` = `timestep >= len(self.history)`, `respOk` = the status of "
                   "`self.history[timestep].response` is 'success'"))
    m = find_method(tap, "_agent_trial_handler")
    opaque = {"simulate_trial(agent_probability_of_success)": "trialOk"}
    out.append(_fn("agentTrialHandler", common + " (trialOk : Bool)", "Ctl × Bool", Tr(base, prog, opaque, True).stmts(m.body, 1),
                   "`AbstractTAP._agent_trial_handler(p)`; `trialOk` = `simulate_trial(p)`"))
    m = find_method(class_def(t1, "TAP001"), "_progress_kill_chain")
    out.append(_fn("tap1ProgressKillChain", common, "Ctl", Tr(mm, prog, {}, False).stmts(m.body, 1), "`TAP001._progress_kill_chain`"))
    m = find_method(class_def(t3, "TAP003"), "_progress_kill_chain")
    out.append(_fn("tap3ProgressKillChain", common, "Ctl", Tr(ins, prog, {}, False).stmts(m.body, 1), "`TAP003._progress_kill_chain`"))
    out.append(_resp_sites(t3))
    out.append("end Primaite.Gen.AgentsCtl\n")
    return "\n".join(out)


# ------------------------------------------------------------------ the responses TAP003 reads, and where they are built
def _rr_site(call: ast.Call) -> Tuple[str, List[str]]:
    """(status, keys of data) of one `RequestResponse(status=…, data={…})` construction."""
    kw = {k.arg: k.value for k in call.keywords}
    if call.args or "status" not in kw or not isinstance(kw["status"], ast.Constant):
        raise Unsupported("RequestResponse site without a literal status: " + ast.unparse(call)[:80])
    data = kw.get("data")
    if data is None:
        keys = []
    elif isinstance(data, ast.Dict) and all(isinstance(k, ast.Constant) for k in data.keys):
        keys = [k.value for k in data.keys]
    else:
        raise Unsupported("RequestResponse site whose data is not a dict literal: " + ast.unparse(call)[:80])
    return kw["status"].value, keys


def _resp_sites(t3: ast.AST) -> str:
    """`SimOk` tie: (1) the simulation's `do-nothing` request; (2) every response `Terminal._remote_login` builds;
    (3) every `….response.data[key]` TAP003 reads, with its method, and the guards in front of the reads."""
    sim = parse("simulator/sim_container.py")
    dn = [c for c in ast.walk(sim) if isinstance(c, ast.Call) and ast.unparse(c.func).endswith("add_request") and c.args
          and isinstance(c.args[0], ast.Constant) and c.args[0].value == "do-nothing"]
    if len(dn) != 1:
        raise Unsupported(f"{len(dn)} registrations of the do-nothing request in sim_container.py")
    rr = [c for c in ast.walk(dn[0]) if isinstance(c, ast.Call) and ast.unparse(c.func) == "RequestResponse"]
    lam = [x for x in ast.walk(dn[0]) if isinstance(x, ast.Lambda)]
    if len(rr) != 1 or len(lam) != 1 or lam[0].body is not rr[0]:
        raise Unsupported("the do-nothing request is not `lambda request, context: RequestResponse(…)`")
    dn_status, _ = _rr_site(rr[0])
    term = parse("simulator/system/services/terminal/terminal.py")
    fn = [f for f in ast.walk(term) if isinstance(f, ast.FunctionDef) and f.name == "_remote_login"]
    reg = [c for c in ast.walk(term) if isinstance(c, ast.Call) and ast.unparse(c.func).endswith("add_request") and c.args
           and isinstance(c.args[0], ast.Constant) and c.args[0].value == "node_session_remote_login"]
    if len(fn) != 1 or len(reg) != 1 or "func=_remote_login" not in ast.unparse(reg[0]):
        raise Unsupported("terminal.py: node_session_remote_login is not served by exactly one `_remote_login`")
    sites = []
    for r in [x for x in ast.walk(fn[0]) if isinstance(x, ast.Return)]:
        if not (isinstance(r.value, ast.Call) and ast.unparse(r.value.func) == "RequestResponse"):
            raise Unsupported("_remote_login returns something other than a RequestResponse(…) literal")
        sites.append(_rr_site(r.value))
    reads = set()
    cls = class_def(t3, "TAP003")
    for m in [x for x in cls.body if isinstance(x, ast.FunctionDef)]:
        for sub in ast.walk(m):
            if isinstance(sub, ast.Subscript) and ast.unparse(sub.value).endswith(".response.data"):
                if not isinstance(sub.slice, ast.Constant):
                    raise Unsupported("response.data read with a computed key in " + m.name)
                reads.add((m.name, sub.slice.value))
            elif isinstance(sub, ast.Attribute) and sub.attr == "data" and ast.unparse(sub.value).endswith(".response"):
                pass
        # any use of response.data other than a literal subscript (e.g. `.get`, iteration) is not modelled
        for sub in ast.walk(m):
            if isinstance(sub, ast.Call) and ".response.data." in ast.unparse(sub.func):
                raise Unsupported("response.data used through a method call in " + m.name)
    ga = find_method(cls, "get_action")
    guard = None
    for node in ast.walk(ga):
        if isinstance(node, ast.If) and any(isinstance(x, ast.Subscript) and ast.unparse(x.value).endswith(".response.data")
                                            for b in node.body for x in ast.walk(b)):
            guard = ast.unparse(node.test)          # innermost if that contains the read: keep the LAST found while walking down
    hl = find_method(cls, "_handle_login_response")
    login_guard = [ast.unparse(x.test) for x in hl.body if isinstance(x, ast.If) and any(isinstance(y, ast.Return) for y in x.body)]
    q = lambda x: '"' + str(x).replace('"', "'") + '"'  # noqa: E731
    strs = lambda xs: "[" + ", ".join(q(x) for x in xs) + "]"  # noqa: E731
    return ("/-- `SimOk` tie.  The status the simulation answers a `do-nothing` request with (sim_container.py) -/\n"
            f"def doNothingStatus : String := {q(dn_status)}\n"
            "/-- every response `Terminal._remote_login` (the handler of `node_session_remote_login`) builds: status, keys of data -/\n"
            f"def remoteLoginSites : List (String × List String) := [{', '.join(f'({q(st)}, {strs(ks)})' for st, ks in sites)}]\n"
            "/-- every literal `….response.data[key]` in TAP003: (method, key) -/\n"
            f"def tap3DataReads : List (String × String) := [{', '.join(f'({q(m)}, {q(k)})' for m, k in sorted(reads))}]\n"
            "/-- the innermost `if` of `TAP003.get_action` around its read of response.data; the early-return guards of `_handle_login_response` -/\n"
            f"def tap3ReasonGuard : String := {q(guard)}\n"
            f"def tap3LoginGuards : List String := {strs(login_guard)}\n")
