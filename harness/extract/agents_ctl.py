"""Statement-by-statement TRANSLATION (pure `ast`, never imports primaite) of the methods that move a threat-actor agent
through its kill chain:

    AbstractTAP._tap_outcome_handler, _tap_start, _tap_return_handler, _agent_trial_handler      (abstract_tap.py)
    TAP001._progress_kill_chain, TAP003._progress_kill_chain                                     (TAP001.py, TAP003.py)

into Lean functions over the record `Ctl` of the attributes they read and write (`current_kill_chain_stage`,
`next_kill_chain_stage`, `current_stage_progress`, `actions_concluded`, "chosen_action was set to do-nothing", "an enum
constructor call found no member").  Props/C19Ctl.lean proves (`C19_gen_ctl_*`), for EVERY state, that each translated
function computes what the hand-written model function computes — so a rewrite of one of these methods that keeps its
meaning (guard clauses instead of nested ifs, a reordered test) keeps the theorems, and one that changes it breaks them.

Supported: `self.<attr> = expr`, local variables (`name = expr`), `if / elif / else`, `return [True|False]`, `self.logger.*(…)` (skipped), docstrings;
expressions: the five attributes, `<KillChain>.<MEMBER>`, `KillChainStageProgress.<MEMBER>`, `<kc>.initial_stage(<kc>)`,
`self.selected_kill_chain(e)` (as the whole right-hand side of an assignment: may raise), `e + 1`, `==`, `!=`, `in (…)`, `not in (…)`, `and`, `or`,
`not`, `True`, `False`, the two settings `repeat_kill_chain` / `repeat_kill_chain_stages`, and a few named opaque tests that
become Boolean parameters.  Anything else raises Unsupported (a broken extractor obligation)."""
import ast
from typing import Dict, List, Tuple

from harness.extract.util import class_def, find_method, parse

GEN_NAME = "AgentsCtl"
EXTRA_GEN = {"AgentsGet": "emit_get"}      # get_action of PeriodicAgent / ProbabilisticAgent, the probability vector
SA = "game/agent/scripted_agents/"


class Unsupported(Exception):
    pass


ATTR = {"self.current_kill_chain_stage": ("cur", "int"), "self.next_kill_chain_stage": ("nxt", "int"),
        "self.current_stage_progress": ("prog", "int"), "self.actions_concluded": ("concluded", "bool")}
SETTINGS = {"self.config.agent_settings.repeat_kill_chain": "rkc", "self.config.agent_settings.repeat_kill_chain_stages": "rs"}
KC_NAMES = {"self.selected_kill_chain", "BaseKillChain", "MobileMalwareKillChain", "InsiderKillChain", "selected_kill_chain_class",
            "tap_kill_chain"}


def _enum(tree: ast.AST, name: str) -> Dict[str, int]:
    out = {}
    for st in class_def(tree, name).body:
        if isinstance(st, ast.Assign) and len(st.targets) == 1 and isinstance(st.targets[0], ast.Name) \
                and isinstance(st.value, ast.Constant) and isinstance(st.value.value, int):
            out[st.targets[0].id] = st.value.value
    if not out:
        raise Unsupported(f"enum {name} has no members")
    return out


class Tr:
    """One method.  `members`: the enum the method's `<KillChain>.<MEMBER>` refer to; `opaque`: source text of a test or
    call -> Lean Boolean parameter; `ret_bool`: the method returns True/False (result `Ctl × Bool`) or nothing (`Ctl`)."""

    def __init__(self, members: Dict[str, int], progress: Dict[str, int], opaque: Dict[str, str], ret_bool: bool):
        self.members, self.progress, self.opaque, self.ret_bool = members, progress, opaque, ret_bool
        self.locals: Dict[str, Tuple[str, str]] = {}      # local variable -> (Lean name, type)

    def expr(self, e: ast.AST) -> Tuple[str, str]:
        src = ast.unparse(e)
        if src in self.opaque:
            return self.opaque[src], "bool"
        if src in ATTR:
            return "s." + ATTR[src][0], ATTR[src][1]
        if isinstance(e, ast.Name) and e.id in self.locals:
            return self.locals[e.id]
        if src in SETTINGS:
            return SETTINGS[src], "bool"
        if isinstance(e, ast.Constant) and isinstance(e.value, bool):
            return ("true" if e.value else "false"), "bool"
        if isinstance(e, ast.Constant) and isinstance(e.value, int):
            return f"({e.value} : Int)", "int"
        if isinstance(e, ast.Attribute) and ast.unparse(e.value) in KC_NAMES:
            if e.attr not in self.members:
                raise Unsupported(f"{src}: no such member")
            return f"({self.members[e.attr]} : Int)", "int"
        if isinstance(e, ast.Attribute) and ast.unparse(e.value) == "KillChainStageProgress":
            if e.attr not in self.progress:
                raise Unsupported(f"{src}: no such member")
            return f"({self.progress[e.attr]} : Int)", "int"
        if isinstance(e, ast.Call) and isinstance(e.func, ast.Attribute) and e.func.attr == "initial_stage" \
                and ast.unparse(e.func.value) in KC_NAMES and [ast.unparse(a) for a in e.args] == [ast.unparse(e.func.value)]:
            return "initial", "int"
        if isinstance(e, ast.BinOp) and isinstance(e.op, ast.Add):
            l, lt = self.expr(e.left)
            r, rt = self.expr(e.right)
            if lt != "int" or rt != "int":
                raise Unsupported(f"{src}: + on non-integers")
            return f"({l} + {r})", "int"
        if isinstance(e, ast.Compare) and len(e.ops) == 1 and isinstance(e.ops[0], (ast.Eq, ast.NotEq)):
            l, lt = self.expr(e.left)
            r, rt = self.expr(e.comparators[0])
            if lt != rt:
                raise Unsupported(f"{src}: comparison of {lt} with {rt}")
            return (f"({l} == {r})" if isinstance(e.ops[0], ast.Eq) else f"({l} != {r})"), "bool"
        if isinstance(e, ast.Compare) and len(e.ops) == 1 and isinstance(e.ops[0], (ast.In, ast.NotIn)) \
                and isinstance(e.comparators[0], (ast.Tuple, ast.List, ast.Set)) and e.comparators[0].elts:
            l, lt = self.expr(e.left)
            alts = [self.expr(x) for x in e.comparators[0].elts]
            if any(t != lt for _, t in alts):
                raise Unsupported(f"{src}: membership among values of another type")
            disj = "(" + " || ".join(f"({l} == {a})" for a, _ in alts) + ")"
            return (disj if isinstance(e.ops[0], ast.In) else f"(!{disj})"), "bool"
        if isinstance(e, ast.BoolOp):
            parts = [self.expr(v) for v in e.values]
            if any(t != "bool" for _, t in parts):
                raise Unsupported(f"{src}: and/or over non-Booleans (Python would return an operand)")
            return "(" + (" && " if isinstance(e.op, ast.And) else " || ").join(p for p, _ in parts) + ")", "bool"
        if isinstance(e, ast.UnaryOp) and isinstance(e.op, ast.Not):
            v, t = self.expr(e.operand)
            if t != "bool":
                raise Unsupported(f"{src}: not over a non-Boolean")
            return f"(!{v})", "bool"
        raise Unsupported("expression " + src[:100])

    def done(self, value: str = "") -> str:
        return f"(s, {value})" if self.ret_bool else "s"

    def stmts(self, body: List[ast.stmt], ind: int) -> str:
        pad = "  " * ind
        body = [b for b in body if not _inert(b)]
        if not body:
            if self.ret_bool:
                raise Unsupported("a path of a Boolean method ends without return")
            return pad + "s"
        st, rest = body[0], body[1:]
        if isinstance(st, ast.Return):
            if self.ret_bool:
                if not (isinstance(st.value, ast.Constant) and isinstance(st.value.value, bool)):
                    raise Unsupported("return of something other than True / False")
                return pad + self.done("true" if st.value.value else "false")
            if st.value is not None:
                raise Unsupported("return with a value in a method translated as returning nothing")
            return pad + "s"
        if isinstance(st, ast.Assign) and len(st.targets) == 1:
            tgt = ast.unparse(st.targets[0])
            if tgt == "self.chosen_action":
                if ast.unparse(st.value) != "('do-nothing', {})":
                    raise Unsupported("chosen_action set to something other than do-nothing: " + ast.unparse(st.value)[:80])
                return f"{pad}let s : Ctl := {{ s with nothing := true }}\n" + self.stmts(rest, ind)
            if isinstance(st.targets[0], ast.Name):         # a local variable
                lean = "v_" + tgt
                v = st.value
                if isinstance(v, ast.Call) and ast.unparse(v.func) == "self.selected_kill_chain" and len(v.args) == 1 and not v.keywords:
                    arg, at = self.expr(v.args[0])
                    if at != "int":
                        raise Unsupported("enum constructor on a non-integer")
                    self.locals[tgt] = (lean, "int")
                    return (f"{pad}if mem {arg} then\n{pad}  let {lean} : Int := {arg}\n{self.stmts(rest, ind + 1)}\n"
                            f"{pad}else\n{pad}  {self.raised()}")
                val, vt = self.expr(v)
                self.locals[tgt] = (lean, vt)
                return f"{pad}let {lean} : {'Int' if vt == 'int' else 'Bool'} := {val}\n" + self.stmts(rest, ind)
            if tgt not in ATTR:
                raise Unsupported("assignment to " + tgt)
            field, ty = ATTR[tgt]
            v = st.value
            if isinstance(v, ast.Call) and ast.unparse(v.func) == "self.selected_kill_chain" and len(v.args) == 1 and not v.keywords:
                arg, at = self.expr(v.args[0])
                if ty != "int" or at != "int":
                    raise Unsupported("enum constructor on a non-integer")
                return (f"{pad}if mem {arg} then\n{pad}  let s : Ctl := {{ s with {field} := {arg} }}\n{self.stmts(rest, ind + 1)}\n"
                        f"{pad}else\n{pad}  {self.raised()}")
            val, vt = self.expr(v)
            if vt != ty:
                raise Unsupported(f"{tgt} := a value of type {vt}")
            return f"{pad}let s : Ctl := {{ s with {field} := {val} }}\n" + self.stmts(rest, ind)
        if isinstance(st, ast.If):
            t, tt = self.expr(st.test)
            if tt != "bool":
                raise Unsupported("truthiness of a non-Boolean test: " + ast.unparse(st.test)[:80])
            saved = dict(self.locals)                        # each branch (with its continuation) has its own scope
            then_ = self.stmts(list(st.body) + ([] if _ends(st.body) else rest), ind + 1)
            self.locals = dict(saved)
            else_ = self.stmts(list(st.orelse) + ([] if _ends(st.orelse) else rest), ind + 1)
            self.locals = saved
            return f"{pad}if {t} then\n{then_}\n{pad}else\n{else_}"
        raise Unsupported("statement " + ast.unparse(st)[:100])

    def raised(self) -> str:
        return "({ s with raised := true }, false)" if self.ret_bool else "{ s with raised := true }"


def _inert(st: ast.stmt) -> bool:
    """Docstrings, logger calls, `pass`, and an `if` all of whose branches are inert (its test is a pure expression)."""
    if isinstance(st, ast.Pass):
        return True
    if isinstance(st, ast.Expr):
        return isinstance(st.value, ast.Constant) or ast.unparse(st.value).startswith("self.logger.")
    if isinstance(st, ast.If):
        return all(_inert(b) for b in st.body) and all(_inert(b) for b in st.orelse)
    return False


def _ends(body: List[ast.stmt]) -> bool:
    """Does every path through `body` end in `return`?"""
    if not body:
        return False
    last = body[-1]
    if isinstance(last, ast.Return):
        return True
    return isinstance(last, ast.If) and _ends(last.body) and _ends(last.orelse)


def _fn(name: str, params: str, ret: str, body: str, doc: str) -> str:
    return f"/-- {doc} -/\ndef {name} {params} (s : Ctl) : {ret} :=\n{body}\n"


def emit() -> str:
    t_abs, t1, t3 = parse(SA + "abstract_tap.py"), parse(SA + "TAP001.py"), parse(SA + "TAP003.py")
    base, prog = _enum(t_abs, "BaseKillChain"), _enum(t_abs, "KillChainStageProgress")
    mm, ins = _enum(t1, "MobileMalwareKillChain"), _enum(t3, "InsiderKillChain")
    for name, kc in (("MobileMalwareKillChain", mm), ("InsiderKillChain", ins)):
        for k, v in base.items():                  # "These Enums must be included in all kill chains"
            if kc.get(k) != v:
                raise Unsupported(f"{name}.{k} = {kc.get(k)} differs from BaseKillChain.{k} = {v}")
    tap = class_def(t_abs, "AbstractTAP")
    out = ["set_option linter.unusedVariables false", "namespace Primaite.Gen.AgentsCtl",
           "/-- The attributes the control methods of a threat-actor agent read and write.  `nothing`: `self.chosen_action = "
           "(\"do-nothing\", {})` was executed; `raised`: a call `self.selected_kill_chain(v)` found no member with value `v` "
           "(ValueError). -/",
           "structure Ctl where\n  cur : Int\n  nxt : Int\n  prog : Int\n  concluded : Bool\n  nothing : Bool := false\n"
           "  raised : Bool := false\nderiving DecidableEq, Repr\n"]
    common = "(initial : Int) (rkc rs : Bool) (mem : Int → Bool)"
    m = find_method(tap, "_tap_outcome_handler")
    out.append(_fn("tapOutcomeHandler", common, "Ctl", Tr(base, prog, {}, False).stmts(m.body, 1),
                   "`AbstractTAP._tap_outcome_handler`, statement by statement"))
    m = find_method(tap, "_tap_start")
    out.append(_fn("tapStart", common, "Ctl", Tr(base, prog, {}, False).stmts(m.body, 1), "`AbstractTAP._tap_start`"))
    m = find_method(tap, "_tap_return_handler")
    opaque = {"timestep >= len(self.history)": "noItem", "self.history[timestep].response.status != 'success'": "(!respOk)"}
    out.append(_fn("tapReturnHandler", common + " (noItem respOk : Bool)", "Ctl × Bool", Tr(base, prog, opaque, True).stmts(m.body, 1),
                   "`AbstractTAP._tap_return_handler(timestep)`; `noItem` = `timestep >= len(self.history)`, `respOk` = the status of "
                   "`self.history[timestep].response` is 'success'"))
    m = find_method(tap, "_agent_trial_handler")
    opaque = {"simulate_trial(agent_probability_of_success)": "trialOk"}
    out.append(_fn("agentTrialHandler", common + " (trialOk : Bool)", "Ctl × Bool", Tr(base, prog, opaque, True).stmts(m.body, 1),
                   "`AbstractTAP._agent_trial_handler(p)`; `trialOk` = `simulate_trial(p)`"))
    m = find_method(class_def(t1, "TAP001"), "_progress_kill_chain")
    out.append(_fn("tap1ProgressKillChain", common, "Ctl", Tr(mm, prog, {}, False).stmts(m.body, 1), "`TAP001._progress_kill_chain`"))
    m = find_method(class_def(t3, "TAP003"), "_progress_kill_chain")
    out.append(_fn("tap3ProgressKillChain", common, "Ctl", Tr(ins, prog, {}, False).stmts(m.body, 1), "`TAP003._progress_kill_chain`"))
    out.append(_resp_sites(t3))
    out.append("end Primaite.Gen.AgentsCtl\n")
    return "\n".join(out)


# ------------------------------------------------------------------ the scan responses TAP001 reads, and where they are built
def _scan_sites() -> str:
    """`ScanSimOk` tie (theorem `C19_gen_scan_resp_sites`): (1) every RequestResponse the three NMAP request handlers build
    (request name, the method that produces `results`, status, source of `data`); (2) every use of `scan_results` (= the
    `.data` of the previous scan's response) in `TAP001._scan_action_response_handler`, classified; (3) the guard in front of
    the read in `_scan_handler`."""
    nm = parse("simulator/system/applications/nmap.py")
    regs = {}
    for c in ast.walk(nm):
        if isinstance(c, ast.Call) and ast.unparse(c.func).endswith("add_request"):
            kw = {k.arg: k.value for k in c.keywords}
            if "name" in kw and isinstance(kw["name"], ast.Constant) and "request_type" in kw:
                f = [k.value for k in getattr(kw["request_type"], "keywords", []) if k.arg == "func"]
                if len(f) == 1 and isinstance(f[0], ast.Name):
                    regs[kw["name"].value] = f[0].id
    sites = []
    for req in ("ping_scan", "port_scan", "network_service_recon"):
        if req not in regs:
            raise Unsupported(f"nmap.py: request {req} is not registered with a named handler")
        fn = [f for f in ast.walk(nm) if isinstance(f, ast.FunctionDef) and f.name == regs[req]]
        if len(fn) != 1:
            raise Unsupported(f"nmap.py: {len(fn)} definitions of {regs[req]}")
        prod = ""
        for st in ast.walk(fn[0]):
            if isinstance(st, ast.Assign) and ast.unparse(st.targets[0]) == "results" and isinstance(st.value, ast.Call):
                js = [ast.unparse(k.value) for k in st.value.keywords if k.arg == "json_serializable"]
                prod = ast.unparse(st.value.func) + ("/json" if js == ["True"] else "/raw")
        for r in [x for x in ast.walk(fn[0]) if isinstance(x, ast.Return)]:
            v = r.value
            if isinstance(v, ast.Call) and ast.unparse(v.func) == "RequestResponse.from_bool" and ast.unparse(v.args[0]) == "False":
                sites.append((req, prod, "failure", "{}"))
            elif isinstance(v, ast.Call) and ast.unparse(v.func) == "RequestResponse":
                kw = {k.arg: k.value for k in v.keywords}
                if v.args or not isinstance(kw.get("status"), ast.Constant):
                    raise Unsupported("nmap.py: RequestResponse site without a literal status")
                sites.append((req, prod, kw["status"].value, ast.unparse(kw["data"]) if "data" in kw else "{}"))
            else:
                raise Unsupported(f"nmap.py: {regs[req]} returns {ast.unparse(v)[:60]}")
    fb = [f for f in ast.walk(parse("interface/request.py")) if isinstance(f, ast.FunctionDef) and f.name == "from_bool"]
    fb_data = sorted({ast.unparse(k.value) for c in ast.walk(fb[0]) if isinstance(c, ast.Call) for k in c.keywords if k.arg == "data"}) if fb else ["?"]
    t1 = class_def(parse(SA + "TAP001.py"), "TAP001")
    h = find_method(t1, "_scan_action_response_handler")
    parent = {}
    for n in ast.walk(h):
        for ch in ast.iter_child_nodes(n):
            parent[ch] = n
    uses = []
    for n in ast.walk(h):
        if isinstance(n, ast.Name) and n.id == "scan_results" and isinstance(n.ctx, ast.Load):
            p = parent[n]
            if isinstance(p, ast.Attribute) and isinstance(parent[p], ast.Call) and parent[p].func is p:
                call = parent[p]
                use = f".{p.attr}({', '.join(ast.unparse(a) for a in call.args)})"
                pp = parent[call]
                if isinstance(pp, ast.Attribute):                     # a method of the looked-up entry: `.get(k, {}).items()`
                    use += "." + pp.attr + "()"
                uses.append(use)
            elif isinstance(p, ast.For) and p.iter is n:
                uses.append("for-in")
            elif isinstance(p, ast.Compare):
                uses.append("compare")
            elif isinstance(p, (ast.Call, ast.keyword, ast.FormattedValue)):
                uses.append("passed-on")
            else:
                raise Unsupported("TAP001._scan_action_response_handler uses scan_results in " + ast.unparse(p)[:60])
    sh = find_method(t1, "_scan_handler")
    guard = [ast.unparse(x.test) for x in ast.walk(sh) if isinstance(x, ast.If)
             and any(isinstance(y, ast.Attribute) and y.attr == "data" for b in x.body for y in ast.walk(b))]
    others = sorted({m.name for m in t1.body if isinstance(m, ast.FunctionDef) and m.name not in ("_scan_handler", "_scan_setup_handler")
                     for y in ast.walk(m) if isinstance(y, ast.Attribute) and y.attr == "data" and ast.unparse(y.value).endswith("response")})
    q = lambda x: '"' + str(x).replace('"', "'") + '"'  # noqa: E731
    strs = lambda xs: "[" + ", ".join(q(x) for x in xs) + "]"  # noqa: E731
    return ("/-- `ScanSimOk` tie.  Every response the three NMAP request handlers build: (request, producer of `results`, status, data) -/\n"
            f"def nmapScanSites : List (String × String × String × String) := [{', '.join('(' + ', '.join(q(x) for x in s) + ')' for s in sites)}]\n"
            f"/-- the `data` of `RequestResponse.from_bool` -/\ndef fromBoolData : List String := {strs(fb_data)}\n"
            "/-- every use of `scan_results` (the previous scan's `response.data`) in `TAP001._scan_action_response_handler` -/\n"
            f"def tap1ScanUses : List String := {strs(uses)}\n"
            f"/-- the guard(s) of `_scan_handler` around the read of `.data`; other TAP001 methods that touch `response.data` -/\n"
            f"def tap1ScanGuards : List String := {strs(guard)}\ndef tap1OtherDataReaders : List String := {strs(others)}\n")


# ------------------------------------------------------------------ get_action of PeriodicAgent / ProbabilisticAgent, the vector
D_PROBS = "self.config.agent_settings.action_probabilities"
P_SET = {"self.config.agent_settings.max_executions": "maxExec", "self.config.agent_settings.frequency": "frequency",
         "self.config.agent_settings.variance": "variance"}
P_ATTR = {"self.next_execution_timestep": "next", "self.num_executions": "numExec"}
WRAPPERS = ("np.asarray", "np.array", "list", "np.fromiter", "tuple")

GET_PRELUDE = """/-! ### `get_action` of PeriodicAgent / ProbabilisticAgent and the probability vector, statement by statement -/

/-- An insertion-ordered `Dict[int, float]` (keys distinct; weights in units of a common denominator). -/
abbrev Dict := List (Nat × Nat)
/-- `d[k]`; `none` = KeyError -/
def Dict.sub (d : Dict) (k : Nat) : Option Nat := (d.find? (·.1 == k)).map (·.2)
/-- `d.values()` / `d.keys()` / iteration: insertion order -/
def Dict.vals (d : Dict) : List Nat := d.map (·.2)
def Dict.keys (d : Dict) : List Nat := d.map (·.1)
/-- `for x in xs: out.append(f x)` starting from `out`; `none` = the body raised -/
def forAppend {α β} (xs : List α) (f : α → Option β) (out : List β) : Option (List β) :=
  xs.foldlM (fun acc x => (f x).map fun y => acc ++ [y]) out
/-- `v / v.sum()`: the weights are in units of a common denominator and numpy samples on `cumsum(p) / cumsum(p)[-1]`, so the
sampled index does not depend on the scale (model `choice` scans against `ws.sum`); the rescaled vector is the same weight list. -/
def rescale (v : List Nat) : List Nat := v

/-- The two attributes `PeriodicAgent.get_action` reads and writes; `raised`: `random.randint` got an empty range. -/
structure Per where
  next : Int
  numExec : Int
  raised : Bool := false
deriving DecidableEq, Repr
"""


class TrVec:
    """Expressions over ONE dictionary (`action_probabilities`, possibly through local aliases) that build a list:
    result (Lean term, type) with type in dict | nat | list (cannot raise) | olist (Option (List Nat): may raise KeyError) | onat."""

    def __init__(self):
        self.names: Dict[str, Tuple[str, str]] = {}

    def expr(self, e: ast.AST) -> Tuple[str, str]:
        src = ast.unparse(e)
        if src == D_PROBS:
            return "tb", "dict"
        if isinstance(e, ast.Name) and e.id in self.names:
            return self.names[e.id]
        if isinstance(e, ast.Constant) and isinstance(e.value, int) and not isinstance(e.value, bool) and e.value >= 0:
            return f"({e.value} : Nat)", "nat"
        if isinstance(e, ast.Call) and ast.unparse(e.func) in WRAPPERS and len(e.args) == 1 \
                and all(k.arg == "dtype" for k in e.keywords):
            v, t = self.expr(e.args[0])
            if t == "dict":                                   # list(d) = the keys
                return f"(Dict.keys {v})", "list"
            if t not in ("list", "olist"):
                raise Unsupported(f"{src}: wrapper around a {t}")
            return v, t
        if isinstance(e, ast.Call) and ast.unparse(e.func) == "len" and len(e.args) == 1:
            v, t = self.expr(e.args[0])
            if t not in ("dict", "list"):
                raise Unsupported(f"{src}: len of a {t}")
            return f"(List.length {v})", "nat"
        if isinstance(e, ast.Call) and ast.unparse(e.func) == "range" and len(e.args) == 1:
            v, t = self.expr(e.args[0])
            if t != "nat":
                raise Unsupported(f"{src}: range of a {t}")
            return f"(List.range {v})", "list"
        if isinstance(e, ast.Call) and isinstance(e.func, ast.Attribute) and e.func.attr in ("values", "keys") and not e.args:
            v, t = self.expr(e.func.value)
            if t != "dict":
                raise Unsupported(f"{src}: .{e.func.attr}() of a {t}")
            return f"(Dict.{'vals' if e.func.attr == 'values' else 'keys'} {v})", "list"
        if isinstance(e, ast.Subscript):
            v, t = self.expr(e.value)
            k, kt = self.expr(e.slice)
            if t != "dict" or kt != "nat":
                raise Unsupported(f"{src}: subscript of a {t} with a {kt}")
            return f"(Dict.sub {v} {k})", "onat"
        if isinstance(e, ast.ListComp) and len(e.generators) == 1 and not e.generators[0].ifs \
                and isinstance(e.generators[0].target, ast.Name):
            g = e.generators[0]
            it, itt = self.expr(g.iter)
            if itt == "dict":
                it, itt = f"(Dict.keys {it})", "list"
            if itt != "list":
                raise Unsupported(f"{src}: comprehension over a {itt}")
            var = "x_" + g.target.id
            saved = dict(self.names)
            self.names[g.target.id] = (var, "nat")
            elt, et = self.expr(e.elt)
            self.names = saved
            if et == "onat":
                return f"(List.mapM (fun {var} => {elt}) {it})", "olist"
            if et == "nat":
                return f"(List.map (fun {var} => {elt}) {it})", "list"
            raise Unsupported(f"{src}: comprehension element of type {et}")
        if isinstance(e, ast.BinOp) and isinstance(e.op, ast.Div) and ast.unparse(e.right) == ast.unparse(e.left) + ".sum()":
            v, t = self.expr(e.left)
            if t == "list":
                return f"(rescale {v})", "list"
            if t == "olist":
                return f"(Option.map rescale {v})", "olist"
            raise Unsupported(f"{src}: rescaling a {t}")
        raise Unsupported("vector expression " + src[:100])

    def body(self, body: List[ast.stmt], ind: int) -> str:
        """Statements of a function that returns a list: local aliases, `out = []` + append loop, `return e` -> Option (List Nat)."""
        pad = "  " * ind
        body = [b for b in body if not _inert(b)]
        if not body:
            raise Unsupported("a path ends without return")
        st, rest = body[0], body[1:]
        if isinstance(st, ast.Return) and st.value is not None:
            v, t = self.expr(st.value)
            if t == "list":
                return f"{pad}some {v}"
            if t == "olist":
                return pad + v
            raise Unsupported("return of a " + t)
        if isinstance(st, ast.Assign) and len(st.targets) == 1 and isinstance(st.targets[0], ast.Name):
            name = st.targets[0].id
            if isinstance(st.value, ast.List) and not st.value.elts:
                self.names[name] = ("v_" + name, "list")
                return f"{pad}let v_{name} : List Nat := []\n" + self.body(rest, ind)
            v, t = self.expr(st.value)
            if t == "olist":
                self.names[name] = ("v_" + name, "list")
                return f"{pad}match {v} with\n{pad}| none => none\n{pad}| some v_{name} =>\n" + self.body(rest, ind + 1)
            if t == "onat":
                raise Unsupported("a local holding one looked-up value")
            ty = {"dict": "Dict", "nat": "Nat", "list": "List Nat"}[t]
            self.names[name] = ("v_" + name, t)
            return f"{pad}let v_{name} : {ty} := {v}\n" + self.body(rest, ind)
        if isinstance(st, ast.For) and not st.orelse and isinstance(st.target, ast.Name) and len(st.body) == 1:
            b = st.body[0]
            if isinstance(b, ast.Expr) and isinstance(b.value, ast.Call) and isinstance(b.value.func, ast.Attribute) \
                    and b.value.func.attr == "append" and isinstance(b.value.func.value, ast.Name) and len(b.value.args) == 1:
                acc = b.value.func.value.id
                if self.names.get(acc, ("", ""))[1] != "list":
                    raise Unsupported("append to something that is not a local list")
                it, itt = self.expr(st.iter)
                if itt == "dict":
                    it, itt = f"(Dict.keys {it})", "list"
                if itt != "list":
                    raise Unsupported("loop over a " + itt)
                var = "x_" + st.target.id
                saved = dict(self.names)
                self.names[st.target.id] = (var, "nat")
                elt, et = self.expr(b.value.args[0])
                self.names = saved
                f = f"(fun {var} => {elt})" if et == "onat" else (f"(fun {var} => some {elt})" if et == "nat" else None)
                if f is None:
                    raise Unsupported("appending a " + et)
                old = self.names[acc][0]
                return (f"{pad}match forAppend {it} {f} {old} with\n{pad}| none => none\n{pad}| some v_{acc} =>\n"
                        + self.body(rest, ind + 1))
        raise Unsupported("statement " + ast.unparse(st)[:100])


class TrPer:
    """`PeriodicAgent._set_next_execution_timestep` / `get_action`: integer attributes, settings and parameters; `+`, unary `-`,
    `==`, `!=`, `<`, `<=`, `>`, `>=`, `and`/`or`/`not`; `x += e`; ONE `random.randint(lo, hi)` (the draw `d`; empty range raises);
    a call of the translated `_set_next_execution_timestep`; `return "<action>", {literal dict}`."""
    CMP = {ast.Eq: "==", ast.NotEq: "!=", ast.Lt: "<", ast.LtE: "≤", ast.Gt: ">", ast.GtE: "≥"}

    def __init__(self, params: List[str], returns_action: bool):
        self.names = {p: (p, "int") for p in params}
        self.returns_action = returns_action
        self.draws = 0

    def expr(self, e: ast.AST) -> Tuple[str, str]:
        src = ast.unparse(e)
        if src in P_ATTR:
            return "s." + P_ATTR[src], "int"
        if src in P_SET:
            return P_SET[src], "int"
        if isinstance(e, ast.Name) and e.id in self.names:
            return self.names[e.id]
        if isinstance(e, ast.Constant) and isinstance(e.value, bool):
            return ("true" if e.value else "false"), "bool"
        if isinstance(e, ast.Constant) and isinstance(e.value, int):
            return f"({e.value} : Int)", "int"
        if isinstance(e, ast.UnaryOp) and isinstance(e.op, ast.USub):
            v, t = self.expr(e.operand)
            if t != "int":
                raise Unsupported(f"{src}: - of a {t}")
            return f"(-{v})", "int"
        if isinstance(e, ast.UnaryOp) and isinstance(e.op, ast.Not):
            v, t = self.expr(e.operand)
            if t != "bool":
                raise Unsupported(f"{src}: not of a {t}")
            return f"(!{v})", "bool"
        if isinstance(e, ast.BinOp) and isinstance(e.op, (ast.Add, ast.Sub)):
            l, lt = self.expr(e.left)
            r, rt = self.expr(e.right)
            if lt != "int" or rt != "int":
                raise Unsupported(f"{src}: arithmetic on non-integers")
            return f"({l} {'+' if isinstance(e.op, ast.Add) else '-'} {r})", "int"
        if isinstance(e, ast.Compare) and len(e.ops) == 1 and type(e.ops[0]) in self.CMP:
            l, lt = self.expr(e.left)
            r, rt = self.expr(e.comparators[0])
            if lt != "int" or rt != "int":
                raise Unsupported(f"{src}: comparison of {lt} with {rt}")
            op = self.CMP[type(e.ops[0])]
            return (f"({l} {op} {r})" if op in ("==", "!=") else f"(decide ({l} {op} {r}))"), "bool"
        if isinstance(e, ast.BoolOp):
            parts = [self.expr(v) for v in e.values]
            if any(t != "bool" for _, t in parts):
                raise Unsupported(f"{src}: and/or over non-Booleans")
            return "(" + (" && " if isinstance(e.op, ast.And) else " || ").join(p for p, _ in parts) + ")", "bool"
        raise Unsupported("expression " + src[:100])

    def end(self) -> str:
        return '(s, "none", [])' if self.returns_action else "s"

    def stmts(self, body: List[ast.stmt], ind: int) -> str:
        pad = "  " * ind
        body = [b for b in body if not _inert(b)]
        if not body:
            if self.returns_action:
                raise Unsupported("a path of get_action ends without return")
            return pad + "s"
        st, rest = body[0], body[1:]
        if isinstance(st, ast.Return):
            if not self.returns_action:
                if st.value is not None:
                    raise Unsupported("return with a value")
                return pad + "s"
            v = st.value
            if not (isinstance(v, ast.Tuple) and len(v.elts) == 2 and isinstance(v.elts[0], ast.Constant)
                    and isinstance(v.elts[0].value, str) and isinstance(v.elts[1], ast.Dict)
                    and all(isinstance(k, ast.Constant) and isinstance(k.value, str) for k in v.elts[1].keys)):
                raise Unsupported("return of something other than (\"action\", {literal keys}): " + ast.unparse(st)[:80])
            q = lambda x: '"' + str(x).replace('"', "'") + '"'  # noqa: E731
            items = ", ".join(f"({q(k.value)}, {q(ast.unparse(x))})" for k, x in zip(v.elts[1].keys, v.elts[1].values))
            return f"{pad}(s, {q(v.elts[0].value)}, [{items}])"
        if isinstance(st, ast.AugAssign) and isinstance(st.op, (ast.Add, ast.Sub)) and ast.unparse(st.target) in P_ATTR:
            val, vt = self.expr(st.value)
            if vt != "int":
                raise Unsupported("augmented assignment of a " + vt)
            f = P_ATTR[ast.unparse(st.target)]
            op = "+" if isinstance(st.op, ast.Add) else "-"
            return f"{pad}let s : Per := {{ s with {f} := (s.{f} {op} {val}) }}\n" + self.stmts(rest, ind)
        if isinstance(st, ast.Assign) and len(st.targets) == 1:
            tgt = ast.unparse(st.targets[0])
            v = st.value
            if isinstance(v, ast.Call) and ast.unparse(v.func) == "random.randint" and len(v.args) == 2 and not v.keywords \
                    and isinstance(st.targets[0], ast.Name):
                self.draws += 1
                if self.draws > 1:
                    raise Unsupported("more than one random.randint")
                lo, lt = self.expr(v.args[0])
                hi, ht = self.expr(v.args[1])
                if lt != "int" or ht != "int":
                    raise Unsupported("randint bounds")
                self.names[tgt] = ("v_" + tgt, "int")
                return (f"{pad}if decide ({lo} ≤ {hi}) then\n{pad}  let v_{tgt} : Int := d\n{self.stmts(rest, ind + 1)}\n"
                        f"{pad}else\n{pad}  {{ s with raised := true }}")
            val, vt = self.expr(v)
            if isinstance(st.targets[0], ast.Name):
                self.names[tgt] = ("v_" + tgt, vt)
                return f"{pad}let v_{tgt} : {'Int' if vt == 'int' else 'Bool'} := {val}\n" + self.stmts(rest, ind)
            if tgt not in P_ATTR or vt != "int":
                raise Unsupported("assignment to " + tgt)
            return f"{pad}let s : Per := {{ s with {P_ATTR[tgt]} := {val} }}\n" + self.stmts(rest, ind)
        if isinstance(st, ast.Expr) and isinstance(st.value, ast.Call) \
                and ast.unparse(st.value.func) == "self._set_next_execution_timestep" and self.returns_action:
            c = st.value
            kw = {k.arg: k.value for k in c.keywords}
            args = list(c.args) + [kw[k] for k in ("timestep", "variance")[len(c.args):] if k in kw]
            if len(args) != 2:
                raise Unsupported("call " + ast.unparse(c)[:80])
            self.draws += 1
            if self.draws > 1:
                raise Unsupported("more than one schedule draw on the way through get_action")
            a, at = self.expr(args[0])
            b, bt = self.expr(args[1])
            if at != "int" or bt != "int":
                raise Unsupported("arguments of _set_next_execution_timestep")
            return (f"{pad}let s : Per := periodicSetNext {a} {b} d s\n{pad}if s.raised then (s, \"raised\", []) else\n"
                    + self.stmts(rest, ind))
        if isinstance(st, ast.If):
            t, tt = self.expr(st.test)
            if tt != "bool":
                raise Unsupported("truthiness of a non-Boolean test: " + ast.unparse(st.test)[:80])
            saved, d0 = dict(self.names), self.draws
            then_ = self.stmts(list(st.body) + ([] if _ends(st.body) else rest), ind + 1)
            self.names, d1, self.draws = dict(saved), self.draws, d0
            else_ = self.stmts(list(st.orelse) + ([] if _ends(st.orelse) else rest), ind + 1)
            self.names, self.draws = saved, max(d1, self.draws)
            return f"{pad}if {t} then\n{then_}\n{pad}else\n{else_}"
        raise Unsupported("statement " + ast.unparse(st)[:100])


def _periodic_part() -> str:
    pa = class_def(parse(SA + "random_agent.py"), "PeriodicAgent")
    sn = find_method(pa, "_set_next_execution_timestep")
    if [a.arg for a in sn.args.args] != ["self", "timestep", "variance"]:
        raise Unsupported("_set_next_execution_timestep: parameters " + str([a.arg for a in sn.args.args]))
    ga = find_method(pa, "get_action")
    if [a.arg for a in ga.args.args] != ["self", "obs", "timestep"]:
        raise Unsupported("PeriodicAgent.get_action: parameters " + str([a.arg for a in ga.args.args]))
    return ("/-- `PeriodicAgent._set_next_execution_timestep(timestep, variance)`; `d` = what `random.randint` returns -/\n"
            "def periodicSetNext (timestep variance : Int) (d : Int) (s : Per) : Per :=\n"
            + TrPer(["timestep", "variance"], False).stmts(sn.body, 1) + "\n\n"
            "/-- `PeriodicAgent.get_action(obs, timestep)`: new attributes, the action name, and key ↦ source expression of its "
            "parameters; `d` = the schedule draw -/\n"
            "def periodicGetAction (maxExec frequency variance : Int) (timestep : Int) (d : Int) (s : Per) : "
            "Per × String × List (String × String) :=\n" + TrPer(["timestep"], True).stmts(ga.body, 1) + "\n")


PERIODIC_FALLBACK = """def periodicSetNext (timestep variance : Int) (d : Int) (s : Per) : Per := { s with raised := true }
def periodicGetAction (maxExec frequency variance : Int) (timestep : Int) (d : Int) (s : Per) : Per × String × List (String × String) :=
  ({ s with raised := true }, "untranslated", [])
"""
PROB_FALLBACK = """def probabilities (tb : Dict) : Option (List Nat) := none
def probGetAction (rngChoice : Nat → List Nat → Option Nat) (nActions : Nat) (tb : Dict) : Option Nat := none
"""


SCAN_FALLBACK = """def nmapScanSites : List (String × String × String × String) := []
def fromBoolData : List String := []
def tap1ScanUses : List String := []
def tap1ScanGuards : List String := []
def tap1OtherDataReaders : List String := []
"""


def _prob_part() -> str:
    pr = class_def(parse(SA + "probabilistic_agent.py"), "ProbabilisticAgent")
    out = []
    out.append("/-- `ProbabilisticAgent.probabilities` (the vector handed to numpy); `none` = KeyError -/\n"
               "def probabilities (tb : Dict) : Option (List Nat) :=\n" + TrVec().body(find_method(pr, "probabilities").body, 1) + "\n")
    # get_action: `choice = self.rng.choice(len(self.action_manager.action_map), p=self.probabilities)`; logger; `return self.action_manager.get_action(choice)`
    body = [b for b in find_method(pr, "get_action").body if not _inert(b)]
    ok = (len(body) == 2 and isinstance(body[0], ast.Assign) and isinstance(body[0].targets[0], ast.Name)
          and isinstance(body[0].value, ast.Call) and ast.unparse(body[0].value.func) == "self.rng.choice"
          and isinstance(body[1], ast.Return))
    if not ok:
        raise Unsupported("ProbabilisticAgent.get_action: not `x = self.rng.choice(…); return …`")
    call, var = body[0].value, body[0].targets[0].id
    kw = {k.arg: ast.unparse(k.value) for k in call.keywords}
    if [ast.unparse(a) for a in call.args] != ["len(self.action_manager.action_map)"] or kw != {"p": "self.probabilities"}:
        raise Unsupported("ProbabilisticAgent.get_action: rng.choice called as " + ast.unparse(call)[:100])
    if ast.unparse(body[1].value) != f"self.action_manager.get_action({var})":
        raise Unsupported("ProbabilisticAgent.get_action returns " + ast.unparse(body[1].value)[:100])
    out.append("/-- `ProbabilisticAgent.get_action`: the index handed to `action_manager.get_action`; `rngChoice n p` = "
               "`self.rng.choice(n, p=p)` (`none` = it raised); `nActions` = `len(self.action_manager.action_map)` -/\n"
               "def probGetAction (rngChoice : Nat → List Nat → Option Nat) (nActions : Nat) (tb : Dict) : Option Nat :=\n"
               "  match probabilities tb with\n  | none => none\n  | some v_p =>\n"
               f"    match rngChoice nActions v_p with\n    | none => none\n    | some v_{var} => some v_{var}\n")
    return "\n".join(out)


def emit_get() -> str:
    """Gen/AgentsGet.lean.  The C19 driver evaluates these functions (counter-model search), so this file ALWAYS defines them:
    a method the translator cannot handle gets a placeholder and its reason is listed in `untranslated`
    (obligations `extract:AgentsGet:<part>` and theorem `C19_gen_get_translated`)."""
    out = ["set_option linter.unusedVariables false", "namespace Primaite.Gen.AgentsGet", GET_PRELUDE]
    missing = []
    for part, fn, fallback in (("periodic", _periodic_part, PERIODIC_FALLBACK), ("probabilistic", _prob_part, PROB_FALLBACK),
                               ("scanSites", _scan_sites, SCAN_FALLBACK)):
        try:
            out.append(fn())
        except (Unsupported, ValueError) as e:
            missing.append((part, f"{type(e).__name__}: {e}"))
            out.append(fallback)
    q = lambda x: '"' + str(x).replace('"', "'").replace("\\", "/").replace("\n", " ") + '"'  # noqa: E731
    out.append("/-- parts the translator refused, with the reason (empty = everything above is a translation) -/\n"
               f"def untranslated : List (String × String) := [{', '.join(f'({q(a)}, {q(b)})' for a, b in missing)}]\n")
    out.append("end Primaite.Gen.AgentsGet\n")
    return "\n".join(out)


# ------------------------------------------------------------------ the responses TAP003 reads, and where they are built
def _rr_site(call: ast.Call) -> Tuple[str, List[str]]:
    """(status, keys of data) of one `RequestResponse(status=…, data={…})` construction."""
    kw = {k.arg: k.value for k in call.keywords}
    if call.args or "status" not in kw or not isinstance(kw["status"], ast.Constant):
        raise Unsupported("RequestResponse site without a literal status: " + ast.unparse(call)[:80])
    data = kw.get("data")
    if data is None:
        keys = []
    elif isinstance(data, ast.Dict) and all(isinstance(k, ast.Constant) for k in data.keys):
        keys = [k.value for k in data.keys]
    else:
        raise Unsupported("RequestResponse site whose data is not a dict literal: " + ast.unparse(call)[:80])
    return kw["status"].value, keys


def _resp_sites(t3: ast.AST) -> str:
    """`SimOk` tie: (1) the simulation's `do-nothing` request; (2) every response `Terminal._remote_login` builds;
    (3) every `….response.data[key]` TAP003 reads, with its method, and the guards in front of the reads."""
    sim = parse("simulator/sim_container.py")
    dn = [c for c in ast.walk(sim) if isinstance(c, ast.Call) and ast.unparse(c.func).endswith("add_request") and c.args
          and isinstance(c.args[0], ast.Constant) and c.args[0].value == "do-nothing"]
    if len(dn) != 1:
        raise Unsupported(f"{len(dn)} registrations of the do-nothing request in sim_container.py")
    rr = [c for c in ast.walk(dn[0]) if isinstance(c, ast.Call) and ast.unparse(c.func) == "RequestResponse"]
    lam = [x for x in ast.walk(dn[0]) if isinstance(x, ast.Lambda)]
    if len(rr) != 1 or len(lam) != 1 or lam[0].body is not rr[0]:
        raise Unsupported("the do-nothing request is not `lambda request, context: RequestResponse(…)`")
    dn_status, _ = _rr_site(rr[0])
    term = parse("simulator/system/services/terminal/terminal.py")
    fn = [f for f in ast.walk(term) if isinstance(f, ast.FunctionDef) and f.name == "_remote_login"]
    reg = [c for c in ast.walk(term) if isinstance(c, ast.Call) and ast.unparse(c.func).endswith("add_request") and c.args
           and isinstance(c.args[0], ast.Constant) and c.args[0].value == "node_session_remote_login"]
    if len(fn) != 1 or len(reg) != 1 or "func=_remote_login" not in ast.unparse(reg[0]):
        raise Unsupported("terminal.py: node_session_remote_login is not served by exactly one `_remote_login`")
    sites = []
    for r in [x for x in ast.walk(fn[0]) if isinstance(x, ast.Return)]:
        if not (isinstance(r.value, ast.Call) and ast.unparse(r.value.func) == "RequestResponse"):
            raise Unsupported("_remote_login returns something other than a RequestResponse(…) literal")
        sites.append(_rr_site(r.value))
    reads = set()
    cls = class_def(t3, "TAP003")
    for m in [x for x in cls.body if isinstance(x, ast.FunctionDef)]:
        for sub in ast.walk(m):
            if isinstance(sub, ast.Subscript) and ast.unparse(sub.value).endswith(".response.data"):
                if not isinstance(sub.slice, ast.Constant):
                    raise Unsupported("response.data read with a computed key in " + m.name)
                reads.add((m.name, sub.slice.value))
            elif isinstance(sub, ast.Attribute) and sub.attr == "data" and ast.unparse(sub.value).endswith(".response"):
                pass
        # any use of response.data other than a literal subscript (e.g. `.get`, iteration) is not modelled
        for sub in ast.walk(m):
            if isinstance(sub, ast.Call) and ".response.data." in ast.unparse(sub.func):
                raise Unsupported("response.data used through a method call in " + m.name)
    ga = find_method(cls, "get_action")
    guard = None
    for node in ast.walk(ga):
        if isinstance(node, ast.If) and any(isinstance(x, ast.Subscript) and ast.unparse(x.value).endswith(".response.data")
                                            for b in node.body for x in ast.walk(b)):
            guard = ast.unparse(node.test)          # innermost if that contains the read: keep the LAST found while walking down
    hl = find_method(cls, "_handle_login_response")
    login_guard = [ast.unparse(x.test) for x in hl.body if isinstance(x, ast.If) and any(isinstance(y, ast.Return) for y in x.body)]
    q = lambda x: '"' + str(x).replace('"', "'") + '"'  # noqa: E731
    strs = lambda xs: "[" + ", ".join(q(x) for x in xs) + "]"  # noqa: E731
    return ("/-- `SimOk` tie.  The status the simulation answers a `do-nothing` request with (sim_container.py) -/\n"
            f"def doNothingStatus : String := {q(dn_status)}\n"
            "/-- every response `Terminal._remote_login` (the handler of `node_session_remote_login`) builds: status, keys of data -/\n"
            f"def remoteLoginSites : List (String × List String) := [{', '.join(f'({q(st)}, {strs(ks)})' for st, ks in sites)}]\n"
            "/-- every literal `….response.data[key]` in TAP003: (method, key) -/\n"
            f"def tap3DataReads : List (String × String) := [{', '.join(f'({q(m)}, {q(k)})' for m, k in sorted(reads))}]\n"
            "/-- the innermost `if` of `TAP003.get_action` around its read of response.data; the early-return guards of `_handle_login_response` -/\n"
            f"def tap3ReasonGuard : String := {q(guard)}\n"
            f"def tap3LoginGuards : List String := {strs(login_guard)}\n")
