"""C08 — the ARP side of forwarding, TRANSLATED statement by statement into Lean functions (Gen/ForwardArp.lean):

  HostARP._get_arp_cache_mac_address / _get_arp_cache_network_interface      -> hostGetMac / hostGetIfc
  RouterARP._get_arp_cache_mac_address / _get_arp_cache_network_interface    -> routerGetMac / routerGetIfc
  ARP.add_arp_cache_entry                                                    -> addEntry      (is the entry written?)
  ARP.send_arp_request (the part that decides WHOM to ask, and the two address guards) -> sendReqTarget / sendReqEmits
  HostARP._process_arp_request, RouterARP._process_arp_request / _process_arp_reply   -> hostAnswers / routerAnswers / routerLearns

The translation is a closed table: every statement and every term of a test must be known, anything else raises (broken tie).
The control flow (if / elif / else nesting, early returns, falling off the end = `return None`, re-binding of `is_reattempt`) is
translated generically, so a re-shaped but equivalent body yields an equivalent Lean function and the `C08_gen_arp_*` theorems
(which compare FUNCTIONS, for all arguments) still hold; a changed guard, flag, target or order does not.
Pure `ast`; never imports primaite."""
import ast
from typing import List, Set, Tuple

from harness.extract.util import class_def, find_method, parse

GEN_NAME = "ForwardArp"
ROUTER = "simulator/network/hardware/nodes/network/router.py"
HOSTN = "simulator/network/hardware/nodes/host/host_node.py"
ARPF = "simulator/system/services/arp/arp.py"

GW = "self.software_manager.node.config.default_gateway"
DFR = "self.router.route_table.default_route"


def _code(body: List[ast.stmt]) -> List[ast.stmt]:
    out = []
    for s in body:
        if isinstance(s, ast.Expr) and isinstance(s.value, ast.Constant):
            continue  # docstring
        if isinstance(s, ast.Expr) and isinstance(s.value, ast.Call) and ast.unparse(s.value.func).startswith("self.sys_log."):
            continue  # logging
        if isinstance(s, ast.Pass):
            continue
        out.append(s)
    return out


class Lookup:
    """Translator of one `_get_arp_cache_*` method."""

    def __init__(self, cls: str, fn: ast.FunctionDef, hit_return: str):
        self.cls, self.fn, self.name, self.hit_return = cls, fn, fn.name, hit_return
        args = [a.arg for a in fn.args.args]
        if args[:3] != ["self", "ip_address", "is_reattempt"] or len(args) != 4 or args[3] not in ("is_default_gateway_attempt", "is_default_route_attempt"):
            raise ValueError(f"{cls}.{self.name}: unexpected parameters {args}")
        self.gwflag = args[3]
        if [ast.unparse(d) for d in fn.args.defaults] != ["False", "False"]:
            raise ValueError(f"{cls}.{self.name}: the two flags do not default to False")

    def err(self, what: str):
        raise ValueError(f"{self.cls}.{self.name}: {what}")

    # -- tests: (lean Bool, facts that hold when the test is true, facts that hold when it is false)
    def test(self, e: ast.AST, facts: Set[str]) -> Tuple[str, Set[str], Set[str]]:
        if isinstance(e, ast.BoolOp):
            conj = isinstance(e.op, ast.And)
            parts, acc = [], set()
            cur = set(facts)
            for v in e.values:
                s, ft, ff = self.test(v, cur)
                parts.append(s)
                got = ft if conj else ff  # `and`: later operands run with the earlier ones true; `or`: with them false
                cur |= got
                acc |= got
            txt = "(" + (" && " if conj else " || ").join(parts) + ")"
            return (txt, acc, set()) if conj else (txt, set(), acc)
        if isinstance(e, ast.UnaryOp) and isinstance(e.op, ast.Not):
            s, ft, ff = self.test(e.operand, facts)
            return "(!" + s + ")", ff, ft
        t = ast.unparse(e)
        table = {
            "arp_entry": ("hit", {"hit"}, set()),
            "is_reattempt": ("re", set(), set()),
            self.gwflag: ("gw", set(), set()),
            f"ip_address == {GW}": ("(gwSet && decide (ip = gwIp))", {"gw"}, set()),
            GW: ("gwSet", {"gw"}, set()),
            "self.router.ip_is_in_router_interface_subnet(ip_address)": ("inSub", set(), set()),
            "route": ("route.isSome", {"route"}, set()),
            DFR: ("dfSet", {"df"}, set()),
        }
        if t in table:
            return table[t]
        if t == f"route != {DFR}" and "route" in facts:
            return "(!route.isDflt)", set(), {"df"}
        if t == f"route == {DFR}" and "route" in facts:
            return "route.isDflt", {"df"}, set()
        self.err(f"unknown term in a test: {t}")

    def ip(self, e: ast.AST, facts: Set[str]) -> str:
        t = ast.unparse(e)
        if t == "ip_address":
            return "ip"
        if t == GW and "gw" in facts:
            return "gwIp"
        if t == "route.next_hop_ip_address" and "route" in facts:
            return "(route.nh ip)"
        if t == f"{DFR}.next_hop_ip_address" and "df" in facts:
            return "dfNh"
        self.err(f"address expression not known (or its object may be None here): {t}")

    def flag(self, e: ast.AST) -> str:
        t = ast.unparse(e)
        if t in ("True", "False"):
            return t.lower()
        if t == "is_reattempt":
            return "re"
        if t == self.gwflag:
            return "gw"
        self.err(f"flag expression not known: {t}")

    def block(self, stmts: List[ast.stmt], facts: Set[str]) -> str:
        stmts = _code(stmts)
        if not stmts:
            return "Step.stop"  # falling off the end: `return None`
        s, rest = stmts[0], stmts[1:]
        t = ast.unparse(s)
        if isinstance(s, ast.Assign) and len(s.targets) == 1:
            tg = ast.unparse(s.targets[0])
            if tg == "arp_entry" and ast.unparse(s.value) == "self.arp.get(ip_address)":
                return self.block(rest, facts)
            if tg == "is_reattempt" and ast.unparse(s.value) == "True":
                return f"(let re := true; {self.block(rest, facts)})"
            if tg == "route" and ast.unparse(s.value) == "self.router.route_table.find_best_route(ip_address)":
                return f"(if route.isRaised then Step.raised else {self.block(rest, facts)})"
            self.err(f"assignment not in the translation table: {t}")
        if isinstance(s, ast.If):
            c, ft, ff = self.test(s.test, facts)
            return f"(if {c} then {self.block(list(s.body) + rest, facts | ft)} else {self.block(list(s.orelse) + rest, facts | ff)})"
        if isinstance(s, ast.For):
            if (ast.unparse(s.iter) == "self.router.network_interfaces.values()" and ast.unparse(s.target) == "network_interface" and not s.orelse
                    and len(s.body) == 1 and isinstance(s.body[0], ast.If) and not s.body[0].orelse
                    and ast.unparse(s.body[0].test) == "ip_address in network_interface.ip_network"
                    and [ast.unparse(x) for x in s.body[0].body] == ["return network_interface"]):
                return f"(if inSub then Step.subnet else {self.block(rest, facts)})"
            self.err(f"loop not in the translation table: {t[:100]}")
        if isinstance(s, ast.Expr) and isinstance(s.value, ast.Call) and ast.unparse(s.value.func) == "self.send_arp_request":
            if len(s.value.args) != 1 or s.value.keywords:
                self.err("send_arp_request with unexpected arguments")
            asked = self.ip(s.value.args[0], facts)
            if not rest or not isinstance(rest[0], ast.Return) or not isinstance(rest[0].value, ast.Call):
                self.err("send_arp_request is not followed by `return <the look-up again>`")
            call = rest[0].value
            if ast.unparse(call.func) != f"self.{self.name}" or call.args:
                self.err(f"the re-attempt calls {ast.unparse(call.func)}")
            kw = {k.arg: k.value for k in call.keywords}
            if sorted(kw) != sorted(["ip_address", "is_reattempt", self.gwflag]):
                self.err(f"the re-attempt passes {sorted(kw)}")
            again = self.ip(kw["ip_address"], facts)
            # the model's `go t` requests `t` and looks `t` up: both are written out, the theorem needs them equal
            return f"(Step.go {asked} {again} {self.flag(kw['is_reattempt'])} {self.flag(kw[self.gwflag])})"
        if isinstance(s, ast.Return):
            if s.value is None or ast.unparse(s.value) == "None":
                return "Step.stop"
            if ast.unparse(s.value) == self.hit_return and "hit" in facts:
                return "Step.hit"
            self.err(f"return value not known: {t}")
        self.err(f"statement not in the translation table: {t[:120]}")

    def lean(self, lname: str, router: bool) -> str:
        body = self.block(list(self.fn.body), set())
        extra = "(inSub : Bool) (route : Best α) (dfSet : Bool) (dfNh : α) " if router else ""
        return (f"/-- {self.cls}.{self.name}, translated -/\n"
                f"def {lname} {{α : Type}} [DecidableEq α] (ip : α) (hit : Bool) (gwSet : Bool) (gwIp : α) {extra}(re gw : Bool) : Step α :=\n  {body}\n")


def _bool_test(e: ast.AST, table: dict, where: str) -> str:
    if isinstance(e, ast.BoolOp):
        return "(" + (" && " if isinstance(e.op, ast.And) else " || ").join(_bool_test(v, table, where) for v in e.values) + ")"
    if isinstance(e, ast.UnaryOp) and isinstance(e.op, ast.Not):
        return "(!" + _bool_test(e.operand, table, where) + ")"
    t = ast.unparse(e)
    if t in table:
        return table[t]
    raise ValueError(f"{where}: unknown term in a test: {t}")


def _add_entry(arp_cls: ast.ClassDef) -> str:
    fn = find_method(arp_cls, "add_arp_cache_entry")
    args = [a.arg for a in fn.args.args]
    if args != ["self", "ip_address", "mac_address", "network_interface", "override"] or [ast.unparse(d) for d in fn.args.defaults] != ["False"]:
        raise ValueError(f"add_arp_cache_entry: unexpected parameters {args}")
    b = _code(fn.body)
    if not (len(b) == 2 and isinstance(b[0], ast.For) and ast.unparse(b[0].iter) == "self.software_manager.node.network_interfaces.values()"
            and len(b[0].body) == 1 and isinstance(b[0].body[0], ast.If) and not b[0].body[0].orelse and not b[0].orelse
            and [ast.unparse(x) for x in b[0].body[0].body] == ["return"] and isinstance(b[1], ast.If) and not b[1].orelse):
        raise ValueError("add_arp_cache_entry: not `for own interfaces: if <own address>: return` followed by one `if`")
    var = ast.unparse(b[0].target)
    own = _bool_test(b[0].body[0].test, {f"{var}.ip_address == ip_address": "own", f"ip_address == {var}.ip_address": "own"}, "add_arp_cache_entry")
    cond = _bool_test(b[1].test, {"override": "override", "self.arp.get(ip_address)": "present", "ip_address in self.arp": "present"}, "add_arp_cache_entry")
    wr = [ast.unparse(x) for x in _code(b[1].body)]
    if wr != ["arp_entry = ARPEntry(mac_address=mac_address, network_interface_uuid=network_interface.uuid)", "self.arp[ip_address] = arp_entry"]:
        raise ValueError(f"add_arp_cache_entry: the write is {wr}")
    return ("/-- ARP.add_arp_cache_entry: is `self.arp[ip_address] = ARPEntry(mac_address, network_interface.uuid)` executed? -/\n"
            f"def addEntry (own override present : Bool) : Bool :=\n  if {own} then false else if {cond} then true else false\n")


def _no_override_callers() -> int:
    """every caller of add_arp_cache_entry leaves `override` at its default (the model's `addArp` never overrides)"""
    from harness.lib.core import SRC
    n = 0
    for p in sorted(SRC.rglob("*.py")):
        txt = p.read_text()
        if "add_arp_cache_entry" not in txt:
            continue
        for c in ast.walk(ast.parse(txt)):
            if isinstance(c, ast.Call) and isinstance(c.func, ast.Attribute) and c.func.attr == "add_arp_cache_entry":
                n += 1
                if len(c.args) > 3 or any(k.arg in ("override", None) for k in c.keywords):
                    raise ValueError(f"{p.name}: a caller of add_arp_cache_entry passes `override` (the model never overrides an entry)")
    if n < 4:
        raise ValueError(f"only {n} callers of add_arp_cache_entry found (expected the ARP reply handler, host and router receive paths)")
    return n


def _send_request(arp_cls: ast.ClassDef) -> str:
    fn = find_method(arp_cls, "send_arp_request")
    b = _code(fn.body)
    T = "target_ip_address"
    ROI = "self.software_manager.session_manager.resolve_outbound_network_interface"

    def phase1(stmts: List[ast.stmt], gwv: str) -> str:
        """up to the resolve call: Option α = whom to ask (none = nothing is sent)"""
        if not stmts:
            raise ValueError("send_arp_request: no resolve_outbound_network_interface call")
        s, rest = stmts[0], _code(stmts[1:])
        t = ast.unparse(s)
        if t == f"outbound_network_interface = {ROI}({T})":
            phase1.rest = rest
            return "some t"
        if isinstance(s, ast.If):
            c = _bool_test(s.test, {f"{T} in self.arp": "cached", "use_default_gateway": gwv, GW: "gwSet"}, "send_arp_request")
            return f"(if {c} then {phase1(_code(s.body) + rest, gwv)} else {phase1(_code(s.orelse) + rest, gwv)})"
        if isinstance(s, ast.Return) and s.value is None:
            return "none"
        if t == "use_default_gateway = True":
            return phase1(rest, "true")
        if t == f"{T} = {GW}":
            return f"(let t := gwIp; {phase1(rest, gwv)})"
        if (isinstance(s, ast.For) and ast.unparse(s.iter) == "self.software_manager.node.network_interfaces.values()" and not s.orelse
                and len(s.body) == 1 and isinstance(s.body[0], ast.If) and not s.body[0].orelse
                and ast.unparse(s.body[0].test) == f"{T} in {ast.unparse(s.target)}.ip_network"
                and [ast.unparse(x) for x in s.body[0].body] == ["use_default_gateway = False", "break"] and gwv == "true"):
            return phase1(rest, "(!inAny)")
        raise ValueError(f"send_arp_request: statement not in the translation table: {t[:120]}")
    p1 = phase1(b, "?")
    rest = phase1.rest
    if not (len(rest) == 1 and isinstance(rest[0], ast.If) and ast.unparse(rest[0].test) == "outbound_network_interface" and not _code(rest[0].orelse)):
        raise ValueError("send_arp_request: after the resolve call: not one `if outbound_network_interface:` (else: only a warning)")

    def phase2(stmts: List[ast.stmt]) -> str:
        if not stmts:
            return "false"
        s, rest2 = stmts[0], stmts[1:]
        t = ast.unparse(s)
        if isinstance(s, ast.If):
            c = _bool_test(s.test, {f"{T} == outbound_network_interface.ip_network.network_address": "isNet",
                                    f"{T} == outbound_network_interface.ip_network.broadcast_address": "isBcast"}, "send_arp_request")
            return f"(if {c} then {phase2(_code(s.body) + rest2)} else {phase2(_code(s.orelse) + rest2)})"
        if isinstance(s, ast.Return) and s.value is None:
            return "false"
        if t == (f"arp_packet = ARPPacket(sender_ip_address=outbound_network_interface.ip_address, "
                 f"sender_mac_addr=outbound_network_interface.mac_address, target_ip_address={T})"):
            nxt = [ast.unparse(x) for x in rest2]
            if nxt != [f"self.software_manager.session_manager.receive_payload_from_software_manager(payload=arp_packet, dst_ip_address={T}, "
                       f"dst_port=self.port, ip_protocol=self.protocol)"]:
                raise ValueError(f"send_arp_request: the packet is handed on by {nxt}")
            return "true"
        raise ValueError(f"send_arp_request: statement not in the translation table: {t[:120]}")
    p2 = phase2(_code(rest[0].body))
    return ("/-- ARP.send_arp_request up to `resolve_outbound_network_interface(target)`: whom is asked (`none`: nothing is sent) -/\n"
            f"def sendReqTarget {{α : Type}} (cached inAny gwSet : Bool) (t gwIp : α) : Option α :=\n  {p1}\n"
            "/-- … and after an outbound interface was found: is the request (sender = that interface's pair, target = `t`) sent? -/\n"
            f"def sendReqEmits (isNet isBcast : Bool) : Bool :=\n  {p2}\n")


def _handlers(harp: ast.ClassDef, rarp: ast.ClassDef) -> str:
    F = "from_network_interface"
    P = "arp_packet"

    def answer(cls, name, table, where) -> str:
        b = _code(find_method(cls, name).body)
        if not b or ast.unparse(b[0]) not in (f"super()._process_arp_request({P}, {F})", f"super()._process_arp_request(arp_packet={P}, from_network_interface={F})"):
            raise ValueError(f"{where}: does not start with super()._process_arp_request(...)")

        def blk(stmts):
            if not stmts:
                return "false"
            s, rest = stmts[0], stmts[1:]
            if isinstance(s, ast.If):
                return f"(if {_bool_test(s.test, table, where)} then {blk(_code(s.body) + rest)} else {blk(_code(s.orelse) + rest)})"
            if isinstance(s, ast.Return) and s.value is None:
                return "false"
            m = [v for v in ("arp_reply", P) if ast.unparse(s) == f"{v} = {P}.generate_reply({F}.mac_address)"]
            if m:
                if [ast.unparse(x) for x in rest[:1]] != [f"self.send_arp_reply({m[0]})"]:
                    raise ValueError(f"{where}: the reply is not sent with send_arp_reply")
                return "true"
            raise ValueError(f"{where}: statement not in the translation table: {ast.unparse(s)[:100]}")
        return blk(b[1:])
    tgt_is_if = {f"{P}.target_ip_address != {F}.ip_address": "(!tgtIsIfc)", f"{P}.target_ip_address == {F}.ip_address": "tgtIsIfc",
                 f"{F}.ip_address == {P}.target_ip_address": "tgtIsIfc", f"{F}.ip_address != {P}.target_ip_address": "(!tgtIsIfc)",
                 f"{F}.enabled": "enabled"}
    host = answer(harp, "_process_arp_request", tgt_is_if, "HostARP._process_arp_request")
    rout = answer(rarp, "_process_arp_request", tgt_is_if, "RouterARP._process_arp_request")
    rb = _code(find_method(rarp, "_process_arp_reply").body)
    if not (len(rb) == 1 and isinstance(rb[0], ast.If) and not rb[0].orelse
            and [ast.unparse(x) for x in _code(rb[0].body)] in ([f"super()._process_arp_reply({P}, {F})"], [f"super()._process_arp_reply(arp_packet={P}, from_network_interface={F})"])):
        raise ValueError("RouterARP._process_arp_reply: not one guarded super()._process_arp_reply(...)")
    learns = _bool_test(rb[0].test, tgt_is_if, "RouterARP._process_arp_reply")
    return ("/-- HostARP._process_arp_request: is a reply (generate_reply(arrival interface's MAC)) sent? -/\n"
            f"def hostAnswers (tgtIsIfc enabled : Bool) : Bool :=\n  {host}\n"
            "/-- RouterARP._process_arp_request -/\n"
            f"def routerAnswers (tgtIsIfc enabled : Bool) : Bool :=\n  {rout}\n"
            "/-- RouterARP._process_arp_reply: is the sender pair learned? -/\n"
            f"def routerLearns (tgtIsIfc enabled : Bool) : Bool :=\n  {learns}\n")


def _subnet_helper(router: ast.ClassDef):
    b = _code(find_method(router, "ip_is_in_router_interface_subnet").body)
    ok = (len(b) == 2 and isinstance(b[0], ast.For) and ast.unparse(b[0].iter) in ("self.network_interface.values()", "self.network_interfaces.values()")
          and len(b[0].body) == 1 and isinstance(b[0].body[0], ast.If) and not b[0].body[0].orelse
          and ast.unparse(b[0].body[0].test) == f"ip_address in {ast.unparse(b[0].target)}.ip_network"
          and ast.unparse(b[1]) == "return False")
    if ok:
        inner = b[0].body[0].body
        ok = (len(inner) == 1 and isinstance(inner[0], ast.If) and ast.unparse(inner[0].test) == "enabled_only"
              and [ast.unparse(x) for x in inner[0].orelse] == ["return True"])
    if not ok:
        raise ValueError("Router.ip_is_in_router_interface_subnet: not `first interface whose network contains the address -> True (enabled_only unset)`")


# ------------------------------------------------------------------------------------------ session managers: who is the next hop
SESS = "simulator/system/core/session_manager.py"
ARPA = "self.software_manager.arp."


def _details(cls_name: str, fn: ast.FunctionDef) -> str:
    """`resolve_outbound_transmission_details`, unicast branch -> a DProg term (the ORDER of the stateful ARP look-ups is kept)."""
    W = f"{cls_name}.resolve_outbound_transmission_details"
    top = _code(fn.body)
    txt = [ast.unparse(x) for x in top]
    if "outbound_network_interface = None" not in txt or "dst_mac_address = None" not in txt:
        raise ValueError(f"{W}: interface / MAC do not start as None")
    split = [x for x in top if isinstance(x, ast.If) and ast.unparse(x.test) == "isinstance(dst_ip_address, IPv4Network)"]
    if len(split) != 1 or top[-2] is not split[0] or not isinstance(top[-1], ast.Return):
        raise ValueError(f"{W}: not `if isinstance(dst, IPv4Network): … else: …` followed by the final return")
    if txt.index("dst_mac_address = None") > top.index(split[0]) or txt.index("outbound_network_interface = None") > top.index(split[0]):
        raise ValueError(f"{W}: interface / MAC are reset after the branch")
    fin = top[-1]

    def is_final(r: ast.Return) -> bool:
        return isinstance(r.value, ast.Tuple) and [ast.unparse(e) for e in r.value.elts[:3]] == ["outbound_network_interface", "dst_mac_address", "dst_ip_address"]

    def is_none(r: ast.Return) -> bool:
        return isinstance(r.value, ast.Tuple) and [ast.unparse(e) for e in r.value.elts[:3]] == ["None", "None", "dst_ip_address"]
    if not is_final(fin):
        raise ValueError(f"{W}: the final return is {ast.unparse(fin)[:80]}")
    tgt = {"dst_ip_address": "Tgt.dst", "route.next_hop_ip_address": "Tgt.nextHop"}

    def simple(s: ast.stmt, route: bool):
        """(constructor prefix) for an assignment from an ARP look-up, else None"""
        t = ast.unparse(s)
        for var, ctor, getter, gwget in (("dst_mac_address", "setMac", "get_arp_cache_mac_address", "get_default_gateway_mac_address"),
                                         ("outbound_network_interface", "setIfc", "get_arp_cache_network_interface", "get_default_gateway_network_interface")):
            for a, lt in tgt.items():
                if t == f"{var} = {ARPA}{getter}({a})":
                    if a.startswith("route.") and not route:
                        raise ValueError(f"{W}: `route` may be None at: {t}")
                    return f"DProg.{ctor} {lt}"
            if t == f"{var} = {ARPA}{gwget}()":
                return f"DProg.{ctor} Tgt.gateway"
        return None

    def blk(stmts: List[ast.stmt], env: dict, route: bool) -> str:
        stmts = _code(stmts)
        if not stmts:
            raise ValueError(f"{W}: fell off the end")
        s, rest = stmts[0], stmts[1:]
        t = ast.unparse(s)
        if isinstance(s, ast.Return):
            if is_final(s):
                return "DProg.ret"
            if is_none(s):
                return "DProg.retNone"
            raise ValueError(f"{W}: return not known: {t[:100]}")
        if isinstance(s, ast.Assign) and len(s.targets) == 1 and isinstance(s.targets[0], ast.Name) and s.targets[0].id.startswith("use_") \
                and isinstance(s.value, ast.Constant) and isinstance(s.value.value, bool):
            return blk(rest, dict(env, **{s.targets[0].id: s.value.value}), route)
        c = simple(s, route)
        if c:
            return f"({c} {blk(rest, env, route)})"
        if t == "route = self.node.route_table.find_best_route(dst_ip_address)":
            if not rest or not isinstance(rest[0], ast.If) or ast.unparse(rest[0].test) not in ("not route", "route"):
                raise ValueError(f"{W}: find_best_route is not followed by a test of `route`")
            i = rest[0]
            pos, neg = (i.orelse, i.body) if ast.unparse(i.test) == "not route" else (i.body, i.orelse)
            return f"(DProg.ifRoute {blk(list(pos) + rest[1:], env, True)} {blk(list(neg) + rest[1:], env, False)})"
        if isinstance(s, ast.For):
            ok = (ast.unparse(s.iter) == "self.node.network_interfaces.values()" and ast.unparse(s.target) == "network_interface" and not s.orelse
                  and len(s.body) == 1 and isinstance(s.body[0], ast.If) and not s.body[0].orelse
                  and ast.unparse(s.body[0].test) in ("dst_ip_address in network_interface.ip_network and network_interface.enabled",
                                                      "network_interface.enabled and dst_ip_address in network_interface.ip_network"))
            inner = _code(s.body[0].body) if ok else []
            if not ok or not inner or not isinstance(inner[-1], ast.Break):
                raise ValueError(f"{W}: loop is not `first enabled interface whose network holds dst: …; break`")
            return f"(DProg.ifOnLink {blk(inner[:-1] + rest, env, route)} {blk(rest, env, route)})"
        if isinstance(s, ast.If):
            tt = ast.unparse(s.test)
            if tt == "dst_mac_address":
                return f"(DProg.ifMac {blk(list(s.body) + rest, env, route)} {blk(list(s.orelse) + rest, env, route)})"
            neg = tt.startswith("not ")
            v = tt[4:] if neg else tt
            if v in env:
                return blk(list(s.body if env[v] != neg else s.orelse) + rest, env, route)
        raise ValueError(f"{W}: statement not in the translation table: {t[:120]}")
    return blk(list(split[0].orelse) + [fin], {}, False)


def _outbound(sm: ast.ClassDef, rsm: ast.ClassDef, harp: ast.ClassDef) -> str:
    W = "resolve_outbound_network_interface"

    def loop(s: ast.stmt, arg: str) -> bool:
        return (isinstance(s, ast.For) and ast.unparse(s.iter) == "self.node.network_interfaces.values()" and not s.orelse and len(s.body) == 1
                and isinstance(s.body[0], ast.If) and not s.body[0].orelse
                and ast.unparse(s.body[0].test) in (f"{arg} in {ast.unparse(s.target)}.ip_network and {ast.unparse(s.target)}.enabled",
                                                    f"{ast.unparse(s.target)}.enabled and {arg} in {ast.unparse(s.target)}.ip_network")
                and [ast.unparse(x) for x in _code(s.body[0].body)] == [f"return {ast.unparse(s.target)}"])

    def base(stmts: List[ast.stmt], gwvar: bool) -> str:
        stmts = _code(stmts)
        if not stmts:
            return "OProg.retNone"
        s, rest = stmts[0], stmts[1:]
        t = ast.unparse(s)
        if loop(s, "dst_ip_address"):
            return f"(OProg.localLoop {base(rest, gwvar)})"
        if t == "default_gateway = getattr(self.node.config, 'default_gateway', None)":
            return base(rest, True)
        if (isinstance(s, ast.If) and gwvar and not s.orelse and [ast.unparse(x) for x in _code(s.body)] == ["return None"]
                and ast.unparse(s.test) in ("default_gateway and IPv4Address(dst_ip_address) == default_gateway",
                                            "default_gateway and dst_ip_address == default_gateway")):
            return f"(OProg.gwSelfNone {base(rest, gwvar)})"
        if t == f"return {ARPA}get_default_gateway_network_interface()":
            return "OProg.retGwIfc"
        if t in ("return None", "return"):
            return "OProg.retNone"
        raise ValueError(f"SessionManager.{W}: statement not in the translation table: {t[:120]}")

    def rtr(stmts: List[ast.stmt], route: bool) -> str:
        stmts = _code(stmts)
        if not stmts:
            return "OProg.retNone"
        s, rest = stmts[0], stmts[1:]
        t = ast.unparse(s)
        if t == "network_interface = super().resolve_outbound_network_interface(dst_ip_address)":
            return f"(OProg.callBase Tgt.dst {rtr(rest, route)})"
        if t == "network_interface = super().resolve_outbound_network_interface(route.next_hop_ip_address)" and route:
            return f"(OProg.callBase Tgt.nextHop {rtr(rest, route)})"
        if isinstance(s, ast.If) and ast.unparse(s.test) in ("not network_interface", "network_interface"):
            pos, neg = (s.orelse, s.body) if ast.unparse(s.test).startswith("not") else (s.body, s.orelse)
            return f"(OProg.ifNic {rtr(list(pos) + rest, route)} {rtr(list(neg) + rest, route)})"
        if t == "route = self.node.route_table.find_best_route(dst_ip_address)" and rest and isinstance(rest[0], ast.If) \
                and ast.unparse(rest[0].test) in ("not route", "route"):
            i = rest[0]
            pos, neg = (i.orelse, i.body) if ast.unparse(i.test) == "not route" else (i.body, i.orelse)
            return f"(OProg.ifRoute {rtr(list(pos) + rest[1:], True)} {rtr(list(neg) + rest[1:], False)})"
        if t == "return network_interface":
            return "OProg.ret"
        if t in ("return None", "return"):
            return "OProg.retNone"
        raise ValueError(f"RouterSessionManager.{W}: statement not in the translation table: {t[:120]}")
    b = base(find_method(sm, W).body, False)
    r = rtr(find_method(rsm, W).body, False)
    # the two guarded getters of HostARP
    guards = []
    for name, getter in (("get_default_gateway_mac_address", "self.get_arp_cache_mac_address"),
                         ("get_default_gateway_network_interface", "self.get_arp_cache_network_interface")):
        gb = _code(find_method(harp, name).body)
        if not (len(gb) == 1 and isinstance(gb[0], ast.If) and not gb[0].orelse
                and [ast.unparse(x) for x in _code(gb[0].body)] == [f"return {getter}({GW})"]):
            raise ValueError(f"HostARP.{name}: not one guarded `return {getter}(<default gateway>)`")
        guards.append(_bool_test(gb[0].test, {GW: "gwSet", "self.software_manager.node.has_enabled_network_interface": "hasEnabled"}, f"HostARP.{name}"))
    return (f"/-- SessionManager.resolve_outbound_network_interface, translated -/\ndef baseOut : OProg :=\n  {b}\n"
            f"/-- RouterSessionManager.resolve_outbound_network_interface, translated -/\ndef routerOut : OProg :=\n  {r}\n"
            f"/-- HostARP.get_default_gateway_mac_address looks the gateway up iff -/\ndef gwMacGuard (gwSet hasEnabled : Bool) : Bool :=\n  {guards[0]}\n"
            f"/-- HostARP.get_default_gateway_network_interface looks the gateway up iff -/\ndef gwIfcGuard (gwSet hasEnabled : Bool) : Bool :=\n  {guards[1]}\n")


def _session() -> str:
    sm = class_def(parse(SESS), "SessionManager")
    rsm = class_def(parse(ROUTER), "RouterSessionManager")
    harp = class_def(parse(HOSTN), "HostARP")
    hd = _details("SessionManager", find_method(sm, "resolve_outbound_transmission_details"))
    rd = _details("RouterSessionManager", find_method(rsm, "resolve_outbound_transmission_details"))
    return ("""/-- whose address a look-up is for -/
inductive Tgt | dst | gateway | nextHop
deriving DecidableEq, Repr
/-- `resolve_outbound_transmission_details`, unicast branch, as a program over the STATEFUL ARP look-ups (their order is kept):
`setMac t` = `dst_mac_address = arp.<MAC look-up of t>`, `setIfc t` = `outbound_network_interface = arp.<interface look-up of t>`,
`ifOnLink` = the loop "first enabled interface whose network holds the destination … break", `ifMac` = `if dst_mac_address`,
`ifRoute` = `route = find_best_route(dst)` + the test of `route`, `ret` = the final return, `retNone` = `return None, None, …` -/
inductive DProg | ret | retNone | setMac (t : Tgt) (k : DProg) | setIfc (t : Tgt) (k : DProg)
  | ifOnLink (a b : DProg) | ifMac (a b : DProg) | ifRoute (a b : DProg)
deriving DecidableEq, Repr
/-- `resolve_outbound_network_interface`: `localLoop` = return the first enabled interface whose network holds the argument,
`gwSelfNone` = the argument is the default gateway itself → None, `retGwIfc` = return arp.get_default_gateway_network_interface(),
`callBase t` = `network_interface = super().resolve_outbound_network_interface(t)`, `ifNic` / `ifRoute` tests -/
inductive OProg | ret | retNone | retGwIfc | localLoop (k : OProg) | gwSelfNone (k : OProg)
  | callBase (t : Tgt) (k : OProg) | ifNic (a b : OProg) | ifRoute (a b : OProg)
deriving DecidableEq, Repr
"""
            f"/-- SessionManager.resolve_outbound_transmission_details (hosts), unicast branch, translated -/\ndef hostDetails : DProg :=\n  {hd}\n"
            f"/-- RouterSessionManager.resolve_outbound_transmission_details, unicast branch, translated -/\ndef routerDetails : DProg :=\n  {rd}\n"
            + _outbound(sm, rsm, harp))


def _route_entry_identity() -> str:
    """`route != default_route` in RouterARP compares RouteEntry objects: RouteEntry is a SimComponent, whose `uuid` field (a fresh uuid4 per
    object) takes part in pydantic's field-wise `==`, and defines no `__eq__` — so a table entry SPELLED like the default entry is still
    not equal to it and the look-ups tell them apart by origin, as the model's `bestOf` does."""
    re_cls = class_def(parse(ROUTER), "RouteEntry")
    if [ast.unparse(b) for b in re_cls.bases] != ["SimComponent"]:
        raise ValueError(f"RouteEntry bases are {[ast.unparse(b) for b in re_cls.bases]}")
    sc = class_def(parse("simulator/core.py"), "SimComponent")
    uu = [ast.unparse(x) for x in sc.body if isinstance(x, ast.AnnAssign) and ast.unparse(x.target) == "uuid"]
    if uu != ["uuid: str = Field(default_factory=lambda: str(uuid4()))"]:
        raise ValueError(f"SimComponent.uuid is {uu}")
    for c in (re_cls, sc):
        if any(isinstance(n, ast.FunctionDef) and n.name in ("__eq__", "__hash__") for n in c.body):
            raise ValueError(f"{c.name} defines its own equality")
    return "/-- RouteEntry equality is object identity in effect (per-object uuid field, no __eq__) -/\ndef routeEntryEqualityIsIdentity : Bool := true\n"


def emit() -> str:
    rt = parse(ROUTER)
    harp = class_def(parse(HOSTN), "HostARP")
    rarp = class_def(rt, "RouterARP")
    arp = class_def(parse(ARPF), "ARP")
    _subnet_helper(class_def(rt, "Router"))
    for cls, nm in ((harp, "HostARP"), (rarp, "RouterARP")):
        for pub, priv in (("get_arp_cache_mac_address", "_get_arp_cache_mac_address"), ("get_arp_cache_network_interface", "_get_arp_cache_network_interface")):
            b = _code(find_method(cls, pub).body)
            if [ast.unparse(x) for x in b] != [f"return self.{priv}(ip_address)"]:
                raise ValueError(f"{nm}.{pub}: not `return self.{priv}(ip_address)` (the flags start as False, False)")
    nic_ret = "self.software_manager.node.network_interfaces[arp_entry.network_interface_uuid]"
    parts = [
        Lookup("HostARP", find_method(harp, "_get_arp_cache_mac_address"), "arp_entry.mac_address").lean("hostGetMac", False),
        Lookup("HostARP", find_method(harp, "_get_arp_cache_network_interface"), nic_ret).lean("hostGetIfc", False),
        Lookup("RouterARP", find_method(rarp, "_get_arp_cache_mac_address"), "arp_entry.mac_address").lean("routerGetMac", True),
        Lookup("RouterARP", find_method(rarp, "_get_arp_cache_network_interface"), nic_ret).lean("routerGetIfc", True),
        _add_entry(arp),
        f"/-- callers of add_arp_cache_entry in the source tree, none passes `override` -/\ndef addEntryCallers : Nat := {_no_override_callers()}\n",
        _send_request(arp),
        _handlers(harp, rarp),
        _session(),
        _route_entry_identity(),
    ]
    return """namespace Primaite.Gen.ForwardArp
/-- what `find_best_route` gave the look-up: nothing, a table entry (its next hop), the default route (its next hop), or it raised -/
inductive Best (α : Type) | none | static (nh : α) | dflt (nh : α) | raised
def Best.isSome {α} : Best α → Bool | .static _ => true | .dflt _ => true | _ => false
def Best.isDflt {α} : Best α → Bool | .dflt _ => true | _ => false
def Best.isRaised {α} : Best α → Bool | .raised => true | _ => false
def Best.nh {α} : Best α → α → α | .static n, _ => n | .dflt n, _ => n | _, d => d
/-- outcome of one activation of a look-up: the cached answer, the interface whose subnet holds the address, `None`, an
exception out of find_best_route, or `send_arp_request asked` followed by the look-up of `again` with new flags -/
inductive Step (α : Type) | hit | subnet | stop | raised | go (asked again : α) (re gw : Bool)
deriving DecidableEq
""" + "\n".join(parts) + "end Primaite.Gen.ForwardArp\n"


if __name__ == "__main__":
    print(emit())
