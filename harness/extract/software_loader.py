"""C13, loader glue: TRANSLATE the statements of `PrimaiteGame.from_config` that apply the scenario's `defaults:` section to a
service that was just installed from a node's `services:` list (the block after `if service_class is not None: … else: raise`)
into a Lean function over `C13Loader.Dict` / `SvcAttrs` (Gen/SoftwareLoader.lean).  Props/C13Loader.lean proves the
translation equal, for ALL mappings and values, to the specification `C13Loader.specService` ("a configured duration is the
effective one whatever its value, 0 included; an absent key leaves the attribute alone").

The translation is semantic, not textual: `k in d`, `d[k]`, `d.get(k[, c])`, `int(x)`, truthiness of a value, `is None`,
`and / or / not`, walrus bindings of `.get(...)`, local names, `if / elif / else`, attribute assignment, `setattr` with a constant
name, and `for x in (<constants>)` loops (unrolled, f-strings over the loop variable folded).  Anything else raises (strict).
Pure `ast`; never imports primaite."""
import ast
import copy
from typing import Dict, List, Optional, Tuple

from harness.extract.util import class_def, find_method, parse

GEN_NAME = "SoftwareLoader"
GAME = "game/game.py"

FIELDS = {"restart_duration": "restart", "install_duration": "install", "config.fixing_duration": "fixing"}
OBJ = "new_service"


class Unsupported(Exception):
    pass


def _lit(s: str) -> str:
    return '"' + s.replace("\\", "\\\\").replace('"', '\\"') + '"'


# ------------------------------------------------------------------------------------------------ loop unrolling / folding
class _Subst(ast.NodeTransformer):
    def __init__(self, mapping: Dict[str, ast.Constant]):
        self.m = mapping

    def visit_Name(self, node: ast.Name):
        if node.id in self.m and isinstance(node.ctx, ast.Load):
            return ast.copy_location(ast.Constant(self.m[node.id].value), node)
        return node

    def visit_JoinedStr(self, node: ast.JoinedStr):
        self.generic_visit(node)
        parts = []
        for v in node.values:
            if isinstance(v, ast.Constant) and isinstance(v.value, str):
                parts.append(v.value)
            elif isinstance(v, ast.FormattedValue) and isinstance(v.value, ast.Constant) and v.conversion == -1 and v.format_spec is None \
                    and isinstance(v.value.value, str):
                parts.append(v.value.value)
            else:
                return node
        return ast.copy_location(ast.Constant("".join(parts)), node)

    def visit_BinOp(self, node: ast.BinOp):
        self.generic_visit(node)
        if isinstance(node.op, ast.Add) and all(isinstance(x, ast.Constant) and isinstance(x.value, str) for x in (node.left, node.right)):
            return ast.copy_location(ast.Constant(node.left.value + node.right.value), node)
        return node


def _const_rows(it: ast.AST) -> Optional[List[List[ast.Constant]]]:
    if not isinstance(it, (ast.Tuple, ast.List)):
        return None
    rows = []
    for e in it.elts:
        if isinstance(e, ast.Constant):
            rows.append([e])
        elif isinstance(e, (ast.Tuple, ast.List)) and all(isinstance(x, ast.Constant) for x in e.elts):
            rows.append(list(e.elts))
        else:
            return None
    return rows


def _unroll(stmts: List[ast.stmt], counter: List[int]) -> List[ast.stmt]:
    out: List[ast.stmt] = []
    for s in stmts:
        if isinstance(s, ast.For):
            rows = _const_rows(s.iter)
            if rows is None or s.orelse:
                raise Unsupported("for-loop that is not over a tuple of constants: " + ast.unparse(s.iter)[:80])
            names = [s.target.id] if isinstance(s.target, ast.Name) else \
                [t.id for t in s.target.elts] if isinstance(s.target, ast.Tuple) and all(isinstance(t, ast.Name) for t in s.target.elts) else None
            if names is None or any(len(r) != len(names) for r in rows):
                raise Unsupported("for-loop target " + ast.unparse(s.target))
            for r in rows:
                body = [_Subst(dict(zip(names, r))).visit(copy.deepcopy(b)) for b in s.body]
                out += _unroll(body, counter)
            counter[0] += 1
        elif isinstance(s, ast.If):
            s2 = copy.copy(s)
            s2.body = _unroll(s.body, counter)
            s2.orelse = _unroll(s.orelse, counter)
            out.append(s2)
        else:
            out.append(s)
    return out


# ------------------------------------------------------------------------------------------------ expressions
def _dict_of(e: ast.AST) -> Optional[str]:
    s = ast.unparse(e)
    if s == "defaults_config":
        return "d"
    if s == "service_cfg.get('options', {})":
        return "opts"
    return None


def _const_val(e: ast.AST) -> Optional[str]:
    if isinstance(e, ast.Constant):
        v = e.value
        if v is None:
            return "PyVal.none"
        if isinstance(v, bool):
            return f"(PyVal.bool {'true' if v else 'false'})"
        if isinstance(v, int):
            return f"(PyVal.int ({v}))"
        if isinstance(v, str):
            return f"(PyVal.str {_lit(v)})"
    return None


def _key(e: ast.AST) -> str:
    if isinstance(e, ast.Constant) and isinstance(e.value, str):
        return _lit(e.value)
    raise Unsupported("non-constant key " + ast.unparse(e))


def pure(e: ast.AST, env: Dict[str, str]) -> str:
    """a Lean `PyVal` term for an expression that cannot raise"""
    c = _const_val(e)
    if c is not None:
        return c
    if isinstance(e, ast.Name) and e.id in env:
        return env[e.id]
    if isinstance(e, ast.Call) and isinstance(e.func, ast.Attribute) and e.func.attr == "get" and not e.keywords and len(e.args) in (1, 2):
        dct = _dict_of(e.func.value)
        if dct is not None:
            dflt = "PyVal.none" if len(e.args) == 1 else _const_val(e.args[1])
            if dflt is None:
                raise Unsupported("default of .get is not a constant: " + ast.unparse(e))
            return f"({dct}.getD {_key(e.args[0])} {dflt})"
    raise Unsupported("not a value that cannot raise: " + ast.unparse(e)[:100])


def val(e: ast.AST, env: Dict[str, str]) -> str:
    """a Lean `Option PyVal` term (`none` = the expression raises)"""
    if isinstance(e, ast.Call) and isinstance(e.func, ast.Name) and e.func.id == "int" and len(e.args) == 1 and not e.keywords:
        return f"(({val(e.args[0], env)}).bind PyVal.pyInt)"
    if isinstance(e, ast.Subscript):
        dct = _dict_of(e.value)
        if dct is not None:
            return f"({dct}.index {_key(e.slice)})"
        raise Unsupported("subscript of " + ast.unparse(e.value))
    return f"(some {pure(e, env)})"


def test(e: ast.AST, env: Dict[str, str]) -> str:
    """a Lean `Bool` term for Python's `bool(e)` (tests of the supported shapes cannot raise)"""
    if isinstance(e, ast.BoolOp):
        return "(" + (" && " if isinstance(e.op, ast.And) else " || ").join(test(v, env) for v in e.values) + ")"
    if isinstance(e, ast.UnaryOp) and isinstance(e.op, ast.Not):
        return f"(!{test(e.operand, env)})"
    if isinstance(e, ast.Compare) and len(e.ops) == 1:
        op, l, r = e.ops[0], e.left, e.comparators[0]
        if isinstance(op, (ast.In, ast.NotIn)):
            dct = _dict_of(r)
            if dct is None:
                raise Unsupported("membership in " + ast.unparse(r))
            t = f"({dct}.has {_key(l)})"
            return t if isinstance(op, ast.In) else f"(!{t})"
        if isinstance(op, (ast.Is, ast.IsNot)) and isinstance(r, ast.Constant) and r.value is None:
            t = f"({pure(l, env)}).isNone"
            return t if isinstance(op, ast.Is) else f"(!{t})"
        raise Unsupported("comparison " + ast.unparse(e))
    return f"({pure(e, env)}).truthy"


def _hoist_walrus(t: ast.AST, env: Dict[str, str]) -> Tuple[ast.AST, List[Tuple[str, str]]]:
    """`(name := d.get(k))` anywhere in a test: bind the name first (the bound expression is pure), then test the name"""
    lets: List[Tuple[str, str]] = []

    class W(ast.NodeTransformer):
        def visit_NamedExpr(self, node: ast.NamedExpr):
            nm = node.target.id
            lets.append((nm, pure(node.value, env)))
            return ast.copy_location(ast.Name(nm, ast.Load()), node)
    t2 = W().visit(copy.deepcopy(t))
    return t2, lets


def _target_attr(t: ast.AST) -> Optional[str]:
    s = ast.unparse(t)
    if s.startswith(OBJ + "."):
        return s[len(OBJ) + 1:]
    return None


def _as_assign(s: ast.stmt) -> Optional[Tuple[str, ast.AST]]:
    """`new_service.x = e` or `setattr(new_service, "x", e)` -> (attribute path, e)"""
    if isinstance(s, ast.Assign) and len(s.targets) == 1:
        a = _target_attr(s.targets[0])
        if a is not None:
            return a, s.value
    if isinstance(s, ast.Expr) and isinstance(s.value, ast.Call) and isinstance(s.value.func, ast.Name) and s.value.func.id == "setattr" \
            and len(s.value.args) == 3 and ast.unparse(s.value.args[0]) == OBJ:
        k = s.value.args[1]
        if not (isinstance(k, ast.Constant) and isinstance(k.value, str)):
            raise Unsupported("setattr with a computed attribute name: " + ast.unparse(s))
        return k.value, s.value.args[2]
    return None


def block(stmts: List[ast.stmt], env: Dict[str, str], ind: int) -> str:
    pad = "  " * ind
    if not stmts:
        return pad + "some a"
    s, rest = stmts[0], stmts[1:]
    if isinstance(s, ast.Expr) and isinstance(s.value, ast.Constant) and isinstance(s.value.value, str):
        return block(rest, env, ind)
    if isinstance(s, ast.Pass):
        return block(rest, env, ind)
    asg = _as_assign(s)
    if asg is not None:
        attr, e = asg
        if attr not in FIELDS:
            raise Unsupported(f"write of an attribute outside the modelled ones: {OBJ}.{attr}")
        return (f"{pad}({val(e, env)}).bind fun v =>\n{pad}let a : SvcAttrs := {{ a with {FIELDS[attr]} := v }}\n"
                + block(rest, env, ind))
    if isinstance(s, ast.Assign) and len(s.targets) == 1 and isinstance(s.targets[0], ast.Name):
        nm = s.targets[0].id
        lean_nm = "x_" + nm
        v = pure(s.value, env)
        return f"{pad}let {lean_nm} : PyVal := {v}\n" + block(rest, {**env, nm: lean_nm}, ind)
    if isinstance(s, ast.If):
        t, lets = _hoist_walrus(s.test, env)
        env2 = dict(env)
        head = ""
        for nm, v in lets:
            head += f"{pad}let x_{nm} : PyVal := {v}\n"
            env2[nm] = "x_" + nm
        body = block(s.body, env2, ind + 2)
        orelse = block(s.orelse, env2, ind + 2)
        return (f"{head}{pad}(if {test(t, env2)} then\n{body}\n{pad}  else\n{orelse}).bind fun a =>\n"
                + block(rest, env2, ind))
    raise Unsupported("statement " + ast.unparse(s)[:120])


# ------------------------------------------------------------------------------------------------ locating the code
def _loop(fn: ast.FunctionDef, var: str, key: str) -> ast.For:
    found = [n for n in ast.walk(fn) if isinstance(n, ast.For) and isinstance(n.target, ast.Name) and n.target.id == var
             and ast.unparse(n.iter) == f"node_cfg['{key}']"]
    if len(found) != 1:
        raise Unsupported(f"expected exactly one `for {var} in node_cfg['{key}']`, found {len(found)}")
    return found[0]


def _writes_and_calls(stmts: List[ast.stmt], obj: str) -> Tuple[List[str], List[str]]:
    writes, calls = [], []
    for st in stmts:
        for n in ast.walk(st):
            if isinstance(n, (ast.Assign, ast.AugAssign, ast.AnnAssign)):
                for t in (n.targets if isinstance(n, ast.Assign) else [n.target]):
                    s = ast.unparse(t)
                    if s.startswith(obj + "."):
                        writes.append(s[len(obj) + 1:])
            if isinstance(n, ast.Call):
                f = ast.unparse(n.func)
                if f.startswith(obj + "."):
                    calls.append(f[len(obj) + 1:])
                # the unbound form `Class.method(obj, ...)` is a call of `method` on obj (resolved at Class)
                if isinstance(n.func, ast.Attribute) and isinstance(n.func.value, ast.Name) and n.func.value.id[:1].isupper() \
                        and n.args and ast.unparse(n.args[0]) == obj:
                    calls.append(n.func.attr)
                if f in ("setattr", "object.__setattr__") and n.args and ast.unparse(n.args[0]) == obj:
                    writes.append("setattr:" + ast.unparse(n.args[1]))
    return sorted(set(writes)), sorted(set(calls))


def service_block() -> Tuple[List[ast.stmt], List[ast.stmt], ast.FunctionDef]:
    fn = find_method(class_def(parse(GAME), "PrimaiteGame"), "from_config")
    loop = _loop(fn, "service_cfg", "services")
    idx = [i for i, s in enumerate(loop.body) if isinstance(s, ast.If) and ast.unparse(s.test) == "service_class is not None"]
    if len(idx) != 1:
        raise Unsupported("the install branch `if service_class is not None` of the services loop was not found exactly once")
    return loop.body[:idx[0] + 1], loop.body[idx[0] + 1:], fn


def duration_writers() -> List[str]:
    """every place in the package (notebooks excluded) that WRITES `restart_duration` / `install_duration`: class-level field
    defaults and overrides, attribute assignments, `setattr` with such a name, constructor keywords"""
    from harness.lib.core import SRC
    names = ("restart_duration", "install_duration")
    out: List[str] = []
    _, tail, _ = service_block()
    covered = [(st.lineno, st.end_lineno) for st in tail]   # the translated block: its writes are inside the proved translation
    for f in sorted(SRC.rglob("*.py")):
        rel = f.relative_to(SRC).as_posix()
        if "notebooks" in rel or "_package_data" in rel:
            continue
        text = f.read_text()
        if not any(n in text for n in names):
            continue
        tree = ast.parse(text)
        scopes: Dict[int, str] = {}
        for top in ast.walk(tree):
            if isinstance(top, (ast.ClassDef, ast.FunctionDef)):
                for sub in ast.walk(top):
                    if sub is not top:
                        scopes[id(sub)] = top.name if id(sub) not in scopes or isinstance(top, ast.FunctionDef) else scopes[id(sub)]
        for n in ast.walk(tree):
            if rel == GAME and hasattr(n, "lineno") and any(a <= n.lineno <= b for a, b in covered):
                continue
            tgts = []
            if isinstance(n, ast.Assign):
                tgts = n.targets
            elif isinstance(n, (ast.AnnAssign, ast.AugAssign)):
                tgts = [n.target]
            for t in tgts:
                nm = t.id if isinstance(t, ast.Name) else t.attr if isinstance(t, ast.Attribute) else None
                if nm in names:
                    out.append(f"{rel}:{scopes.get(id(n), '<module>')}:{ast.unparse(t)}")
            if isinstance(n, ast.Call):
                if ast.unparse(n.func) in ("setattr", "object.__setattr__") and any(
                        isinstance(c, ast.Constant) and isinstance(c.value, str) and any(k in c.value for k in names) for a in n.args for c in ast.walk(a)):
                    out.append(f"{rel}:{scopes.get(id(n), '<module>')}:setattr")
                for kw in n.keywords:
                    if kw.arg in names:
                        out.append(f"{rel}:{scopes.get(id(n), '<module>')}:keyword {kw.arg}")
    return sorted(out)


def emit() -> str:
    head, tail, fn = service_block()
    counter = [0]
    flat = _unroll(tail, counter)
    body = block(flat, {}, 1)
    # where `defaults_config` comes from
    src = [ast.unparse(n.value) for n in ast.walk(fn) if isinstance(n, ast.Assign) and len(n.targets) == 1
           and ast.unparse(n.targets[0]) == "defaults_config"]
    if len(src) != 1:
        raise Unsupported(f"defaults_config assigned {len(src)} times")
    hw, hc = _writes_and_calls(head, OBJ)
    app_loop = _loop(fn, "application_cfg", "applications")
    aw, ac = _writes_and_calls(app_loop.body, "new_application")
    # any mention of the two lifecycle durations in from_config outside the translated block
    tail_nodes = {id(n) for st in tail for n in ast.walk(st)}
    outside = 0
    for n in ast.walk(fn):
        if id(n) in tail_nodes:
            continue
        if (isinstance(n, ast.Attribute) and n.attr in ("restart_duration", "install_duration")) or \
                (isinstance(n, ast.Constant) and isinstance(n.value, str) and
                 any(k in n.value for k in ("restart_duration", "install_duration"))):
            outside += 1

    def strs(l):
        return "[" + ", ".join(_lit(x) for x in l) + "]"
    return f"""import PrimaiteModel.Model.C13Loader
namespace Primaite.Gen.SoftwareLoader
open Primaite.C13Loader

/-- TRANSLATED from `PrimaiteGame.from_config`: the statements after a service of `node_cfg["services"]` was installed
(`d` = `defaults_config`, `opts` = `service_cfg.get("options", {{}})`, `a` = the attributes of `new_service`); `none` = raises -/
def serviceDefaults (d opts : Dict) (a : SvcAttrs) : Option SvcAttrs :=
{body}

/-- the expression `defaults_config` is assigned from -/
def defaultsSource : String := {_lit(src[0])}
/-- constant-tuple loops unrolled by the translator (information) -/
def unrolledLoops : Nat := {counter[0]}
/-- attributes of `new_service` written / methods of it called in the install branch before the translated block -/
def headWrites : List String := {strs(hw)}
def headCalls : List String := {strs(hc)}
/-- the same for `new_application` in the whole `applications` loop -/
def appWrites : List String := {strs(aw)}
def appCalls : List String := {strs(ac)}
/-- mentions of `restart_duration` / `install_duration` in `from_config` outside the translated block -/
def durationMentionsOutside : Nat := {outside}
/-- every writer of `restart_duration` / `install_duration` in the package: `file:scope:target` -/
def durationWriters : List String := {strs(duration_writers())}

end Primaite.Gen.SoftwareLoader
"""
